"""Bounded stand-in for C18: AuditableStore transactions against snapshots of the wrapped store."""
from __future__ import annotations

import itertools

from bounded.run import Suite


def vocab():
    from rdflib import URIRef, Literal
    T = [(URIRef("urn:s"), URIRef("urn:p"), URIRef("urn:o")), (URIRef("urn:s"), URIRef("urn:p"), Literal(0))]
    N = [URIRef("urn:g1"), URIRef("urn:g2")]
    return T, N


def quads_of(store):
    from rdflib import Dataset
    ds = Dataset(store=store)
    return {(s, p, o, c) for s, p, o, c in ds.quads() }


class Transactions(Suite):
    chunk = 200

    def bound(self, tier):
        n = 4 if tier == "quick" else 5
        return (f"all histories of <= {n} operations (add quad, remove quad, remove (s,p,None) in one graph, remove a "
                f"triple from all graphs, remove everything in one graph; rollback/commit at the end and optionally in "
                f"the middle) over 2 triples x 2 graphs, every initial content (16), through an empty second graph as "
                f"well; wrapped store compared with the snapshot at transaction start / before commit; a second "
                f"rollback must change nothing")

    def ops(self):
        ops = []
        for ti in range(2):
            for ni in range(2):
                ops.append(("add", ti, ni))
                ops.append(("remove", ti, ni))
            ops.append(("remove-all-graphs", ti))
        for ni in range(2):
            ops.append(("remove-sp", ni))
            ops.append(("clear", ni))
        ops.append(("remove-absent-from-empty-graph",))
        return ops

    def enumerate(self, tier):
        n = 4 if tier == "quick" else 5
        ops = self.ops()
        for init in range(16):
            for k in range(1, n + 1):
                if k == n and tier == "quick" and init not in (0, 5, 15):
                    continue
                for h in itertools.product(ops, repeat=k):
                    for end in ("rollback", "commit"):
                        yield {"init": init, "history": [list(o) for o in h], "end": end, "mid": None}
                if k >= 2 and k < n:
                    for h in itertools.product(ops, repeat=k):
                        yield {"init": init, "history": [list(o) for o in h], "end": "rollback", "mid": ["commit", 1]}

    def nontrivial(self, case):
        return len(case["history"]) > 1

    def check(self, case):
        from rdflib import Graph, Dataset, URIRef
        from rdflib.plugins.stores.memory import Memory
        from rdflib.plugins.stores.auditable import AuditableStore
        T, N = vocab()
        base = Memory()
        bds = Dataset(store=base)
        for i in range(4):
            if case["init"] >> i & 1:
                bds.add(T[i % 2] + (N[i // 2],))
        bds.graph(URIRef("urn:empty"))
        aud = AuditableStore(base)
        import warnings
        from rdflib import ConjunctiveGraph
        with warnings.catch_warnings():
            warnings.simplefilter("ignore")
            ds = ConjunctiveGraph(store=aud)
        start = quads_of(base)
        for i, op in enumerate(case["history"]):
            k = op[0]
            if k == "add":
                ds.add(T[op[1]] + (N[op[2]],))
            elif k == "remove":
                ds.remove(T[op[1]] + (N[op[2]],))
            elif k == "remove-all-graphs":
                ds.remove(T[op[1]])
            elif k == "remove-sp":
                ds.remove((T[0][0], T[0][1], None, N[op[1]]))
            elif k == "clear":
                Graph(store=aud, identifier=N[op[1]]).remove((None, None, None))
            elif k == "remove-absent-from-empty-graph":
                ds.remove(T[0] + (URIRef("urn:empty"),))
            if case["mid"] and case["mid"][1] == i:
                aud.commit()
                start = quads_of(base)
        reached = quads_of(base)
        if case["end"] == "rollback":
            aud.rollback()
            if quads_of(base) != start:
                return (f"rollback: wrapped store holds {sorted(map(str, quads_of(base)))} after rollback, had "
                        f"{sorted(map(str, start))} when the transaction began")
        else:
            aud.commit()
            if quads_of(base) != reached:
                return "commit: commit changed the content"
        after = quads_of(base)
        aud.rollback()
        if quads_of(base) != after:
            return "idempotent: a further rollback changed the store"
        return None

    def classify(self, case, msg):
        return msg.split(":")[0]


class TwoWrappers(Suite):
    chunk = 200

    def bound(self, tier):
        return "two wrappers over one Memory store, wrapper A works on graph g1, B on g2 (disjoint quads): every " \
               "interleaving of <= 3 + 3 operations, then A rolls back: B's changes must be intact and A's undone"

    def enumerate(self, tier):
        opsA = [("add", 0), ("add", 1), ("remove", 0), ("remove", 1), ("clear",)]
        n = 2 if tier == "quick" else 3
        for init in range(16):
            for ka in range(1, n + 1):
                for kb in range(1, n + 1):
                    for ha in itertools.product(opsA, repeat=ka):
                        for hb in itertools.product(opsA, repeat=kb):
                            for order in set(itertools.permutations("A" * ka + "B" * kb)):
                                yield {"init": init, "A": [list(o) for o in ha], "B": [list(o) for o in hb],
                                       "order": "".join(order)}

    def check(self, case):
        from rdflib import Graph, Dataset
        from rdflib.plugins.stores.memory import Memory
        from rdflib.plugins.stores.auditable import AuditableStore
        T, N = vocab()
        base = Memory()
        bds = Dataset(store=base)
        for i in range(4):
            if case["init"] >> i & 1:
                bds.add(T[i % 2] + (N[i // 2],))
        w = {"A": AuditableStore(base), "B": AuditableStore(base)}
        g = {"A": Graph(store=w["A"], identifier=N[0]), "B": Graph(store=w["B"], identifier=N[1])}
        startA = set(Graph(store=base, identifier=N[0]))
        idx = {"A": 0, "B": 0}
        for who in case["order"]:
            op = case[who][idx[who]]
            idx[who] += 1
            if op[0] == "add":
                g[who].add(T[op[1]])
            elif op[0] == "remove":
                g[who].remove(T[op[1]])
            else:
                g[who].remove((None, None, None))
        reachedB = set(Graph(store=base, identifier=N[1]))
        w["A"].rollback()
        if set(Graph(store=base, identifier=N[0])) != startA:
            return "isolation: A's rollback did not restore A's graph"
        if set(Graph(store=base, identifier=N[1])) != reachedB:
            return "isolation: A's rollback damaged B's uncommitted changes"
        return None

    def classify(self, case, msg):
        return msg.split(":")[0]


SUITES = {"transactions": Transactions(), "two-wrappers": TwoWrappers()}
