"""Bounded stand-in for C08: solution modifiers and aggregates against an independent reference.

The reference works on the raw solution multiset of the WHERE pattern (obtained with a plain SELECT *, whose
correctness is C04's subject) and computes DISTINCT / ORDER BY / LIMIT / OFFSET / projection / GROUP BY + aggregates /
HAVING itself, from the SPARQL 1.1 definitions (15.1 ordering, 11 aggregates, 18.5 set functions).
"""
from __future__ import annotations

import itertools
from collections import Counter, OrderedDict
from decimal import Decimal

from bounded.run import Suite

PFX = "PREFIX : <urn:x:> PREFIX xsd: <http://www.w3.org/2001/XMLSchema#> "


def data(gi):
    from rdflib import Graph, URIRef, Literal, BNode
    g = Graph()
    P = lambda n: URIRef("urn:x:" + n)  # noqa
    rows = [
        [],
        [("a", "v", 3)],
        [("a", "v", 0), ("a", "v", 5), ("a", "v", 3), ("b", "v", -2), ("b", "v", 0), ("b", "v", -1), ("c", "v", 7)],
        [("a", "v", 2), ("a", "w", 2), ("b", "v", 2), ("b", "v", 1), ("c", "w", 1), ("a", "v", 10), ("d", "v", 0), ("d", "w", 0)],
        [("a", "v", 1), ("a", "v", "x"), ("b", "v", ""), ("b", "v", "y"), ("c", "v", 1.5), ("c", "v", 2), ("d", "v", ":iri"),
         ("d", "v", "_:bn"), ("e", "v", 0)],
    ][gi]
    for s, p, o in rows:
        if isinstance(o, str) and o.startswith(":"):
            ot = P(o[1:])
        elif isinstance(o, str) and o.startswith("_:"):
            ot = BNode(o[2:])
        else:
            ot = Literal(o)
        g.add((P(s), P(p), ot))
        g.add((P(s), P("k"), Literal(len(s) % 2)))
    return g


NG = 5
PATTERNS = ["{ ?s :v ?x }", "{ ?s :v ?x OPTIONAL { ?s :w ?y } }", "{ ?s :k ?k OPTIONAL { ?s :v ?x } }",
            "{ { ?s :v ?x } UNION { ?s :w ?x } }"]


# ---- SPARQL ordering (15.1): unbound < blank nodes < IRIs < literals; numerics by value, plain strings by codepoint
def okey(t):
    from rdflib import URIRef, Literal, BNode
    if t is None:
        return (0,)
    if isinstance(t, BNode):
        return (1, str(t))
    if isinstance(t, URIRef):
        return (2, str(t))
    if isinstance(t.value, (int, float, Decimal)) and not isinstance(t.value, bool):
        return (3, 0, float(t.value))
    return (3, 1, str(t))


def comparable_col(vals):
    """ordering between a number and a string literal is not defined by the spec: such columns only get the
    order-insensitive checks"""
    kinds = {okey(v)[:2] for v in vals if v is not None and okey(v)[0] == 3}
    bn = [v for v in vals if v is not None and okey(v)[0] == 1]
    return len(kinds) <= 1 and len(bn) <= 1     # the relative order of blank nodes is implementation defined


def bindings_of(res):
    """the solution sequence as a user sees it by iterating the Result.  rdflib deliberately does not show solutions
    that bind no variable at all (Result.__iter__), so such solutions are unobservable and the reference drops
    them as well (see `observable`)."""
    return [{str(k): v for k, v in r.asdict().items() if v is not None} for r in res]


def observable(rows):
    return [r for r in rows if any(v is not None for v in (r.values() if isinstance(r, dict) else r))]


def rows_of(g, pat):
    return bindings_of(g.query(PFX + "SELECT * WHERE " + pat))


def proj(row, vs):
    return tuple(row.get(v) for v in vs)


class Modifiers(Suite):
    chunk = 8

    def bound(self, tier):
        return ("4 patterns (with OPTIONAL/UNION, so unbound sort keys and duplicates occur) x 5 data graphs (empty, one row, "
                "zeros and negatives, ties on every key, mixed kinds: numbers, strings, IRI, blank node) x ORDER BY over 1-2 "
                "keys in every ASC/DESC combination x LIMIT/OFFSET in {none,0,1,2,5} x DISTINCT/REDUCED x projections: the "
                "result is a permutation of the raw solutions, sorted (stable w.r.t. later keys), sliced and projected exactly")

    def enumerate(self, tier):
        keys = ["?x", "?s", "?y", "?k"]
        orders = [()] + [((k, d),) for k in keys[:3] for d in ("ASC", "DESC")] + \
                 [((a, d1), (b, d2)) for a, b in (("?s", "?x"), ("?x", "?s"), ("?y", "?x")) for d1 in ("ASC", "DESC") for d2 in ("ASC", "DESC")]
        slices = [(None, None), (0, None), (1, None), (2, 1), (5, 2), (None, 3), (1, 100)]
        for pi in range(len(PATTERNS)):
            for gi in range(NG):
                for oi, o in enumerate(orders):
                    for si, sl in enumerate(slices):
                        if tier == "quick" and (oi + si + pi + gi) % 2:
                            continue
                        for dist in ("", "DISTINCT", "REDUCED"):
                            for pv in ("*", "?s", "?x ?s"):
                                if tier == "quick" and dist == "REDUCED" and pv != "*":
                                    continue
                                yield {"p": pi, "g": gi, "o": list(map(list, o)), "l": sl[0], "f": sl[1], "d": dist, "v": pv}

    def check(self, case):
        from rdflib import Variable
        g = data(case["g"])
        pat = PATTERNS[case["p"]]
        raw = rows_of(g, pat)
        allv = sorted({str(k) for r in raw for k in r})
        pv = allv if case["v"] == "*" else [v[1:] for v in case["v"].split()]
        q = "SELECT " + (case["d"] + " " if case["d"] else "") + case["v"] + " WHERE " + pat
        if case["o"]:
            q += " ORDER BY " + " ".join(f"{d}({k})" for k, d in case["o"])
        if case["l"] is not None:
            q += f" LIMIT {case['l']}"
        if case["f"] is not None:
            q += f" OFFSET {case['f']}"
        res = g.query(PFX + q)
        got = [tuple(r.get(v) for v in pv) for r in bindings_of(res)]
        # ---- reference
        rows = [{k: r.get(k) for k in allv} for r in raw]
        okeys = [k[1:] for k, _ in case["o"]]
        sortable = all(comparable_col([r.get(k) for r in rows]) for k in okeys)
        if case["o"] and sortable:
            for k, d in reversed(case["o"]):
                rows = sorted(rows, key=lambda r: okey(r.get(k[1:])), reverse=(d == "DESC"))
        projected = observable([proj(r, pv) for r in rows])
        if case["d"] == "DISTINCT":
            projected = list(OrderedDict.fromkeys(projected))
        lo = case["f"] or 0
        hi = None if case["l"] is None else lo + case["l"]
        n_exp = len(projected[lo:hi])
        full = Counter(projected)
        if case["d"] == "REDUCED":
            # REDUCED: each solution between 1 and its multiplicity
            if case["l"] is None and case["f"] is None:
                if set(got) != set(full) or any(got.count(x) > full[x] for x in set(got)):
                    return f"reduced: {q!r} on data #{case['g']}: cardinalities outside [1, multiplicity]"
            return None
        if len(got) != n_exp:
            return f"slice-length: {q!r} on data #{case['g']}: {len(got)} rows, expected {n_exp}"
        if any(v for v in pv if v not in allv and any(x is not None for x in [r[pv.index(v)] for r in got])):
            return f"projection: {q!r}"
        if not (Counter(got) <= full):
            return f"not-a-sub-multiset: {q!r} on data #{case['g']}: rows {list((Counter(got) - full).items())[:2]} not among the solutions"
        if case["d"] == "DISTINCT" and len(set(got)) != len(got):
            return f"distinct: {q!r} on data #{case['g']} returns a duplicate"
        if case["o"] and sortable:
            # the sort keys must be visible in the projection to compare positions; compare on key columns only
            if all(k in pv for k in okeys):
                def ck(row):
                    return tuple(okey(row[pv.index(k)]) for k in okeys)
                exp_slice = projected[lo:hi]
                for i, (a, b) in enumerate(zip(got, exp_slice)):
                    if ck(a) != ck(b):
                        return (f"order: {q!r} on data #{case['g']}: row {i} has sort key {ck(a)}, the sorted sequence "
                                f"has {ck(b)} there")
                # adjacent rows never out of order (direction per key)
                for a, b in zip(got, got[1:]):
                    for k, d in case["o"]:
                        ka, kb = okey(a[pv.index(k[1:])]), okey(b[pv.index(k[1:])])
                        if ka == kb:
                            continue
                        if (ka > kb) != (d == "DESC"):
                            return f"order-adjacent: {q!r} on data #{case['g']}: {a} before {b}"
                        break
                if Counter(got) != Counter(exp_slice):
                    # ties between rows with equal keys may be broken either way only when the key columns are equal
                    if Counter(map(ck, got)) != Counter(map(ck, exp_slice)):
                        return f"slice-content: {q!r} on data #{case['g']}"
        elif not case["o"] and case["l"] is None and case["f"] is None:
            if Counter(got) != Counter(projected):
                return f"multiset: {q!r} on data #{case['g']}: result is not the multiset of (projected) solutions"
        return None

    def classify(self, case, msg):
        return msg.split(":")[0]


# ---------------------------------------------------------------- aggregates
def num(t):
    from rdflib import Literal
    if isinstance(t, Literal) and isinstance(t.value, (int, float, Decimal)) and not isinstance(t.value, bool):
        return t.value
    return None


AGGS = ["COUNT(?x)", "COUNT(*)", "COUNT(DISTINCT ?x)", "SUM(?x)", "AVG(?x)", "MIN(?x)", "MAX(?x)", "SAMPLE(?x)",
        "GROUP_CONCAT(?x)", "GROUP_CONCAT(DISTINCT ?x ; separator='|')", "SUM(DISTINCT ?x)", "COUNT(?y)", "MIN(?y)"]


def ref_agg(agg, group):
    """-> ('value', python value) | ('unbound',) | ('any-of', set) | ('skip',)"""
    var = "x" if "?x" in agg else ("y" if "?y" in agg else None)
    vals = [r.get(var) for r in group if r.get(var) is not None] if var else None
    if agg == "COUNT(*)":
        return ("value", len(group))
    if agg.startswith("COUNT(DISTINCT"):
        return ("value", len(set(vals)))
    if agg.startswith("COUNT"):
        return ("value", len(vals))
    if agg.startswith("SUM") or agg.startswith("AVG"):
        vs = list(OrderedDict.fromkeys(vals)) if "DISTINCT" in agg else vals
        if any(num(v) is None for v in vs):
            return ("unbound",)          # type error in the set function: the aggregate is an error, variable unbound
        ns = [num(v) for v in vs]
        if agg.startswith("SUM"):
            return ("value", sum(ns) if ns else 0)
        if not ns:
            return ("value", 0)
        return ("value", sum(float(n) for n in ns) / len(ns))
    if agg.startswith("MIN") or agg.startswith("MAX"):
        if not vals:
            return ("unbound",)
        from bounded.c08 import okey, comparable_col
        if not comparable_col(vals):
            return ("skip",)
        f = min if agg.startswith("MIN") else max
        best = f(vals, key=okey)
        return ("any-of", {v for v in vals if okey(v) == okey(best)})
    if agg.startswith("SAMPLE"):
        return ("any-of", set(vals)) if vals else ("unbound",)
    if agg.startswith("GROUP_CONCAT"):
        sep = "|" if "separator" in agg else " "
        vs = vals
        if "DISTINCT" in agg:
            return ("concat-set", set(str(v) for v in vs), sep)
        return ("concat", Counter(str(v) for v in vs), sep)
    raise ValueError(agg)


class Aggregates(Suite):
    chunk = 8

    def bound(self, tier):
        return ("13 aggregate expressions (COUNT/SUM/AVG/MIN/MAX/SAMPLE/GROUP_CONCAT, DISTINCT forms, an aggregate over an "
                "OPTIONAL variable) x grouping by ?s / ?k / none (implicit single group, incl. over the empty pattern) x 4 "
                "patterns x 5 data graphs (empty, zeros, negatives, ties, non-numeric members) x HAVING on the aggregate: "
                "groups = partition by key, each value recomputed from the raw solutions")

    def enumerate(self, tier):
        for ai in range(len(AGGS)):
            for pi in range(len(PATTERNS)):
                for gi in range(NG):
                    for grp in ("", "?s", "?k"):
                        if grp == "?k" and pi != 2:
                            continue
                        for hv in (False, True):
                            yield {"a": ai, "p": pi, "g": gi, "grp": grp, "having": hv}

    def check(self, case):
        from rdflib import Literal
        g = data(case["g"])
        pat, agg, grp = PATTERNS[case["p"]], AGGS[case["a"]], case["grp"]
        raw = rows_of(g, pat)
        raw = [{str(k): v for k, v in r.items()} for r in raw]
        q = f"SELECT {grp} ({agg} AS ?r) WHERE {pat}" + (f" GROUP BY {grp}" if grp else "")
        having = case["having"] and agg.startswith("COUNT")
        if case["having"] and not having:
            return None
        if having:
            q += f" HAVING ({agg} > 1)"
        try:
            res = observable(bindings_of(g.query(PFX + q)))
        except Exception as e:  # noqa
            return f"raises: {type(e).__name__}: {str(e)[:120]} on {q!r} data #{case['g']}"
        res = [{str(k): v for k, v in r.items()} for r in res]
        groups = OrderedDict()
        if grp:
            for r in raw:
                groups.setdefault(r.get(grp[1:]), []).append(r)
        else:
            groups[None] = raw           # the implicit group exists even when there is no solution
        exp = {}
        for key, rows in groups.items():
            exp[key] = ref_agg(agg, rows)
        if having:
            exp = {k: v for k, v in exp.items() if v[1] > 1}
        got = {}
        for r in res:
            key = r.get(grp[1:]) if grp else None
            if key in got:
                return f"group-twice: {q!r} data #{case['g']}: group {key} appears twice"
            got[key] = r.get("r")
        # a row binding nothing (no group key, aggregate unbound) is not observable
        exp = {k: v for k, v in exp.items() if not (k is None and v[0] == "unbound")}
        if set(got) != set(exp):
            return (f"groups: {q!r} data #{case['g']}: groups {sorted(map(str, set(got) ^ set(exp)))[:3]} "
                    f"missing or unexpected")
        for key, e in exp.items():
            v = got[key]
            if e[0] == "skip":
                continue
            if e[0] == "unbound":
                if v is not None:
                    return f"should-be-unbound: {q!r} data #{case['g']} group {key}: got {v!r}"
            elif e[0] == "value":
                if v is None or num(v) is None or abs(float(num(v)) - float(e[1])) > 1e-9:
                    return f"wrong-value: {q!r} data #{case['g']} group {key}: got {v!r}, expected {e[1]}"
            elif e[0] == "any-of":
                if v not in e[1]:
                    return f"wrong-value: {q!r} data #{case['g']} group {key}: got {v!r}, expected one of {sorted(map(str, e[1]))}"
            elif e[0] == "concat":
                parts = Counter(str(v).split(e[2])) if str(v) != "" or sum(e[1].values()) else Counter()
                want = e[1]
                if "" in want and sum(want.values()) == 1:
                    parts = Counter([str(v)])
                if v is None or (parts != want and not any(e[2] in s for s in want)):
                    return f"wrong-value: {q!r} data #{case['g']} group {key}: got {v!r}, expected the members {dict(want)}"
            elif e[0] == "concat-set":
                parts = set(str(v).split(e[2]))
                if v is None or (parts != e[1] and not any(e[2] in s for s in e[1]) and not (e[1] == set() and str(v) == "")):
                    return f"wrong-value: {q!r} data #{case['g']} group {key}: got {v!r}, expected the distinct members {sorted(e[1])}"
        return None

    def classify(self, case, msg):
        return msg.split(":")[0] + ":" + AGGS[case["a"]].split("(")[0]


class HavingOnKey(Suite):
    """HAVING may refer to a grouping variable without any aggregate, whether or not that variable is projected."""
    chunk = 4

    def bound(self, tier):
        return ("HAVING conditions without an aggregate (?s != <one of the keys>, BOUND(?s)) on the grouping variable, with "
                "and without projecting it, COUNT(*) / COUNT(?x) per group: 4 patterns x 5 data graphs x every key")

    def enumerate(self, tier):
        for pi in range(len(PATTERNS)):
            for gi in range(NG):
                for proj in (False, True):
                    yield {"p": pi, "g": gi, "proj": proj}

    def check(self, case):
        g = data(case["g"])
        pat = PATTERNS[case["p"]]
        raw = [{str(k): v for k, v in r.items()} for r in rows_of(g, pat)]
        keys = list(OrderedDict((r.get("s"), 1) for r in raw))
        sel = "?s " if case["proj"] else ""
        for agg in ("COUNT(*)", "COUNT(?x)"):
            for cond, keep in [("BOUND(?s)", lambda k: k is not None)] + \
                              [(f"?s != {k0.n3()}", (lambda k, k0=k0: k is not None and k != k0)) for k0 in keys[:3] if k0 is not None]:
                q = f"SELECT {sel}({agg} AS ?r) WHERE {pat} GROUP BY ?s HAVING ({cond})"
                try:
                    res = observable(bindings_of(g.query(PFX + q)))
                except Exception as e:  # noqa
                    return f"raises: {type(e).__name__}: {str(e)[:120]} on {q!r} data #{case['g']}"
                got = Counter((str(r.get("s")) if case["proj"] else "-", str(r.get("r"))) for r in
                              [{str(k): v for k, v in r.items()} for r in res])
                exp = Counter()
                for k in keys:
                    if not keep(k):
                        continue
                    rows = [r for r in raw if r.get("s") == k]
                    n = len(rows) if agg == "COUNT(*)" else sum(1 for r in rows if r.get("x") is not None)
                    exp[(str(k) if case["proj"] else "-", str(n))] += 1
                if got != exp:
                    return (f"having-on-key: {q!r} data #{case['g']}: groups {sorted((got - exp).items())[:2]} unexpected, "
                            f"{sorted((exp - got).items())[:2]} missing")
        return None

    def classify(self, case, msg):
        return msg.split(":")[0]


SUITES = {"modifiers": Modifiers(), "aggregates": Aggregates(), "having-on-key": HavingOnKey()}
