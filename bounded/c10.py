"""Bounded stand-in for C10: SPARQL Update against a reference implementation of the Update semantics on a plain
model of the dataset (dict: graph name -> set of triples; None = default graph)."""
from __future__ import annotations

import itertools

from bounded.run import Suite

PFX = "PREFIX : <urn:x:> "


def U(n):
    from rdflib import URIRef
    return URIRef("urn:x:" + n)


def datasets():
    from rdflib import Literal
    a, b, c, p, q = U("a"), U("b"), U("c"), U("p"), U("q")
    g1, g2 = U("g1"), U("g2")
    return [
        {None: set(), g1: set()},
        {None: {(a, p, b), (b, p, a)}, g1: {(a, p, c)}, g2: {(c, q, Literal(0))}},
        {None: {(a, p, b), (b, p, c), (c, p, a), (a, q, Literal(0)), (b, q, Literal(""))}, g1: {(a, p, b), (a, q, Literal(1))},
         g2: {(b, p, c)}},
        {None: {(a, p, a)}, g1: {(a, p, b), (b, p, a)}, g2: {(a, p, b)}},
    ]


# ---- operation AST -------------------------------------------------------------------------------------------
# template triple: (s, p, o, graph) with terms "?v" / ":iri" / int / '""' / "_:b"; graph None (default / WITH) or term
# ("insertdata", [quads]) ("deletedata", [quads]) ("deletewhere", [quads]) ("modify", with, delete[], insert[], where[quads-pattern])
# ("clear"|"drop", target) ("add"|"move"|"copy", src, dst)   target: "DEFAULT" | "NAMED" | "ALL" | ":g1"

def tt(x):
    from rdflib import Literal, BNode
    if isinstance(x, int):
        return Literal(x)
    if x.startswith(":"):
        return U(x[1:])
    if x.startswith('"'):
        return Literal(x.strip('"'))
    raise ValueError(x)


def rterm(x):
    return str(x) if isinstance(x, int) else x


def render_quads(quads):
    by = {}
    for s, p, o, g in quads:
        by.setdefault(g, []).append(f"{rterm(s)} {rterm(p)} {rterm(o)} .")
    out = []
    for g, ts in by.items():
        out.append(" ".join(ts) if g is None else f"GRAPH {g} {{ {' '.join(ts)} }}")
    return "{ " + " ".join(out) + " }"


def render(op):
    k = op[0]
    if k == "insertdata2":      # two separate GRAPH blocks naming the same graph
        return "INSERT DATA { " + render_quads(op[1])[1:-1] + " " + render_quads(op[2])[1:-1] + " }"
    if k == "modify2":
        return "INSERT { " + render_quads(op[1])[1:-1] + " " + render_quads(op[2])[1:-1] + " } WHERE " + render_quads(op[3])
    if k == "modifydup":
        w = render_quads(op[3])
        return (("DELETE " + render_quads(op[1]) + " ") if op[1] is not None else "") + "INSERT " + render_quads(op[2]) + \
            " WHERE { " + w + " UNION " + w + " }"
    if k == "insertdata":
        return "INSERT DATA " + render_quads(op[1])
    if k == "deletedata":
        return "DELETE DATA " + render_quads(op[1])
    if k == "deletewhere":
        return "DELETE WHERE " + render_quads(op[1])
    if k == "modify":
        _, w, d, i, where = op
        s = (f"WITH {w} " if w else "")
        if d is not None:
            s += "DELETE " + render_quads(d) + " "
        if i is not None:
            s += "INSERT " + render_quads(i) + " "
        return s + "WHERE " + render_quads(where)
    if k in ("clear", "drop"):
        t = op[1]
        return f"{k.upper()} SILENT " + (t if t in ("DEFAULT", "NAMED", "ALL") else f"GRAPH {t}")
    if k in ("add", "move", "copy"):
        f = lambda t: "DEFAULT" if t == "DEFAULT" else f"GRAPH {t}"  # noqa
        return f"{k.upper()} SILENT {f(op[1])} TO {f(op[2])}"
    raise ValueError(k)


# ---- reference semantics ---------------------------------------------------------------------------------------
def match(quads, D, default_name=None, union_default=False):
    """solutions of a quads pattern over dataset D (dict)"""
    sols = [{}]
    for s, p, o, g in quads:
        new = []
        for mu in sols:
            if g is None:
                if union_default:
                    cands = [(None, t) for ts in D.values() for t in ts]
                else:
                    cands = [(None, t) for t in D.get(default_name, set())]
            elif g.startswith("?"):
                cands = [(n, t) for n, ts in D.items() if n is not None for t in ts]
            else:
                cands = [(tt(g), t) for t in D.get(tt(g), set())]
            for gname, t in cands:
                m2 = dict(mu)
                ok = True
                pairs = list(zip((s, p, o), t))
                if g is not None and g.startswith("?"):
                    pairs.append((g, gname))
                for pat, x in pairs:
                    if isinstance(pat, str) and pat.startswith("?"):
                        if pat in m2:
                            if m2[pat] != x:
                                ok = False
                                break
                        else:
                            m2[pat] = x
                    elif tt(pat) != x:
                        ok = False
                        break
                if ok and m2 not in new:
                    new.append(m2)
        sols = new
    return sols


def inst(quads, mu, default_name, fresh):
    """instantiate a template: skip triples with unbound variables or illegal terms"""
    from rdflib import Literal, BNode, URIRef
    out = []
    for s, p, o, g in quads:
        vals = []
        ok = True
        for x in (s, p, o):
            if isinstance(x, str) and x.startswith("?"):
                if x not in mu:
                    ok = False
                    break
                vals.append(mu[x])
            elif isinstance(x, str) and x.startswith("_:"):
                vals.append(fresh(x))
            else:
                vals.append(tt(x))
        if not ok:
            continue
        if isinstance(vals[0], Literal) or not isinstance(vals[1], URIRef):
            continue
        if g is None:
            gn = default_name
        elif g.startswith("?"):
            if g not in mu or not isinstance(mu[g], URIRef):
                continue
            gn = mu[g]
        else:
            gn = tt(g)
        out.append((gn, tuple(vals)))
    return out


def apply_ref(op, D, union_default, dup=1):
    from rdflib import BNode
    D = {k: set(v) for k, v in D.items()}
    k = op[0]
    if k == "insertdata2":
        return apply_ref(("insertdata", op[1] + op[2]), D, union_default)
    if k == "modify2":
        return apply_ref(("modify", None, None, op[1] + op[2], op[3]), D, union_default)
    if k == "modifydup":
        return apply_ref(("modify", None, op[1], op[2], op[3]), D, union_default, dup=2)
    if k == "insertdata":
        for s, p, o, g in op[1]:
            D.setdefault(None if g is None else tt(g), set()).add((tt(s), tt(p), tt(o)))
    elif k == "deletedata":
        for s, p, o, g in op[1]:
            D.get(None if g is None else tt(g), set()).discard((tt(s), tt(p), tt(o)))
    elif k == "deletewhere":
        sols = match(op[1], D, None, union_default)
        dels = [x for mu in sols for x in inst(op[1], mu, None, lambda l: BNode())]
        for gn, t in dels:
            D.get(gn, set()).discard(t)
    elif k == "modify":
        _, w, d, i, where = op
        dn = tt(w) if w else None
        sols = match(where, D, dn, union_default and not w) * dup
        counter = [0]
        dels, ins = [], []
        for mu in sols:
            if d is not None:
                dels += inst(d, mu, dn, lambda l: BNode())
            if i is not None:
                memo = {}
                ins += inst(i, mu, dn, lambda l: memo[l] if l in memo else memo.setdefault(l, BNode()))
                counter[0] += 1
        for gn, t in dels:
            D.get(gn, set()).discard(t)
        for gn, t in ins:
            D.setdefault(gn, set()).add(t)
    elif k in ("clear", "drop"):
        t = op[1]
        names = [None] if t == "DEFAULT" else [n for n in D if n is not None] if t == "NAMED" else list(D) if t == "ALL" else [tt(t)]
        for n in names:
            if n in D:
                D[n] = set()
    elif k in ("add", "move", "copy"):
        src = None if op[1] == "DEFAULT" else tt(op[1])
        dst = None if op[2] == "DEFAULT" else tt(op[2])
        if src != dst:
            if k != "add":
                D[dst] = set()
            D.setdefault(dst, set()).update(D.get(src, set()))
            if k == "move":
                D[src] = set()
    return D


def canon(D):
    """quads with blank nodes abstracted to their (graph-local) shape: enough for templates with at most one bnode
    per solution"""
    from rdflib import BNode
    out = []
    for n, ts in D.items():
        for t in ts:
            out.append((None if n is None else str(n),) + tuple("_:" if isinstance(x, BNode) else x.n3() for x in t))
    from collections import Counter
    return Counter(out)


def bnode_classes(D):
    """how many distinct blank nodes, and the multiset of their degrees"""
    from rdflib import BNode
    deg = {}
    for n, ts in D.items():
        for t in ts:
            for x in t:
                if isinstance(x, BNode):
                    deg[x] = deg.get(x, 0) + 1
    return sorted(deg.values())


def ops():
    P = [("?s", ":p", "?o", None)]
    O = []
    O += [("insertdata", [(":a", ":p", ":c", None), (":a", ":p", ":c", ":g1"), (":n", ":q", 0, ":g3")]),
          ("deletedata", [(":a", ":p", ":b", None), (":a", ":p", ":b", ":g1"), (":zz", ":p", ":b", ":g2")]),
          ("deletewhere", [("?s", ":p", "?o", None)]),
          ("deletewhere", [("?s", ":p", ":b", ":g1")]),
          ("deletewhere", [("?s", ":p", "?o", "?g")]),
          ("deletewhere", [("?s", ":p", "?o", None), ("?o", ":p", "?s", None)]),
          ("deletewhere", [("?s", ":p", "?o", None), ("?s", ":p", "?o", ":g1")]),
          # swap: deletions of one solution are insertions of another
          ("modify", None, [("?s", ":p", "?o", None)], [("?o", ":p", "?s", None)], P),
          ("modify", None, [("?s", ":p", "?o", None)], [("?s", ":p", "?o", None)], P),
          ("modify", None, [("?o", ":p", "?s", None)], [("?s", ":r", "?o", None)], P),
          ("modify", None, None, [("?s", ":r", "_:b", None), ("_:b", ":r", "?o", None)], P),
          ("modify", None, [("?s", ":p", "?o", None)], None, [("?s", ":p", "?o", None), ("?s", ":q", "?v", None)]),
          ("modify", ":g1", [("?s", ":p", "?o", None)], [("?o", ":p", "?s", None), ("?s", ":w", "?o", ":g2")], P),
          ("modify", ":g1", None, [("?s", ":p", "?o", None)], [("?s", ":p", "?o", ":g2")]),
          ("modify", None, [("?s", ":p", "?o", "?g")], [("?s", ":p", "?o", None)], [("?s", ":p", "?o", "?g")]),
          ("modify", None, None, [("?v", ":p", "?s", None), ("?s", "?v", "?s", None), ("?s", ":u", "?nope", None)],
           [("?s", ":q", "?v", None)]),
          ("modify", None, [("?s", ":q", "?v", None)], [("?s", ":q", 7, None)], [("?s", ":q", "?v", None)]),
          ("modify", None, None, [("?s", ":p", "?o", ":g3")], [("?s", ":p", "?o", ":g1")]),
          ("modify", ":g9", [("?s", ":p", "?o", None)], [("?s", ":z", "?o", None)], P),
          ]
    # appended (indices above are used by the pair enumeration): the same graph named in two GRAPH blocks of one template
    TWICE = [("insertdata2", [(":a", ":p", ":c", ":g1")], [(":a", ":q", 1, ":g1")]),
             ("modify2", [("?s", ":m", "?o", ":g1")], [("?o", ":m", "?s", ":g1")], P),
             # the WHERE clause yields every solution twice (UNION of two equal branches): solutions are a multiset,
             # a blank node in the template is fresh for each of them
             ("modifydup", None, [("?s", ":r", "_:b", None), ("_:b", ":r", "?o", None)], P),
             ("modifydup", [("?s", ":p", "?o", None)], [("?s", ":n", "_:x", ":g1")], P)]
    for k in ("clear", "drop"):
        for t in ("DEFAULT", "NAMED", "ALL", ":g1", ":g9"):
            O.append((k, t))
    for k in ("add", "move", "copy"):
        for s, d in (("DEFAULT", ":g1"), (":g1", "DEFAULT"), (":g1", ":g2"), (":g1", ":g1"), (":g9", ":g1"), (":g1", ":g9")):
            O.append((k, s, d))
    return O + TWICE


def build(kind, D, union_default):
    from rdflib import Dataset, ConjunctiveGraph, Graph
    import warnings
    with warnings.catch_warnings():
        warnings.simplefilter("ignore")
        if kind == "dataset":
            ds = Dataset(default_union=union_default)
        else:
            ds = ConjunctiveGraph()
    for n, ts in D.items():
        if n is not None and kind == "dataset":
            ds.graph(n)
        for t in ts:
            if n is None:
                ds.add(t) if kind == "dataset" else ds.default_context.add(t)
            else:
                ds.add(t + (n,))
    return ds


def read(ds):
    from rdflib import Graph
    D = {}
    dflt = ds.default_context.identifier
    for c in list(ds.store.contexts()):
        ts = set(Graph(store=ds.store, identifier=c.identifier))
        D[None if c.identifier == dflt else c.identifier] = ts
    return D


class UpdateSemantics(Suite):
    chunk = 4

    def bound(self, tier):
        return ("44 operations (INSERT/DELETE DATA with GRAPH blocks, DELETE WHERE over default / named / variable graphs and "
                "two-pattern joins, DELETE/INSERT WHERE with overlapping delete and insert sets across solutions, blank "
                "nodes in templates, unbound and illegal template terms, WITH, GRAPH ?g templates, missing graphs, CLEAR/"
                "DROP x 5 targets, ADD/MOVE/COPY x 6 source/target pairs incl. source = target and missing graphs) and all "
                "ordered pairs of a 12-operation subset as two-operation requests x 4 datasets x Dataset (default_union "
                "on/off) and ConjunctiveGraph: resulting quads equal the reference semantics; untouched graphs untouched")

    def enumerate(self, tier):
        n = len(ops())
        for oi in range(n):
            for di in range(len(datasets())):
                for kind in ("dataset", "dataset-union", "dataset-switch"):
                    yield {"ops": [oi], "d": di, "kind": kind}
        sub = [0, 1, 2, 7, 9, 10, 12, 14, 19, 22, 29, 35]
        for a in sub:
            for b in sub:
                if tier == "quick" and (a + b) % 3:
                    continue
                for di in (1, 2):
                    yield {"ops": [a, b], "d": di, "kind": "dataset"}

    def check(self, case):
        import warnings
        O = ops()
        D0 = datasets()[case["d"]]
        kind = case["kind"]
        # the engine switch rdflib.plugins.sparql.SPARQL_DEFAULT_GRAPH_UNION (default True) decides what an update's
        # WHERE clause reads outside GRAPH; writes outside GRAPH address the real default graph
        # kinds: "dataset" = switch off; "dataset-union" = switch on and Dataset(default_union=True): WHERE reads the
        # union; "dataset-switch" = switch on (the default) but a Dataset whose default graph is not the union
        union_default = kind == "dataset-union"
        import rdflib.plugins.sparql as _sp
        saved = _sp.SPARQL_DEFAULT_GRAPH_UNION
        _sp.SPARQL_DEFAULT_GRAPH_UNION = kind != "dataset"
        try:
            return self._check(case, O, D0, kind, union_default)
        finally:
            _sp.SPARQL_DEFAULT_GRAPH_UNION = saved

    def _check(self, case, O, D0, kind, union_default):
        import warnings
        ds = build("dataset", D0, union_default)
        text = PFX + " ;\n".join(render(O[i]) for i in case["ops"])
        exp = D0
        for i in case["ops"]:
            exp = apply_ref(O[i], exp, union_default)
        try:
            with warnings.catch_warnings():
                warnings.simplefilter("ignore")
                ds.update(text)
        except Exception as e:  # noqa
            return f"raises[{O[case['ops'][0]][0]}]: {type(e).__name__}: {str(e)[:120]} on {text[len(PFX):]!r}"
        got = read(ds)
        ce, cg_ = canon({k: v for k, v in exp.items() if v}), canon({k: v for k, v in got.items() if v})
        if ce != cg_:
            extra, missing = list((cg_ - ce).items())[:3], list((ce - cg_).items())[:3]
            return (f"dataset-differs[{'+'.join(O[i][0] for i in case['ops'])}]: {text[len(PFX):]!r} on dataset #{case['d']} "
                    f"({kind}): unexpected {extra} missing {missing}")
        if bnode_classes(exp) != bnode_classes(got):
            return (f"blank-nodes[{O[case['ops'][0]][0]}]: {text[len(PFX):]!r} on dataset #{case['d']}: blank nodes per solution "
                    f"not fresh (degrees {bnode_classes(got)} expected {bnode_classes(exp)})")
        return None

    def classify(self, case, msg):
        return msg.split(":")[0] + "#" + "+".join(map(str, case["ops"])) + ("/union" if case["kind"] != "dataset" else "")


SUITES = {"update-semantics": UpdateSemantics()}
