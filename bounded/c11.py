"""Bounded stand-in for C11: property paths against the relational semantics (composition, union, converse,
closures), for every bound/unbound combination of the ends, through the Graph API and through SPARQL."""
from __future__ import annotations

import itertools

from bounded.run import Suite


def nodes():
    from rdflib import URIRef, Literal, BNode
    return [URIRef("urn:x:a"), URIRef("urn:x:b"), URIRef("urn:x:c"), Literal(0), Literal(""), URIRef("urn:x:zz")]


def graphs(tier):
    a, b, c, zero, empty, zz = nodes()
    from rdflib import URIRef
    p, q = URIRef("urn:x:p"), URIRef("urn:x:q")
    G = [
        [],
        [(a, p, a)],
        [(a, p, b), (b, p, c), (c, p, a)],
        [(a, p, b), (b, p, a), (b, q, c), (c, q, zero), (a, p, empty)],
        [(a, p, b), (a, p, c), (b, p, c), (c, q, a), (c, p, zero), (b, q, empty), (a, q, a)],
        [(a, p, b), (b, q, c), (c, p, empty), (c, p, zero), (a, q, zero)],
        # parallel edges: two nodes linked by several predicates (a negated set must look at each triple's own
        # predicate), incl. a falsy end and a self loop
        [(a, p, b), (a, q, b), (b, p, a), (b, q, zero), (b, p, zero), (c, p, c), (c, q, c), (a, URIRef("urn:x:r"), b)],
    ]
    return G


# path AST: ("iri", "p") ("inv", P) ("seq", P, Q, ..) ("alt", P, Q) ("*", P) ("+", P) ("?", P) ("neg", ["p", "^q"...])
def paths(tier):
    P, Q = ("iri", "p"), ("iri", "q")
    base = [P, ("inv", P), ("seq", P, Q), ("seq", P, P), ("alt", P, Q), ("*", P), ("+", P), ("?", P), ("neg", ["p"]),
            ("neg", ["p", "^q"]), ("neg", ["^p"]), ("neg", ["q"]), ("neg", ["p", "q"])]
    lvl2 = [("+", ("alt", P, Q)), ("*", ("seq", P, Q)), ("seq", ("+", P), Q), ("seq", P, ("*", Q)), ("inv", ("+", P)),
            ("alt", ("seq", P, Q), ("inv", Q)), ("?", ("seq", P, P)), ("seq", ("inv", P), P), ("+", ("inv", P)),
            ("seq", ("?", P), ("?", Q)), ("*", ("alt", P, ("inv", Q))), ("seq", P, Q, P), ("seq", ("*", P), ("*", Q)),
            ("alt", ("*", P), Q), ("+", ("seq", P, Q)), ("seq", ("alt", P, Q), ("alt", P, Q))]
    if tier == "thorough":
        more = []
        for x in base[:8]:
            for y in base[:8]:
                more += [("seq", x, y), ("alt", x, y)]
            more += [("*", x), ("+", x), ("?", x), ("inv", x)]
        lvl2 += more
    return base + lvl2


def to_rdflib(p):
    from rdflib import URIRef
    from rdflib.paths import InvPath, SequencePath, AlternativePath, MulPath, NegatedPath
    k = p[0]
    if k == "iri":
        return URIRef("urn:x:" + p[1])
    if k == "inv":
        return InvPath(to_rdflib(p[1]))
    if k == "seq":
        return SequencePath(*[to_rdflib(x) for x in p[1:]])
    if k == "alt":
        return AlternativePath(*[to_rdflib(x) for x in p[1:]])
    if k in "*+?":
        return MulPath(to_rdflib(p[1]), k)
    if k == "neg":
        args = [InvPath(URIRef("urn:x:" + x[1:])) if x.startswith("^") else URIRef("urn:x:" + x) for x in p[1]]
        return NegatedPath(args[0] if len(args) == 1 else AlternativePath(*args))
    raise ValueError(k)


def to_sparql(p):
    k = p[0]
    if k == "iri":
        return ":" + p[1]
    if k == "inv":
        return "^(" + to_sparql(p[1]) + ")"
    if k == "seq":
        return "(" + "/".join(to_sparql(x) for x in p[1:]) + ")"
    if k == "alt":
        return "(" + "|".join(to_sparql(x) for x in p[1:]) + ")"
    if k in "*+?":
        return "(" + to_sparql(p[1]) + ")" + k
    if k == "neg":
        return "!(" + "|".join(("^:" + x[1:]) if x.startswith("^") else (":" + x) for x in p[1]) + ")"
    raise ValueError(k)


def denote(p, T, universe):
    """the relation of p over triples T; zero-length paths relate every node of `universe` to itself"""
    from rdflib import URIRef
    k = p[0]
    if k == "iri":
        return {(s, o) for s, pp, o in T if pp == URIRef("urn:x:" + p[1])}
    if k == "inv":
        return {(o, s) for s, o in denote(p[1], T, universe)}
    if k == "seq":
        r = denote(p[1], T, universe)
        for x in p[2:]:
            r2 = denote(x, T, universe)
            r = {(a, d) for a, b in r for c, d in r2 if b == c}
        return r
    if k == "alt":
        r = set()
        for x in p[1:]:
            r |= denote(x, T, universe)
        return r
    if k in "*+?":
        base = denote(p[1], T, universe)
        r = set(base)
        if k != "?":
            while True:
                new = {(a, d) for a, b in r for c, d in base if b == c} - r
                if not new:
                    break
                r |= new
        if k != "+":
            r |= {(n, n) for n in universe}
        return r
    if k == "neg":
        fw = {URIRef("urn:x:" + x) for x in p[1] if not x.startswith("^")}
        bw = {URIRef("urn:x:" + x[1:]) for x in p[1] if x.startswith("^")}
        r = set()
        if fw or not bw:
            r |= {(s, o) for s, pp, o in T if pp not in fw}
        if bw:
            r |= {(o, s) for s, pp, o in T if pp not in bw}
        return r
    raise ValueError(k)


def has_zero(p):
    k = p[0]
    if k in "*?":
        return True
    if k == "seq":
        return all(has_zero(x) for x in p[1:])
    if k == "alt":
        return any(has_zero(x) for x in p[1:])
    if k == "inv" or k == "+":
        return has_zero(p[1])
    return False


class PathSemantics(Suite):
    chunk = 4

    def bound(self, tier):
        return ("27 path expressions (thorough: +160; every operator, nesting depth 2, three-step sequences, negated sets "
                "with inverse members) x 6 graphs (empty, self loop, 3-cycle, 2-cycle with tails, DAG with literal end "
                "points 0 and \"\") x every choice of start/end in {unbound} + 6 terms (incl. falsy literals and a term not "
                "in the graph): pairs from Graph.triples and from a SPARQL pattern equal the relational semantics, no "
                "duplicates, terminates")

    def enumerate(self, tier):
        for pi in range(len(paths(tier))):
            for gi in range(len(graphs(tier))):
                yield {"p": pi, "g": gi, "tier": tier}

    def check(self, case):
        from rdflib import Graph, Literal
        p = paths(case["tier"])[case["p"]]
        T = graphs(case["tier"])[case["g"]]
        g = Graph()
        for t in T:
            g.add(t)
        N = nodes()
        gnodes = {x for s, _, o in T for x in (s, o)}
        rp = to_rdflib(p)
        for s in [None] + N:
            for o in [None] + N:
                # zero-length matches: every node of the graph, plus the given end terms themselves
                universe = set(gnodes) | {x for x in (s, o) if x is not None}
                R = denote(p, T, universe)
                exp = {(a, b) for a, b in R if (s is None or a == s) and (o is None or b == o)}
                if isinstance(s, Literal) and not has_zero(p) and False:
                    continue
                try:
                    got = [(a, b) for a, _, b in g.triples((s, rp, o))]
                except Exception as e:  # noqa
                    return f"raises[{p[0]}]: triples(({s!r}, {to_sparql(p)}, {o!r})) raised {type(e).__name__}: {e}"
                if set(got) != exp:
                    extra, missing = set(got) - exp, exp - set(got)
                    return (f"relation-differs[{p[0]}]: triples(({n3(s)}, {to_sparql(p)}, {n3(o)})) on graph #{case['g']}: "
                            f"unexpected {sorted(map(fmt, extra))[:3]} missing {sorted(map(fmt, missing))[:3]}")
                if len(got) != len(set(got)) and p[0] in "*+?":
                    return f"duplicates[{p[0]}]: triples(({n3(s)}, {to_sparql(p)}, {n3(o)})) on graph #{case['g']} yields a pair twice"
                # SPARQL (subjects cannot be literals in a pattern: skip those starts)
                if s is not None and isinstance(s, Literal):
                    continue
                pat = "{ %s %s %s }" % ("?s" if s is None else s.n3(), to_sparql(p), "?o" if o is None else o.n3())
                q = "PREFIX : <urn:x:> " + ("ASK " if s is not None and o is not None else "SELECT ?s ?o WHERE ") + pat
                try:
                    res = g.query(q)
                    if s is not None and o is not None:
                        rows = [(s, o)] if res.askAnswer else []
                    else:
                        rows = [(r.s if s is None else s, r.o if o is None else o) for r in res]
                except Exception as e:  # noqa
                    return f"sparql-raises[{p[0]}]: {q!r}: {type(e).__name__}: {str(e)[:100]}"
                if set(rows) != exp:
                    extra, missing = set(rows) - exp, exp - set(rows)
                    return (f"sparql-relation-differs[{p[0]}]: {q[19:]!r} on graph #{case['g']}: unexpected "
                            f"{sorted(map(fmt, extra))[:3]} missing {sorted(map(fmt, missing))[:3]}")
        return None

    def classify(self, case, msg):
        return msg.split(":")[0]


def n3(x):
    return "None" if x is None else x.n3()


def fmt(pair):
    return "(" + pair[0].n3() + "," + pair[1].n3() + ")"


SUITES = {"path-semantics": PathSemantics()}
