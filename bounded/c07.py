"""Bounded stand-in for C07: term identity laws on a zoo of terms."""
from __future__ import annotations

import copy
import itertools
import pickle

from bounded.run import Suite


def zoo():
    from rdflib import URIRef, BNode, Literal, Variable, XSD
    Z = [URIRef("urn:a"), URIRef("urn:b"), URIRef("a"), BNode("a"), BNode("b"), Variable("a"), Variable("b"),
         Literal("a"), Literal("a", lang="en"), Literal("a", lang="EN"), Literal("a", lang="de"),
         Literal("a", datatype=XSD.string), Literal("1", datatype=XSD.integer), Literal("01", datatype=XSD.integer),
         Literal("1.0", datatype=XSD.decimal), Literal("1", datatype=XSD.double), Literal("1e0", datatype=XSD.double),
         Literal("NaN", datatype=XSD.double), Literal("INF", datatype=XSD.double), Literal("abc", datatype=XSD.integer),
         Literal(0), Literal(""), Literal(False), Literal("true", datatype=XSD.boolean),
         Literal("2020-01-01T00:00:00", datatype=XSD.dateTime), Literal("2020-01-01T00:00:00Z", datatype=XSD.dateTime),
         Literal("2020-01-01", datatype=XSD.date), Literal("P1D", datatype=XSD.duration),
         Literal("x", datatype=URIRef("urn:custom")), Literal("a\"b\\c\nd\te"), Literal("\r"), Literal("café \U0001F600"),
         Literal("01", datatype=XSD.integer, normalize=False), Literal("a'b"), Literal("-1", datatype=XSD.nonNegativeInteger),
         # multi-line strings (triple-quoted in n3()), ending in / containing quotes and backslashes
         Literal('She said:\n"hello"'), Literal('a\n"'), Literal('a\n""'), Literal('x\n"""y'), Literal('l\n\\"'), Literal('\n'),
         Literal('two\nlines', lang="en"), Literal('q"\n\r\tz', datatype=XSD.string)]
    return Z


class EqHash(Suite):
    def bound(self, tier):
        return "all pairs and triples over a 35-term zoo (every kind, valid/invalid/non-normalised lexical forms, " \
               "language case, NaN/INF, naive/aware date-times): == reflexive/symmetric/transitive, kinds distinct, " \
               "== implies equal hash, set/dict collapse"

    def enumerate(self, tier):
        n = len(zoo())
        for i in range(n):
            for j in range(n):
                yield {"i": i, "j": j}

    def check(self, case):
        Z = zoo()
        a, b = Z[case["i"]], Z[case["j"]]
        if not (a == a):
            return f"reflexive: {a!r} != itself"
        if (a == b) != (b == a):
            return f"symmetric: {a!r} == {b!r} is {a == b} but the converse is {b == a}"
        if (a != b) == (a == b):
            return f"ne: != is not the negation of == for {a!r}, {b!r}"
        if a == b and hash(a) != hash(b):
            return f"hash: {a!r} == {b!r} but hashes differ"
        if type(a) is not type(b) and a == b:
            return f"kinds: {a!r} == {b!r} across kinds"
        if a == b and len({a, b}) != 1:
            return f"set-collapse: {{a, b}} has {len({a, b})} elements for equal terms"
        if case["i"] == 0:
            for c in Z:
                for d in Z:
                    if b == c and c == d and not (b == d):
                        return f"transitive: {b!r} == {c!r} == {d!r} but not {b!r} == {d!r}"
        return None

    def classify(self, case, msg):
        return msg.split(":")[0]


class Ordering(Suite):
    def bound(self, tier):
        return "non-literals of the zoo + literals: kind order BNode < Variable < URIRef < Literal, string order " \
               "within IRIs/blank nodes, every permutation of 5 mixed non-literal terms sorts to the same list; " \
               "literal pairs: < never raises within a datatype family and is antisymmetric"

    def enumerate(self, tier):
        n = len(zoo())
        for i in range(n):
            for j in range(n):
                yield {"i": i, "j": j}
        yield {"perm": True}

    def check(self, case):
        from rdflib import URIRef, BNode, Literal, Variable
        Z = zoo()
        if case.get("perm"):
            base = [URIRef("urn:b"), BNode("z"), URIRef("urn:a"), Variable("v"), BNode("a")]
            ref = None
            for p in itertools.permutations(base):
                try:
                    s = sorted(p)
                except Exception as e:  # noqa
                    return f"sort-raises: sorted({list(p)}) raised {type(e).__name__}"
                if ref is None:
                    ref = s
                elif s != ref:
                    return f"sort-unstable: sorted() depends on input order: {s} vs {ref}"
            rank = {BNode: 0, Variable: 1, URIRef: 2}
            for x, y in zip(ref, ref[1:]):
                if rank[type(x)] > rank[type(y)] or (type(x) is type(y) and str(x) > str(y)):
                    return f"sort-order: {ref}"
            return None
        a, b = Z[case["i"]], Z[case["j"]]
        rank = {BNode: 0, Variable: 1, URIRef: 2, Literal: 3}
        if type(a) is not type(b):
            try:
                lt, gt = a < b, a > b
            except Exception as e:  # noqa
                return f"kind-order-raises: {a!r} < {b!r} raised {type(e).__name__}"
            exp = rank[type(a)] < rank[type(b)]
            if lt != exp or gt != (not exp):
                return f"kind-order: {a!r} < {b!r} is {lt} (>{gt}), expected {exp}"
        elif not isinstance(a, Literal):
            if (a < b) != (str(a) < str(b)) or (a > b) != (str(a) > str(b)):
                return f"string-order: {a!r} vs {b!r}"
        else:
            try:
                lt, gt = a < b, a > b
            except TypeError:
                return None      # incomparable values of different families may raise
            except Exception as e:  # noqa
                return f"literal-order-raises: {a!r} < {b!r} raised {type(e).__name__}: {e}"
            if lt is True and gt is True:
                return f"literal-order-antisymmetry: both {a!r} < {b!r} and >"
        return None

    def classify(self, case, msg):
        return msg.split(":")[0]


class Reconstruct(Suite):
    def bound(self, tier):
        return "every zoo term: pickle (all protocols), copy, deepcopy give an equal term with the same lexical form; " \
               "from_n3(t.n3()) == t; the Turtle parser and the SPARQL parser read t.n3() back as t"

    def enumerate(self, tier):
        for i in range(len(zoo())):
            yield {"i": i}

    def check(self, case):
        from rdflib import Literal, Graph, URIRef, Variable, BNode
        from rdflib.util import from_n3
        t = zoo()[case["i"]]
        for proto in range(2, pickle.HIGHEST_PROTOCOL + 1):
            u = pickle.loads(pickle.dumps(t, proto))
            if u != t or type(u) is not type(t) or str(u) != str(t):
                return f"pickle: {t!r} came back as {u!r} (protocol {proto})"
        for f in (copy.copy, copy.deepcopy):
            u = f(t)
            if u != t or str(u) != str(t):
                return f"copy: {f.__name__}({t!r}) = {u!r}"
        if not isinstance(t, Variable) or True:
            try:
                u = from_n3(t.n3())
            except Exception as e:  # noqa
                return f"from_n3-raises: from_n3({t.n3()!r}) raised {type(e).__name__}: {e}"
            if u != t:
                return f"from_n3: from_n3({t.n3()!r}) = {u!r}, expected {t!r}"
        if isinstance(t, (URIRef, Literal)):
            if isinstance(t, URIRef) and ":" not in t:
                return None
            g = Graph()
            try:
                g.parse(data=f"<urn:s> <urn:p> {t.n3()} .", format="turtle")
            except Exception as e:  # noqa
                return f"turtle-raises: Turtle parser rejects {t.n3()!r}: {type(e).__name__}"
            o = list(g.objects())[0]
            if o != t:
                return f"turtle: Turtle parser reads {t.n3()!r} as {o!r}"
            try:
                rows = list(Graph().query("SELECT ?x WHERE { BIND(%s AS ?x) }" % t.n3()))
            except Exception as e:  # noqa
                return f"sparql-raises: SPARQL parser rejects {t.n3()!r}: {type(e).__name__}"
            if rows[0][0] != t:
                return f"sparql: SPARQL parser reads {t.n3()!r} as {rows[0][0]!r}"
        return None

    def classify(self, case, msg):
        return msg.split(":")[0]


SUITES = {"eq-hash": EqHash(), "ordering": Ordering(), "reconstruct": Reconstruct()}
