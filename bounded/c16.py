"""Bounded stand-in for C16: SPARQL result tables through JSON / XML / TSV / CSV."""
from __future__ import annotations

import io
import itertools
import json

from bounded.run import Suite


def zoo():
    from rdflib import URIRef, BNode, Literal, XSD
    return [URIRef("urn:x:a"), URIRef("http://example.org/a?b=c&d=e#f"), BNode("b1"), BNode("N0123"),
            Literal("plain"), Literal(""), Literal("a\tb"), Literal("line1\nline2"), Literal('say "hi"'), Literal("back\\slash"),
            Literal("comma,semi;"), Literal("\r"), Literal("café \U0001F600"), Literal("<tag> & 'q'"), Literal(" lead/trail "),
            Literal("chat", lang="fr"), Literal("x", lang="en-GB"), Literal("s", datatype=XSD.string),
            Literal(0), Literal(-12), Literal("1.50", datatype=XSD.decimal), Literal("1.0E0", datatype=XSD.double),
            Literal(True), Literal("2020-01-01T00:00:00Z", datatype=XSD.dateTime), Literal("abc", datatype=XSD.integer),
            Literal("v", datatype=URIRef("urn:custom:dt")), Literal("\x0b\x01 control") if False else Literal("tab\there \x7f"),
            Literal("'single'"), Literal("multi\n\"both\"\t'kinds'\\")]


def tables():
    Z = zoo()
    T = []
    # every term alone in a 1-column table; pairs with unbound cells; rows with nothing bound; duplicate rows
    for t in Z:
        T.append((["x"], [{"x": t}]))
    T.append((["x", "y"], [{"x": Z[0], "y": Z[4]}, {"x": Z[2]}, {"y": Z[5]}, {}, {"x": Z[0], "y": Z[4]}]))
    T.append((["b", "a", "c"], [{"a": Z[1], "b": Z[15], "c": Z[18]}, {}, {}, {"c": Z[3]}]))
    T.append((["x"], []))
    T.append((["x", "y"], [{}]))
    T.append((["y", "x"], [{"x": z, "y": w} for z, w in zip(Z, reversed(Z))]))
    T.append(([], [{}]))
    return T


def mk_result(vars_, rows):
    from rdflib.query import Result
    from rdflib import Variable
    r = Result("SELECT")
    r.vars = [Variable(v) for v in vars_]
    r.bindings = [{Variable(k): v for k, v in row.items()} for row in rows]
    return r


def table_of(res):
    return [str(v) for v in (res.vars or [])], [{str(k): v for k, v in b.items() if v is not None} for b in res.bindings]


def same_term(a, b):
    from rdflib import Literal
    if type(a) is not type(b) or a != b:
        return False
    if isinstance(a, Literal):
        return str(a) == str(b) and a.datatype == b.datatype and a.language == b.language
    return str(a) == str(b)


def compare(vars_, rows, back, fmt, bnodes_by_label=True):
    bv, brows = table_of(back)
    if bv != vars_:
        return f"variables[{fmt}]: header {vars_} came back as {bv}"
    if len(brows) != len(rows):
        return f"row-count[{fmt}]: {len(rows)} rows came back as {len(brows)} (rows binding nothing: {sum(1 for r in rows if not r)})"
    for i, (a, b) in enumerate(zip(rows, brows)):
        if set(a) != set(b):
            return f"bound-cells[{fmt}]: row {i} binds {sorted(a)} but came back binding {sorted(b)}"
        for k in a:
            if not same_term(a[k], b[k]):
                return f"term[{fmt}]: row {i} ?{k} = {a[k]!r} came back as {b[k]!r}"
    return None


class RoundTrip(Suite):
    chunk = 4

    def bound(self, tier):
        return ("35 result tables: each of 29 terms (IRIs with &?#, blank nodes, literals with tab/newline/CR/quotes/"
                "backslash/comma/non-BMP/XML-special characters, language tags, 8 datatypes incl. ill-typed and custom) "
                "alone, tables with unbound cells, rows binding nothing, duplicate rows, zero rows, zero variables, "
                "columns in non-alphabetical order; both ASK answers: JSON and XML write+read give the same table; CSV keeps "
                "row sequence and string values; the TSV reader reads back a W3C-conformant rendering")

    def enumerate(self, tier):
        for ti in range(len(tables())):
            for fmt in ("json", "xml", "csv", "tsv"):
                yield {"t": ti, "fmt": fmt}
        for fmt in ("json", "xml"):
            for ans in (True, False):
                yield {"ask": ans, "fmt": fmt}

    def check(self, case):
        from rdflib.query import Result
        from rdflib import Literal, URIRef, BNode
        fmt = case["fmt"]
        if "ask" in case:
            r = Result("ASK")
            r.askAnswer = case["ask"]
            data = r.serialize(format=fmt)
            back = Result.parse(io.BytesIO(data), format=fmt)
            if back.type != "ASK" or back.askAnswer is not case["ask"]:
                return f"ask[{fmt}]: ASK {case['ask']} came back as {back.type} {back.askAnswer!r}"
            return None
        vars_, rows = tables()[case["t"]]
        res = mk_result(vars_, rows)
        if fmt in ("json", "xml"):
            try:
                data = res.serialize(format=fmt)
            except Exception as e:  # noqa
                return f"serialize-raises[{fmt}]: {type(e).__name__}: {str(e)[:120]}"
            if fmt == "json":
                try:
                    json.loads(data)
                except Exception as e:  # noqa
                    return f"not-json: {e}"
            else:
                import xml.dom.minidom
                try:
                    xml.dom.minidom.parseString(data)
                except Exception as e:  # noqa
                    return f"not-well-formed-xml: {str(e)[:100]}"
            try:
                back = Result.parse(io.BytesIO(data), format=fmt)
            except Exception as e:  # noqa
                return f"parse-raises[{fmt}]: {type(e).__name__}: {str(e)[:120]}"
            return compare(vars_, rows, back, fmt)
        if fmt == "csv":
            data = res.serialize(format="csv")
            back = Result.parse(io.BytesIO(data), format="csv")
            bv, brows = table_of(back)
            if bv != vars_:
                return f"variables[csv]: header {vars_} came back as {bv}"
            if not vars_:
                return None
            if len(brows) != len(rows):
                return f"row-count[csv]: {len(rows)} rows came back as {len(brows)}"
            for i, (a, b) in enumerate(zip(rows, brows)):
                for k in vars_:
                    av = a.get(k)
                    bvv = b.get(k)
                    if av is None or (isinstance(av, Literal) and str(av) == ""):
                        if bvv is not None and str(bvv) != "":
                            return f"csv-unbound: row {i} ?{k} unbound/empty came back as {bvv!r}"
                        continue
                    exp = ("_:" + str(av)) if isinstance(av, BNode) else str(av)
                    if bvv is None or str(bvv).replace("\r\n", "\n") != exp.replace("\r\n", "\n") and str(bvv) != exp:
                        return f"csv-string-value: row {i} ?{k} = {av!r} came back as {bvv!r}"
            return None
        # TSV: write a W3C-conformant rendering ourselves (terms in N-Triples/Turtle syntax), read it with rdflib
        def tsv_term(t):
            # SPARQL 1.1 TSV: terms in N-Triples/Turtle syntax on ONE line (no long-string quoting)
            if t is None:
                return ""
            if isinstance(t, Literal):
                esc = str(t).replace("\\", "\\\\").replace('"', '\\"').replace("\n", "\\n").replace("\r", "\\r").replace("\t", "\\t")
                q = '"' + esc + '"'
                if t.language:
                    return q + "@" + t.language
                if t.datatype is not None:
                    return q + "^^<" + str(t.datatype) + ">"
                return q
            return t.n3()
        if not vars_:
            return None
        lines = ["\t".join("?" + v for v in vars_)]
        for row in rows:
            lines.append("\t".join(tsv_term(row.get(v)) for v in vars_))
        doc = "\n".join(lines) + "\n"
        try:
            back = Result.parse(io.BytesIO(doc.encode("utf-8")), format="tsv")
        except Exception as e:  # noqa
            return f"parse-raises[tsv]: {type(e).__name__}: {str(e)[:150]}"
        # the property asks the TSV reader for "exactly the terms": rows that bind nothing (an empty line when there is
        # one column) are left out of the comparison
        rows = [r for r in rows if r]
        back.bindings = [b for b in back.bindings if b]
        return compare(vars_, rows, back, "tsv")

    def classify(self, case, msg):
        k = msg.split(":")[0]
        if k.startswith("term[") and "Literal('\\r')" in msg:
            k += ":carriage-return"
        return k


SUITES = {"round-trip": RoundTrip()}
