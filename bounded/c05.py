"""Bounded stand-in for C05: every legal spelling of a graph parses to that graph; N-Triples/N-Quads output is
accepted by a strict reader of the W3C grammar; XML/JSON outputs are well-formed."""
from __future__ import annotations

import io
import json
import os
import random
import re
import tempfile

from bounded.run import Suite

NS = "http://example.org/ns#"
BASE = "http://example.org/dir/doc"


def target():
    """the graph every document below spells (blank nodes as b1, b2)"""
    from rdflib import Graph, URIRef, Literal, BNode, XSD, RDF
    g = Graph()
    s, t = URIRef(NS + "s"), URIRef("http://example.org/dir/other")
    p, q = URIRef(NS + "p"), URIRef(NS + "q")
    b1, b2 = BNode(), BNode()
    g.add((s, p, Literal("plain")))
    g.add((s, p, Literal('quote " and \\ backslash')))
    g.add((s, p, Literal("line\nbreak\ttab")))
    g.add((s, p, Literal("café \U0001F600")))
    g.add((s, p, Literal("hallo", lang="de")))
    g.add((s, q, Literal("5", datatype=XSD.integer)))
    g.add((s, q, Literal("-1.5", datatype=XSD.decimal)))
    g.add((s, q, Literal("1.0E3", datatype=XSD.double)))
    g.add((s, q, Literal("true", datatype=XSD.boolean)))
    g.add((s, RDF.type, URIRef(NS + "C")))
    g.add((s, q, t))
    g.add((t, p, b1))
    g.add((b1, p, Literal("in bnode")))
    g.add((b1, q, b2))
    g.add((b2, p, URIRef(NS + "with.dot")))
    g.add((URIRef(NS + "a%2Cb"), p, URIRef(NS + "x")))
    return g


def esc(s, style):
    """a legal escaped spelling of string s: style 0 = ECHAR, 1 = \\u everywhere possible, 2 = raw where allowed"""
    out = []
    for ch in s:
        o = ord(ch)
        if ch == "\\":
            out.append("\\\\" if style != 1 else "\\u005C")
        elif ch == '"':
            out.append('\\"' if style != 1 else "\\u0022")
        elif ch == "\n":
            out.append("\\n" if style != 1 else "\\u000A")
        elif ch == "\t":
            out.append("\\t" if style == 0 else ("\\u0009" if style == 1 else "\t"))
        elif o > 0xFFFF:
            out.append(ch if style != 1 else "\\U%08X" % o)
        elif o > 127:
            out.append(ch if style != 1 else "\\u%04X" % o)
        else:
            out.append(ch)
    return "".join(out)


def nt_doc(style, rnd):
    from rdflib import Literal, BNode, URIRef
    g = target()
    names = {}
    lines = []
    for s, p, o in sorted(g, key=lambda t: rnd.random()):
        def term(x):
            if isinstance(x, BNode):
                return "_:" + names.setdefault(x, "b%d" % len(names))
            if isinstance(x, URIRef):
                u = str(x)
                if style == 1:
                    # both escape widths mixed in one IRI
                    u = u.replace("s", "\\u0073", 1).replace("e", "\\U00000065", 1)
                return "<" + u + ">"
            q = '"' + esc(str(x), style) + '"'
            if x.language:
                return q + "@" + x.language
            if x.datatype:
                return q + "^^<" + str(x.datatype) + ">"
            return q
        ws = ["", " ", "\t", "  "][style % 4]
        lines.append(ws + term(s) + (" " if style != 2 else "\t") + term(p) + " " + term(o) + (" ." if style != 1 else "."))
        if style == 2:
            lines.append("# a comment line")
            lines.append("")
    if style == 0:
        lines.insert(1, "   # comment with <iri> and \"quotes\"")
        lines[2] += " # trailing comment"
    return "\n".join(lines) + ("\n" if style != 1 else "")


def ttl_doc(style, rnd):
    """hand-written alternative spellings of the same graph"""
    if style == 0:      # prefixes, ; , [] abbreviations, numeric/boolean shorthand, long strings
        return '''@prefix : <%s> .
@prefix xsd: <http://www.w3.org/2001/XMLSchema#> .
@base <%s> .
:s a :C ;
   :p "plain", """quote " and \\\\ backslash""", """line
break\ttab""", 'café \U0001F600', "hallo"@de ;
   :q 5, -1.5, 1.0E3, true, <other> .
<other> :p [ :p "in bnode" ; :q [ :p :with.dot ] ] .
:a\\%%2Cb :p :x .
''' % (NS, BASE)
    if style == 1:      # SPARQL-style directives, full IRIs, explicit datatypes, labelled bnodes, relative IRIs
        return '''PREFIX ex: <%s>
BASE <http://example.org/dir/>
PREFIX xsd: <http://www.w3.org/2001/XMLSchema#>
<%s\\u0023\\U00000073> <http://www.w3.org/1999/02/22-rdf-syntax-ns#type> ex:C .
ex:s ex:p 'plain' , "quote \\" and \\\\ backslash" , "line\\nbreak\\ttab" , "caf\\u00E9 \\U0001F600" , 'hallo'@de .
ex:s ex:q "5"^^xsd:integer , "-1.5"^^xsd:decimal , "1.0E3"^^xsd:double , "true"^^xsd:boolean , <other> .
<other> ex:p _:x .
_:x ex:p \'\'\'in bnode\'\'\' ; ex:q _:y .
_:y ex:p ex:with.dot .
<%sa%%2Cb> ex:p ex:x .
''' % (NS, NS[:-1], NS)
    if style == 2:      # everything on few lines, comments, odd whitespace, prefix redefinition, trailing ; allowed
        return '''# leading comment
@prefix p: <http://example.org/> . @prefix p: <%s> .
@prefix xsd: <http://www.w3.org/2001/XMLSchema#>.
p:s a p:C;p:p "plain","quote \\" and \\\\ backslash","line\\nbreak\\ttab","café \U0001F600","hallo"@de;p:q 5,-1.5,1.0E3,true,<http://example.org/dir/other>; .
<http://example.org/dir/other> p:p[p:p "in bnode";p:q[p:p p:with.dot;]] . # comment
<%sa%%2Cb> p:p p:x .
''' % (NS, NS)
    raise ValueError(style)


def xml_doc(style):
    rdf = "http://www.w3.org/1999/02/22-rdf-syntax-ns#"
    xsd = "http://www.w3.org/2001/XMLSchema#"
    if style == 0:      # striped syntax, typed node, property attributes not used
        return '''<?xml version="1.0" encoding="utf-8"?>
<rdf:RDF xmlns:rdf="%s" xmlns:ex="%s" xml:base="%s">
  <ex:C rdf:about="%ss">
    <ex:p>plain</ex:p>
    <ex:p>quote " and \\ backslash</ex:p>
    <ex:p>line
break&#9;tab</ex:p>
    <ex:p>caf&#233; &#x1F600;</ex:p>
    <ex:p xml:lang="de">hallo</ex:p>
    <ex:q rdf:datatype="%sinteger">5</ex:q>
    <ex:q rdf:datatype="%sdecimal">-1.5</ex:q>
    <ex:q rdf:datatype="%sdouble">1.0E3</ex:q>
    <ex:q rdf:datatype="%sboolean">true</ex:q>
    <ex:q>
      <rdf:Description rdf:about="other">
        <ex:p rdf:parseType="Resource">
          <ex:p>in bnode</ex:p>
          <ex:q rdf:parseType="Resource"><ex:p rdf:resource="%swith.dot"/></ex:q>
        </ex:p>
      </rdf:Description>
    </ex:q>
  </ex:C>
  <rdf:Description rdf:about="%sa%%2Cb"><ex:p rdf:resource="%sx"/></rdf:Description>
</rdf:RDF>''' % (rdf, NS, BASE, NS, xsd, xsd, xsd, xsd, NS, NS, NS)
    # flat syntax with nodeIDs, rdf:ID-free, CDATA, entity for namespace, rdf:type as property
    return '''<?xml version="1.0"?>
<!DOCTYPE rdf:RDF [ <!ENTITY ex "%s"> <!ENTITY xsd "%s"> ]>
<rdf:RDF xmlns:rdf="%s" xmlns:e="&ex;">
  <rdf:Description rdf:about="&ex;s"><rdf:type rdf:resource="&ex;C"/></rdf:Description>
  <rdf:Description rdf:about="&ex;s" e:p="plain">
    <e:p><![CDATA[quote " and \\ backslash]]></e:p>
    <e:p>line&#10;break	tab</e:p>
    <e:p>café \U0001F600</e:p>
  </rdf:Description>
  <rdf:Description rdf:about="&ex;s" xml:lang="de"><e:p>hallo</e:p><e:q rdf:datatype="&xsd;integer">5</e:q>
    <e:q rdf:datatype="&xsd;decimal">-1.5</e:q><e:q rdf:datatype="&xsd;double">1.0E3</e:q>
    <e:q rdf:datatype="&xsd;boolean">true</e:q><e:q rdf:resource="http://example.org/dir/other"/></rdf:Description>
  <rdf:Description rdf:about="http://example.org/dir/other"><e:p rdf:nodeID="n1"/></rdf:Description>
  <rdf:Description rdf:nodeID="n1" xml:lang="fr"><e:p xml:lang="">in bnode</e:p><e:q rdf:nodeID="n2"/></rdf:Description>
  <rdf:Description rdf:nodeID="n2"><e:p rdf:resource="&ex;with.dot"/></rdf:Description>
  <rdf:Description rdf:about="&ex;a%%2Cb"><e:p rdf:resource="&ex;x"/></rdf:Description>
</rdf:RDF>''' % (NS, xsd, rdf)


def jsonld_doc(style):
    xsd = "http://www.w3.org/2001/XMLSchema#"
    if style == 0:   # expanded form
        return json.dumps([
            {"@id": NS + "s", "@type": [NS + "C"],
             NS + "p": [{"@value": "plain"}, {"@value": 'quote " and \\ backslash'}, {"@value": "line\nbreak\ttab"},
                        {"@value": "café \U0001F600"}, {"@value": "hallo", "@language": "de"}],
             NS + "q": [{"@value": "5", "@type": xsd + "integer"}, {"@value": "-1.5", "@type": xsd + "decimal"},
                        {"@value": "1.0E3", "@type": xsd + "double"}, {"@value": "true", "@type": xsd + "boolean"},
                        {"@id": "http://example.org/dir/other"}]},
            {"@id": "http://example.org/dir/other", NS + "p": [{"@id": "_:n1"}]},
            {"@id": "_:n1", NS + "p": [{"@value": "in bnode"}], NS + "q": [{"@id": "_:n2"}]},
            {"@id": "_:n2", NS + "p": [{"@id": NS + "with.dot"}]},
            {"@id": NS + "a%2Cb", NS + "p": [{"@id": NS + "x"}]}])
    # compacted with context, nesting, @base, coercion, native values kept as typed strings to avoid canonical forms
    return json.dumps({
        "@context": {"ex": NS, "xsd": xsd, "@base": BASE, "p": {"@id": "ex:p"}, "q": {"@id": "ex:q"},
                     "ref": {"@id": "ex:q", "@type": "@id"}, "de": {"@id": "ex:p", "@language": "de"}},
        "@graph": [
            {"@id": "ex:s", "@type": "ex:C",
             "p": ["plain", 'quote " and \\ backslash', "line\nbreak\ttab", "café \U0001F600"], "de": "hallo",
             "q": [{"@value": "5", "@type": "xsd:integer"}, {"@value": "-1.5", "@type": "xsd:decimal"},
                   {"@value": "1.0E3", "@type": "xsd:double"}, {"@value": "true", "@type": "xsd:boolean"}],
             "ref": {"@id": "other", "p": {"p": "in bnode", "q": {"p": {"@id": "ex:with.dot"}}}}},
            {"@id": "ex:a%2Cb", "p": {"@id": "ex:x"}}]}, ensure_ascii=bool(style == 2))


# ---- strict N-Triples / N-Quads line grammar (W3C RDF 1.1)
HEX = "[0-9A-Fa-f]"
UCHAR = r"(?:\\u%s{4}|\\U%s{8})" % (HEX, HEX)
IRIREF = r"<(?:[^\x00-\x20<>\"{}|^`\\]|%s)*>" % UCHAR
PN_BASE = r"A-Za-zÀ-ÖØ-öø-˿Ͱ-ͽͿ-῿‌-‍⁰-↏Ⰰ-⿯、-퟿豈-﷏ﷰ-�\U00010000-\U000EFFFF"
PN_U = PN_BASE + "_:"
PN_CHARS = PN_U + r"\-0-9·̀-ͯ‿-⁀"
BNODE = r"_:[%s0-9](?:[%s.]*[%s])?" % (PN_U, PN_CHARS, PN_CHARS)
STRING = r'"(?:[^\x22\x5C\x0A\x0D]|\\[tbnrf"\'\\]|%s)*"' % UCHAR
LITERAL = r"%s(?:\^\^%s|@[a-zA-Z]+(?:-[a-zA-Z0-9]+)*)?" % (STRING, IRIREF)
NT_LINE = re.compile(r"^[ \t]*(?:(?:%s|%s)[ \t]*%s[ \t]*(?:%s|%s|%s)[ \t]*(?:(?:%s|%s)[ \t]*)?\.[ \t]*)?(?:#.*)?$" %
                     (IRIREF, BNODE, IRIREF, IRIREF, BNODE, LITERAL, IRIREF, BNODE))


class Spellings(Suite):
    chunk = 1

    def bound(self, tier):
        return ("one 16-triple graph (strings with quotes/backslash/newline/tab/non-BMP, language, four numeric/boolean "
                "datatypes, rdf:type, nested blank nodes, a local name with a dot and a %-escape) spelled in 3 N-Triples "
                "styles (ECHAR / \\u-everywhere / raw + comments + blank lines), 3 Turtle styles (@prefix/@base/;/,/[]/"
                "shorthand/long strings - PREFIX/BASE/labelled bnodes/relative IRIs - dense one-liners with comments), 2 "
                "RDF/XML styles (striped with parseType=Resource and xml:base - flat with nodeID, entities, CDATA, property "
                "attributes), 2 JSON-LD styles (expanded - compacted with context, @base, coercion, nesting), each handed to "
                "parse() as str, bytes, text file object, binary file object and path: all give the target graph")

    def docs(self):
        rnd = random.Random(7)
        D = []
        for st in range(3):
            D.append(("nt", f"nt-style{st}", nt_doc(st, rnd), None))
        for st in range(3):
            D.append(("turtle", f"ttl-style{st}", ttl_doc(st, rnd), None))
        for st in range(2):
            D.append(("xml", f"xml-style{st}", xml_doc(st), BASE if st == 1 else None))
        for st in range(2):
            D.append(("json-ld", f"jsonld-style{st}", jsonld_doc(st), BASE if st == 0 else None))
        return D

    def enumerate(self, tier):
        for di in range(len(self.docs())):
            for how in ("str", "bytes", "textfile", "binfile", "path"):
                yield {"d": di, "how": how}

    def check(self, case):
        from rdflib import Graph
        from rdflib.compare import isomorphic, graph_diff
        fmt, name, doc, public = self.docs()[case["d"]]
        g = Graph()
        kw = {"format": fmt}
        if public:
            kw["publicID"] = public
        how = case["how"]
        tmp = None
        try:
            if how == "str":
                g.parse(data=doc, **kw)
            elif how == "bytes":
                g.parse(data=doc.encode("utf-8"), **kw)
            elif how == "textfile":
                g.parse(source=io.StringIO(doc), **kw)
            elif how == "binfile":
                g.parse(source=io.BytesIO(doc.encode("utf-8")), **kw)
            else:
                tmp = tempfile.NamedTemporaryFile("w", suffix="." + {"nt": "nt", "turtle": "ttl", "xml": "rdf", "json-ld": "jsonld"}[fmt],
                                                  delete=False, dir="/var/tmp", encoding="utf-8")
                tmp.write(doc)
                tmp.close()
                if not public and fmt in ("turtle", "json-ld") and "relative" in name:
                    kw["publicID"] = BASE
                g.parse(tmp.name, **kw)
        except Exception as e:  # noqa
            return f"parse-raises[{name}]: as {how}: {type(e).__name__}: {str(e)[:160]}"
        finally:
            if tmp is not None:
                os.unlink(tmp.name)
        T = target()
        if not isomorphic(g, T):
            both, only_g, only_t = graph_diff(g, T)
            return (f"graph-differs[{name}]: as {how}: unexpected {sorted(o.n3() for _, _, o in only_g)[:3]} "
                    f"missing {sorted(o.n3() for _, _, o in only_t)[:3]}")
        return None

    def classify(self, case, msg):
        return msg.split(":")[0] + ("" if case["how"] in ("str",) else ":" + case["how"])


class StrictOutput(Suite):
    def bound(self, tier):
        return ("the C03 graph zoo serialised as N-Triples and (wrapped in a Dataset with a named and a blank-node-named "
                "graph) as N-Quads: every output line matches the W3C line grammar (IRIREF, BLANK_NODE_LABEL, "
                "STRING_LITERAL_QUOTE with ECHAR/UCHAR only, LANGTAG); RDF/XML, TriX and JSON-LD outputs are well-formed XML / JSON")

    def enumerate(self, tier):
        from bounded.c03 import graphs
        for gi in range(len(graphs())):
            for f in ("nt", "nquads", "xml", "pretty-xml", "trix", "json-ld"):
                yield {"g": gi, "f": f}

    def check(self, case):
        from bounded.c03 import graphs
        from rdflib import Dataset, BNode, URIRef
        name, mk = graphs()[case["g"]]
        g = mk()
        f = case["f"]
        if f in ("nquads", "trix"):
            ds = Dataset()
            for i, t in enumerate(g):
                ds.add(t + ([URIRef("http://example.org/g"), BNode("gname"), None][i % 3],) if i % 3 != 2 else t)
            src = ds
        else:
            src = g
        if f in ("xml", "pretty-xml"):
            from rdflib.namespace import split_uri
            for _, p, _ in g:
                try:
                    split_uri(p)
                except Exception:
                    return None
        try:
            data = src.serialize(format=f)
        except Exception as e:  # noqa
            if isinstance(e, ValueError) and "recursive" in str(e):
                return None
            return f"serialize-raises[{f}]: {name!r}: {type(e).__name__}: {str(e)[:100]}"
        if f in ("nt", "nquads"):
            for line in data.split("\n"):
                if not NT_LINE.match(line):
                    return f"not-in-grammar[{f}]: {name!r}: line {line[:140]!r} does not match the W3C {f} grammar"
            return None
        if f == "json-ld":
            try:
                json.loads(data)
            except Exception as e:  # noqa
                return f"not-json: {name!r}: {e}"
            return None
        import xml.dom.minidom
        try:
            xml.dom.minidom.parseString(data.encode("utf-8") if isinstance(data, str) else data)
        except Exception as e:  # noqa
            return f"not-well-formed-xml[{f}]: {name!r}: {str(e)[:120]}"
        return None

    def classify(self, case, msg):
        return msg.split(":")[0]


class ListsAndGraphBlocks(Suite):
    def bound(self, tier):
        return ("collections with falsy members (0, 0.0, \"\", false, \"0\"^^xsd:integer) written as Turtle ( ... ), RDF/XML "
                "parseType=Collection is n/a (literals), JSON-LD {\"@list\": [...]} and @container @list, incl. a list of only "
                "falsy members and the empty list; TriG documents reusing a blank node label in the default graph and two "
                "graph blocks, and as graph name + subject: one node per label per document")

    def enumerate(self, tier):
        for k in ("turtle-list", "jsonld-list", "jsonld-container-list", "jsonld-only-falsy", "jsonld-empty-list",
                  "trig-shared-label", "trig-graph-name-label", "nquads-shared-label"):
            yield {"k": k}

    def check(self, case):
        from rdflib import Graph, Dataset, URIRef, Literal, BNode, XSD
        from rdflib.collection import Collection
        k = case["k"]
        p = URIRef("http://example.org/p")
        exp = [Literal(0), Literal(""), Literal(False), Literal("0", datatype=XSD.integer), Literal(0.0), Literal(1)]
        if k.endswith("list") or k == "jsonld-only-falsy":
            g = Graph()
            if k == "turtle-list":
                g.parse(data='<http://example.org/s> <http://example.org/p> ( 0 "" false "0"^^<http://www.w3.org/2001/XMLSchema#integer> 0.0e0 1 ) .',
                        format="turtle")
                exp = [Literal(0), Literal(""), Literal(False), Literal(0), Literal("0.0e0", datatype=XSD.double), Literal(1)]
            else:
                xs = "http://www.w3.org/2001/XMLSchema#"
                members = [0, "", False, {"@value": "0", "@type": xs + "integer"}, {"@value": "0.0", "@type": xs + "double"}, 1]
                if k == "jsonld-only-falsy":
                    members, exp = members[:3], exp[:3]
                if k == "jsonld-empty-list":
                    members, exp = [], []
                if k == "jsonld-container-list":
                    doc = {"@context": {"p": {"@id": str(p), "@container": "@list"}}, "@id": "http://example.org/s", "p": members}
                else:
                    doc = {"@id": "http://example.org/s", str(p): {"@list": members}}
                g.parse(data=json.dumps(doc), format="json-ld")
                if len(exp) > 4:
                    exp = exp[:4] + [Literal("0.0", datatype=XSD.double), Literal(1)]
            heads = list(g.objects(URIRef("http://example.org/s"), p))
            if len(heads) != 1:
                return f"list-head[{k}]: {len(heads)} values for the list-valued property"
            got = list(Collection(g, heads[0]))
            if [(str(x), x.datatype) for x in got] != [(str(x), x.datatype) for x in exp]:
                return f"list-members[{k}]: parsed list is {[x.n3() for x in got]}, expected {[x.n3() for x in exp]}"
            return None
        ds = Dataset()
        if k == "trig-shared-label":
            ds.parse(data="""@prefix : <http://example.org/> .
_:a :p "default" .
:g1 { _:a :p "one" . }
GRAPH :g2 { _:a :p "two" ; :q _:a . }""", format="trig")
            nodes = {s for s, _, _, _ in ds.quads((None, None, None, None)) if isinstance(s, BNode)}
            if len(nodes) != 1:
                return f"trig-label-scope: label _:a in the default graph and two graph blocks of one document denotes {len(nodes)} nodes"
            if len(list(ds.quads((None, None, None, None)))) != 4:
                return "trig-quads: expected 4 quads"
        elif k == "trig-graph-name-label":
            ds.parse(data="""@prefix : <http://example.org/> .
_:c { _:c :p "x" . }
:s :q _:c .""", format="trig")
            qs = list(ds.quads((None, None, None, None)))
            names = {c if not hasattr(c, "identifier") else c.identifier for _, _, _, c in qs}
            inner = [(s, c if not hasattr(c, "identifier") else c.identifier) for s, pp, o, c in qs if str(o) == "x"]
            outer = [o for s, pp, o, c in qs if str(pp).endswith("q")]
            if not inner or str(inner[0][0]) != str(inner[0][1]) or outer[0] != inner[0][0]:
                return f"trig-graph-name-label: in '_:c {{ _:c :p \"x\" }} :s :q _:c' graph name, subject and object are not the same node: {inner} {outer}"
        else:
            ds.parse(data='_:a <http://example.org/p> "d" .\n_:a <http://example.org/p> "one" <http://example.org/g1> .\n'
                          '_:a <http://example.org/p> "n" _:a .\n', format="nquads")
            qs = list(ds.quads((None, None, None, None)))
            nodes = {s for s, _, _, _ in qs} | {(c if not hasattr(c, "identifier") else c.identifier) for _, _, _, c in qs
                                                if isinstance(c if not hasattr(c, "identifier") else c.identifier, BNode)}
            if len(nodes) != 1:
                return f"nquads-label-scope: label _:a as subject in three graphs and as a graph name denotes {len(nodes)} nodes"
        return None

    def classify(self, case, msg):
        return msg.split(":")[0]


_ECHAR = {"t": "\t", "b": "\b", "n": "\n", "r": "\r", "f": "\f", '"': '"', "'": "'", "\\": "\\"}
_NT_LIT_LINE = re.compile(r'^<urn:s>[ \t]+<urn:p>[ \t]+"((?:[^\x22\x5C\x0A\x0D]|\\[tbnrf"\'\\]|%s)*)"(\^\^<[^>]*>|@[a-z]+)?[ \t]*\.[ \t]*$' % UCHAR)


def strict_unescape(body):
    """the W3C grammar's reading of a STRING_LITERAL_QUOTE body (already matched against the grammar)"""
    out, i = [], 0
    while i < len(body):
        x = body[i]
        if x == "\\":
            y = body[i + 1]
            if y in _ECHAR:
                out.append(_ECHAR[y]); i += 2
            elif y == "u":
                out.append(chr(int(body[i + 2:i + 6], 16))); i += 6
            else:
                out.append(chr(int(body[i + 2:i + 10], 16))); i += 10
        else:
            out.append(x); i += 1
    return "".join(out)


class EscapeSweep(Suite):
    """every Unicode scalar value inside a literal: written by the N-Triples / N-Quads serializers
    and by Literal.n3(), read by an independent strict reader of the W3C grammar"""
    chunk = 2

    def bound(self, tier):
        return ("EVERY Unicode scalar value (0..0x10FFFF minus surrogates, both tiers) "
                "as 'a<c>b' in a plain, a language-tagged and a typed literal: nt / nt11 / nquads output lines "
                "match the W3C grammar and read back (independent reader) as the same string; Literal.n3() likewise")

    def enumerate(self, tier):
        step = 1
        for lo in range(0, 0x110000, 0x1000):
            yield {"lo": lo, "hi": lo + 0x1000, "step": 1 if lo < 0x10000 else step}

    def check(self, case):
        from rdflib import Graph, Literal, URIRef
        from rdflib.namespace import XSD
        s_, p_ = URIRef("urn:s"), URIRef("urn:p")
        cps = [c for c in range(case["lo"], case["hi"], case["step"]) if not 0xD800 <= c <= 0xDFFF]
        if not cps:
            return None
        for kind in ("plain", "lang", "typed"):
            g = Graph()
            want = set()
            for c in cps:
                txt = "a" + chr(c) + "b"
                lit = Literal(txt) if kind == "plain" else Literal(txt, lang="en") if kind == "lang" else \
                    Literal(txt, datatype=URIRef("urn:dt"))
                g.add((s_, p_, lit))
                want.add(txt)
                n3 = Literal(txt).n3()
                if "\n" not in txt:
                    m = re.fullmatch(STRING, n3)
                    if not m or strict_unescape(n3[1:-1]) != txt:
                        return f"n3-escape: Literal({txt!r}).n3() = {n3!r} does not read back as the string (U+{c:04X})"
            for fmt, enc in (("nt", "utf-8"), ("nt11", "utf-8"), ("nquads", "utf-8")):
                try:
                    src = g
                    if fmt == "nquads":
                        from rdflib import Dataset
                        src = Dataset()
                        for t in g:
                            src.add(t)
                    data = src.serialize(format=fmt, encoding=enc).decode(enc)
                except Exception as e:  # noqa
                    return f"serialize-raises[{fmt}/{enc}]: {type(e).__name__}: {str(e)[:100]} (code points U+{cps[0]:04X}..)"
                got = set()
                for line in data.split("\n"):
                    if not line:
                        continue
                    m = _NT_LIT_LINE.match(line)
                    if not m:
                        return f"escape-not-in-grammar[{fmt}/{enc}]: line {line[:80]!r} does not match the W3C grammar"
                    got.add(strict_unescape(m.group(1)))
                if got != want:
                    bad = sorted(want - got)[:2]
                    return (f"escape-changes-string[{fmt}/{enc}]: {kind} literals {bad!r} (U+{ord(bad[0][1]):04X}) are written "
                            f"so that the grammar reads {sorted(got - want)[:2]!r}")
        return None

    def classify(self, case, msg):
        return msg.split(":")[0]


SUITES = {"spellings": Spellings(), "strict-output": StrictOutput(), "lists-and-graph-blocks": ListsAndGraphBlocks(),
          "escape-sweep": EscapeSweep()}
