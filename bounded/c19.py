"""Bounded stand-in for C19: Collection histories against a Python list + well-formedness of the chain."""
from __future__ import annotations

import itertools
import signal

from bounded.run import Suite


def members():
    from rdflib import URIRef, Literal
    return [Literal(0), Literal(""), Literal(False), URIRef("urn:a"), URIRef("urn:a")]  # last = duplicate


class Timeout(Exception):
    pass


def _alarm(signum, frame):
    raise Timeout()


def well_formed(g, head, expected):
    """rdf:first/rdf:rest chain from head spells `expected`, ends in rdf:nil, and no other list cell triples exist"""
    from rdflib import RDF
    cells = []
    node = head
    if not expected:
        # empty list: either the head has no first/rest at all, or ... (rdflib's empty collection: no triples)
        if list(g.triples((head, RDF.first, None))) or list(g.triples((head, RDF.rest, None))):
            return f"empty list but head still has rdf:first/rdf:rest triples: {sorted(map(str, g))}"
    else:
        for i, m in enumerate(expected):
            firsts = list(g.objects(node, RDF.first))
            rests = list(g.objects(node, RDF.rest))
            if firsts != [m]:
                return f"cell {i} has rdf:first {firsts}, expected [{m!r}]"
            if len(rests) != 1:
                return f"cell {i} has rdf:rest {rests}"
            cells.append(node)
            node = rests[0]
        if node != RDF.nil:
            return f"chain does not end in rdf:nil after {len(expected)} cells (continues with {node})"
    used = set(cells) | ({head} if not expected else set())
    for s, p, o in g:
        if p in (RDF.first, RDF.rest) and s not in cells:
            return f"orphaned cell triple ({s}, {p}, {o})"
    return None


class ListHistories(Suite):
    chunk = 100

    def bound(self, tier):
        n = 3 if tier == "quick" else 4
        return (f"all sequences of <= {n} operations (append, += [x,y], c[i]=x, del c[i] for every valid i, clear) on "
                f"starting lists of length 0..3 over members Literal(0), Literal(''), Literal(False), an IRI and a "
                f"duplicate; after each step len, list(), c[i] for i in -1..len, index(), membership are compared with a "
                f"Python list (IndexError where the list raises) and the rdf:first/rdf:rest chain is checked")

    def enumerate(self, tier):
        n = 3 if tier == "quick" else 4
        M = range(len(members()))
        for start_len in range(0, 4):
            for start in itertools.product(range(3), repeat=start_len) if start_len <= 2 else [(0, 3, 1), (3, 4, 0)]:
                ops = [("append", m) for m in M] + [("iadd", 0, 3), ("iadd",), ("clear",)] + \
                      [("set", i, m) for i in range(0, 4) for m in (0, 3)] + [("del", i) for i in range(0, 4)]
                for k in range(1, n + 1):
                    for h in itertools.product(ops, repeat=k):
                        if k == n and tier == "quick" and start_len not in (0, 2):
                            continue
                        yield {"start": list(start), "history": [list(o) for o in h]}

    def nontrivial(self, case):
        return len(case["history"]) > 1

    def check(self, case):
        from rdflib import Graph, BNode
        from rdflib.collection import Collection
        M = members()
        g = Graph()
        head = BNode()
        ref = [M[i] for i in case["start"]]
        c = Collection(g, head, list(ref))
        m = self.observe(g, head, c, ref, "initially")
        if m:
            return m
        for i, op in enumerate(case["history"]):
            k = op[0]
            where = f"after step {i} {op} (list {[str(x) for x in ref]})"
            try:
                if k == "append":
                    if not ref and False:
                        pass
                    c.append(M[op[1]])
                    ref.append(M[op[1]])
                elif k == "iadd":
                    items = [M[j] for j in op[1:]]
                    c += items
                    ref += items
                elif k == "clear":
                    c.clear()
                    ref.clear()
                elif k == "set":
                    if op[1] >= len(ref):
                        try:
                            c[op[1]] = M[op[2]]
                        except IndexError:
                            continue
                        return f"setitem-index: {where}: c[{op[1]}] = x did not raise IndexError on a list of {len(ref)}"
                    c[op[1]] = M[op[2]]
                    ref[op[1]] = M[op[2]]
                elif k == "del":
                    if op[1] >= len(ref):
                        try:
                            del c[op[1]]
                        except IndexError:
                            continue
                        except Exception as e:  # noqa
                            return f"delitem-index: {where}: del c[{op[1]}] raised {type(e).__name__} instead of IndexError"
                        return f"delitem-index: {where}: del c[{op[1]}] did not raise IndexError on a list of {len(ref)}"
                    del c[op[1]]
                    del ref[op[1]]
            except Exception as e:  # noqa
                return f"raises-{k}: {where}: {type(e).__name__}: {e}"
            m = self.observe(g, head, c, ref, where)
            if m:
                return m
        return None

    def observe(self, g, head, c, ref, where):
        if len(c) != len(ref):
            return f"len: {where}: len(collection)={len(c)} expected {len(ref)}"
        if list(c) != ref:
            return f"iteration: {where}: list(collection)={[str(x) for x in c]} expected {[str(x) for x in ref]}"
        for i in range(0, len(ref) + 2):
            try:
                exp = ref[i]
                exp_exc = None
            except IndexError:
                exp, exp_exc = None, IndexError
            try:
                got = c[i]
                got_exc = None
            except Exception as e:  # noqa
                got, got_exc = None, type(e)
            if exp_exc is None and got_exc is not None:
                return f"getitem-falsy: {where}: c[{i}] raised {got_exc.__name__}, list gives {exp!r}" \
                    if not exp else f"getitem: {where}: c[{i}] raised {got_exc.__name__}, list gives {exp!r}"
            if exp_exc is not None and got_exc is not IndexError:
                return (f"getitem-indexerror: {where}: c[{i}] on a list of {len(ref)} "
                        f"{'returned ' + repr(got) if got_exc is None else 'raised ' + got_exc.__name__}, list raises IndexError")
            if exp_exc is None and got != exp:
                return f"getitem: {where}: c[{i}]={got!r} expected {exp!r}"
        for m in members():
            if (m in ref) != (m in list(c)):
                return f"membership: {where}"
            try:
                e = ref.index(m)
            except ValueError:
                e = ValueError
            signal.signal(signal.SIGALRM, _alarm)
            signal.alarm(2)
            try:
                try:
                    r = c.index(m)
                except ValueError:
                    r = ValueError
                except Timeout:
                    return f"index-hangs: {where}: index({m!r}) did not return"
                except Exception as ex:  # noqa
                    r = type(ex)
            finally:
                signal.alarm(0)
            if r != e:
                return f"index: {where}: index({m!r}) = {r} expected {e}"
        w = well_formed(g, head, ref)
        if w:
            return f"chain: {where}: {w}"
        return None

    def classify(self, case, msg):
        return msg.split(":")[0]


class BrokenChains(Suite):
    """reads on cyclic or broken chains must raise instead of looping"""

    def bound(self, tier):
        return "chains of <= 3 cells with the last rdf:rest pointing to any cell (cycle), missing, or duplicated; " \
               "len(), list(), c[i], index(absent), index(present) must return or raise within 2 s"

    def enumerate(self, tier):
        for n in (1, 2, 3):
            for back in list(range(n)) + ["missing", "double"]:
                for op in ("len", "iter", "getitem", "index-absent", "index-present", "get_container"):
                    yield {"cells": n, "back": back, "op": op}

    def check(self, case):
        from rdflib import Graph, BNode, RDF, Literal
        from rdflib.collection import Collection
        g = Graph()
        cells = [BNode() for _ in range(case["cells"])]
        for i, cnode in enumerate(cells):
            g.add((cnode, RDF.first, Literal(i + 1)))
            if i + 1 < len(cells):
                g.add((cnode, RDF.rest, cells[i + 1]))
        b = case["back"]
        if b == "double":
            g.add((cells[-1], RDF.rest, RDF.nil))
            g.add((cells[-1], RDF.rest, cells[0]))
        elif b != "missing":
            g.add((cells[-1], RDF.rest, cells[b]))
        c = Collection(g, cells[0])
        signal.signal(signal.SIGALRM, _alarm)
        signal.alarm(2)
        try:
            try:
                if case["op"] == "len":
                    len(c)
                elif case["op"] == "iter":
                    list(c)
                elif case["op"] == "getitem":
                    c[5]
                elif case["op"] == "get_container":
                    c._get_container(7)
                elif case["op"] == "index-absent":
                    c.index(Literal(99))
                else:
                    c.index(Literal(1))
            except Timeout:
                return f"hangs: {case['op']} on a chain of {case['cells']} cells with rest -> {b} does not terminate"
            except Exception:  # raising is fine
                return None
        finally:
            signal.alarm(0)
        return None

    def classify(self, case, msg):
        return msg.split(":")[0] + ":" + case["op"]


SUITES = {"list-histories": ListHistories(), "broken-chains": BrokenChains()}
