"""Bounded stand-in for C20: SPARQLUpdateStore against an in-process loop-back endpoint.

urlopen() of rdflib.plugins.stores.sparqlconnector is replaced by a function that evaluates the request text
with rdflib's own engine on a backing Dataset and answers in SPARQL JSON / XML written by an independent
(tiny) writer, so that what is checked is the store: request text, order of requests, result decoding.
"""
from __future__ import annotations

import io
import itertools
import json
from urllib.parse import parse_qs, urlparse

from bounded.run import Suite


def vocab():
    from rdflib import URIRef, Literal
    S = URIRef("urn:s")
    P = URIRef("urn:p")
    O = [URIRef("urn:o"), Literal(0), Literal(""), Literal("a\"b\nc", lang="en"), Literal("1.5", datatype=URIRef("urn:dt"))]
    return [(S, P, o) for o in O]


class FakeResponse:
    def __init__(self, body: bytes, ctype: str):
        self._b = body
        self.headers = {"Content-Type": ctype}

    def read(self):
        return self._b


def term_json(t):
    from rdflib import URIRef, BNode, Literal
    if isinstance(t, URIRef):
        return {"type": "uri", "value": str(t)}
    if isinstance(t, BNode):
        return {"type": "bnode", "value": str(t)}
    d = {"type": "literal", "value": str(t)}
    if t.language:
        d["xml:lang"] = t.language
    elif t.datatype:
        d["datatype"] = str(t.datatype)
    return d


def term_xml(t):
    from rdflib import URIRef, BNode
    from xml.sax.saxutils import escape, quoteattr
    if isinstance(t, URIRef):
        return f"<uri>{escape(str(t))}</uri>"
    if isinstance(t, BNode):
        return f"<bnode>{escape(str(t))}</bnode>"
    attrs = ""
    if t.language:
        attrs = f" xml:lang={quoteattr(t.language)}"
    elif t.datatype:
        attrs = f" datatype={quoteattr(str(t.datatype))}"
    return f"<literal{attrs}>{escape(str(t))}</literal>"


class Endpoint:
    def __init__(self, fmt):
        from rdflib import Dataset
        self.ds = Dataset(default_union=True)
        self.requests = []
        self.fmt = fmt

    def urlopen(self, req):
        url = req.full_url
        data = req.data
        ctype = {k.lower(): v for k, v in req.header_items()}.get("content-type", "")
        if "sparql-update" in ctype:
            text = data.decode()
            self.requests.append(text)
            self.ds.update(text)
            return FakeResponse(b"", "text/plain")
        if data is not None and "sparql-query" in ctype:
            q = data.decode()
        elif data is not None:
            q = parse_qs(data.decode())["query"][0]
        else:
            q = parse_qs(urlparse(url).query)["query"][0]
        res = self.ds.query(q)
        if res.type == "ASK":
            if self.fmt == "json":
                return FakeResponse(json.dumps({"head": {}, "boolean": bool(res.askAnswer)}).encode(),
                                    "application/sparql-results+json")
            return FakeResponse(("<?xml version='1.0'?><sparql xmlns='http://www.w3.org/2005/sparql-results#'><head/>"
                                 f"<boolean>{'true' if res.askAnswer else 'false'}</boolean></sparql>").encode(),
                                "application/sparql-results+xml")
        vars_ = [str(v) for v in res.vars]
        rows = [{str(v): b[v] for v in res.vars if b.get(v) is not None} for b in res.bindings]
        if self.fmt == "json":
            body = {"head": {"vars": vars_}, "results": {"bindings": [{k: term_json(t) for k, t in r.items()} for r in rows]}}
            return FakeResponse(json.dumps(body).encode(), "application/sparql-results+json")
        x = ["<?xml version='1.0'?><sparql xmlns='http://www.w3.org/2005/sparql-results#'><head>"]
        x += [f"<variable name='{v}'/>" for v in vars_]
        x.append("</head><results>")
        for r in rows:
            x.append("<result>" + "".join(f"<binding name='{k}'>{term_xml(t)}</binding>" for k, t in r.items()) + "</result>")
        x.append("</results></sparql>")
        return FakeResponse("".join(x).encode(), "application/sparql-results+xml")


class QueueAndMirror(Suite):
    chunk = 50

    def bound(self, tier):
        n = 3 if tier == "quick" else 4
        return (f"all histories of <= {n} operations (add, remove exact / with object wildcard, commit, rollback, len, "
                f"membership read) over 5 triples (objects: IRI, Literal(0), Literal(''), a language literal with quote "
                f"and newline, a typed literal), autocommit on/off x dirty_reads on/off x JSON/XML results x GET/POST; "
                f"after each step the endpoint's dataset and the number/order of update requests are compared with "
                f"a model of the queue; reads are compared with the model of what must be visible")

    def enumerate(self, tier):
        n = 3 if tier == "quick" else 4
        ops = [("add", i) for i in range(5)] + [("remove", i) for i in range(5)] + [("remove-wild",), ("commit",),
                                                                                      ("rollback",), ("len",), ("triples",)]
        confs = [(ac, dr, fmt, meth) for ac in (True, False) for dr in (False, True) for fmt in ("json", "xml")
                 for meth in ("GET", "POST")]
        for conf in confs:
            if tier == "quick" and conf[3] == "POST" and conf[2] == "xml":
                continue
            for k in range(1, n + 1):
                for h in itertools.product(ops, repeat=k):
                    if k == n and tier == "quick" and (h[0][0] != "add" or conf[0]):
                        continue
                    yield {"autocommit": conf[0], "dirty_reads": conf[1], "format": conf[2], "method": conf[3],
                           "history": [list(o) for o in h]}

    def nontrivial(self, case):
        return len(case["history"]) > 1

    def check(self, case):
        import rdflib.plugins.stores.sparqlconnector as conn
        from rdflib import Graph, URIRef
        from rdflib.plugins.stores.sparqlstore import SPARQLUpdateStore
        T = vocab()
        ep = Endpoint(case["format"])
        saved = conn.urlopen
        conn.urlopen = ep.urlopen
        try:
            st = SPARQLUpdateStore("http://x/q", "http://x/u", autocommit=case["autocommit"],
                                   dirty_reads=case["dirty_reads"], returnFormat=case["format"], method=case["method"])
            g = Graph(store=st, identifier=URIRef("urn:g"))
            committed = set()          # what the endpoint must hold
            pending = []               # queued writes (model)
            nreq = 0

            def apply(ops_, base):
                cur = set(base)
                for kind, arg in ops_:
                    if kind == "add":
                        cur.add(arg)
                    elif kind == "remove":
                        cur.discard(arg)
                    else:
                        cur = {t for t in cur if not (t[0] == arg[0] and t[1] == arg[1])}
                return cur

            def flush():
                nonlocal committed, pending, nreq
                if pending:
                    committed = apply(pending, committed)
                    pending = []
                    nreq += 1
            for i, op in enumerate(case["history"]):
                k = op[0]
                where = f"after step {i} {op}"
                if k == "add":
                    g.add(T[op[1]])
                    pending.append(("add", T[op[1]]))
                elif k == "remove":
                    g.remove(T[op[1]])
                    pending.append(("remove", T[op[1]]))
                elif k == "remove-wild":
                    g.remove((T[0][0], T[0][1], None))
                    pending.append(("remove-wild", T[0]))
                elif k == "commit":
                    st.commit()
                    flush()
                elif k == "rollback":
                    st.rollback()
                    pending = []
                if case["autocommit"] and k in ("add", "remove", "remove-wild"):
                    flush()
                if k in ("len", "triples"):
                    if not case["autocommit"] and not case["dirty_reads"]:
                        flush()
                    visible = committed
                    if k == "len":
                        got = len(g)
                        if got != len(visible):
                            return f"read: {where}: len(graph)={got}, endpoint graph holds {len(visible)}"
                    else:
                        got = set(g.triples((None, None, None)))
                        if got != visible:
                            return (f"read: {where}: triples() = {sorted(map(str, got))} expected "
                                    f"{sorted(map(str, visible))} (terms must come back unchanged)")
                        for t in T:
                            if (t in g) != (t in visible):
                                return f"read: {where}: ({t} in graph) is {t in g}"
                actual = set(Graph(store=ep.ds.store, identifier=URIRef("urn:g")))
                if actual != committed:
                    return (f"mirror: {where}: endpoint holds {sorted(map(str, actual))} expected "
                            f"{sorted(map(str, committed))} (pending {len(pending)})")
                if len(ep.requests) != nreq:
                    return f"requests: {where}: {len(ep.requests)} update requests sent, expected {nreq}"
            # every history ends with a commit: whatever is still queued must arrive, in order, in one request
            st.commit()
            flush()
            actual = set(Graph(store=ep.ds.store, identifier=URIRef("urn:g")))
            if actual != committed:
                return (f"mirror: after the final commit: endpoint holds {sorted(map(str, actual))} expected "
                        f"{sorted(map(str, committed))}")
            if len(ep.requests) != nreq:
                return f"requests: after the final commit: {len(ep.requests)} update requests sent, expected {nreq}"
            return None
        finally:
            conn.urlopen = saved

    def classify(self, case, msg):
        return msg.split(":")[0]



class GraphsAtEndpoint(Suite):
    """contexts() lists exactly the named graphs of the endpoint's dataset - also graphs that hold no triple"""
    chunk = 1

    def bound(self, tier):
        return ("endpoint datasets with named graphs that are non-empty, created empty, and emptied again (8 combinations) x "
                "JSON/XML results x GET/POST: store.contexts() == the endpoint's named graphs; contexts(triple) == the "
                "graphs holding the triple")

    def enumerate(self, tier):
        for fmt in ("json", "xml"):
            for meth in ("GET", "POST"):
                for mask in range(8):
                    yield {"format": fmt, "method": meth, "mask": mask}

    def check(self, case):
        import rdflib.plugins.stores.sparqlconnector as conn
        from rdflib import URIRef
        from rdflib.plugins.stores.sparqlstore import SPARQLUpdateStore
        T = vocab()
        ep = Endpoint(case["format"])
        names = [URIRef("urn:g1"), URIRef("urn:g2"), URIRef("urn:g3")]
        if case["mask"] & 1:
            ep.ds.graph(names[0]).add(T[0])
        if case["mask"] & 2:
            ep.ds.graph(names[1])                      # created, never filled
        if case["mask"] & 4:
            g3 = ep.ds.graph(names[2])
            g3.add(T[1])
            g3.remove(T[1])                            # filled and emptied again
        from rdflib.graph import DATASET_DEFAULT_GRAPH_ID as DID
        want = {g.identifier for g in ep.ds.graphs() if g.identifier != DID}
        saved = conn.urlopen
        conn.urlopen = ep.urlopen
        try:
            st = SPARQLUpdateStore("http://x/q", "http://x/u", returnFormat=case["format"], method=case["method"])
            got = {c if isinstance(c, URIRef) else getattr(c, "identifier", c) for c in st.contexts()}
            if got != want:
                return (f"contexts: store.contexts() = {sorted(map(str, got))}, the endpoint's dataset has the named graphs "
                        f"{sorted(map(str, want))}")
            got_t = {c if isinstance(c, URIRef) else getattr(c, "identifier", c) for c in st.contexts(T[0])}
            want_t = {n for n in names if T[0] in ep.ds.graph(n)} if case["mask"] & 1 else set()
            if got_t != want_t:
                return f"contexts-of-triple: contexts({T[0]}) = {sorted(map(str, got_t))} expected {sorted(map(str, want_t))}"
        finally:
            conn.urlopen = saved
        return None

    def classify(self, case, msg):
        return msg.split(":")[0]


SUITES = {"queue-and-mirror": QueueAndMirror(), "graphs-at-endpoint": GraphsAtEndpoint()}
