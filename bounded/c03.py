"""Bounded stand-in for C03: serialise -> parse gives back an isomorphic graph with identical terms, every triple syntax."""
from __future__ import annotations

import itertools

from bounded.run import Suite

FORMATS = ["nt", "turtle", "longturtle", "n3", "xml", "pretty-xml", "json-ld", "hext"]


def U(n):
    from rdflib import URIRef
    return URIRef(n if ":" in n else "http://example.org/ns#" + n)


def graphs():
    """list of (name, builder) - builder() returns a fresh Graph"""
    from rdflib import Graph, BNode, Literal, RDF, XSD, URIRef
    from rdflib.collection import Collection
    out = []

    def g_of(triples, binds=()):
        def b():
            g = Graph()
            for p, ns in binds:
                g.bind(p, ns)
            for t in triples():
                g.add(t)
            return g
        return b
    s, p, q = U("s"), U("p"), U("q")
    # ---- literals
    strings = ["", " ", "a", 'quote"inside', "back\\slash", "line\nfeed", "tab\there", "cr\rhere", "'single'", '"""triple"""',
               "ends with quote\"", "ends with backslash\\", "café", "\U0001F600 non-BMP", "\u0000".replace("\u0000", "\u0001ctl") if False else "del\x7f",
               "<tag attr='v'>&amp;</tag>", "]]>", "{curly}", "percent %41", "  line sep", "a\\nb literal backslash-n", "\\u0041"]
    out.append(("plain strings", g_of(lambda: [(s, p, Literal(x)) for x in strings])))
    out.append(("language strings", g_of(lambda: [(s, p, Literal(x, lang=l)) for x in strings[:8] for l in ("en", "en-GB", "de")])))
    out.append(("xsd:string typed", g_of(lambda: [(s, p, Literal(x, datatype=XSD.string)) for x in strings[:6]])))
    typed = [("0", XSD.integer), ("-7", XSD.integer), ("007", XSD.integer), ("1.0", XSD.decimal), ("-.5", XSD.decimal), ("1.0E0", XSD.double),
             ("1e2", XSD.double), ("INF", XSD.double), ("NaN", XSD.double), ("true", XSD.boolean), ("false", XSD.boolean), ("1", XSD.boolean),
             ("2020-02-29", XSD.date), ("2020-02-29T12:00:00Z", XSD.dateTime), ("P1D", XSD.duration), ("abc", XSD.integer),
             ("x y", U("customType")), ("", XSD.integer), ("3", XSD.byte), ("AQID", XSD.base64Binary), ("0FB7", XSD.hexBinary),
             ("<b>x</b>", RDF.XMLLiteral), ("http://x/", XSD.anyURI)]
    out.append(("typed literals", g_of(lambda: [(s, p, Literal(x, datatype=d)) for x, d in typed])))
    out.append(("python values", g_of(lambda: [(s, p, Literal(v)) for v in (0, 1, -1, 10 ** 30, 0.0, -0.0, 1.5, 1e21, 1e-7, True, False)])))
    # ---- IRIs
    iris = ["http://example.org/a", "http://example.org/a/b#c", "http://example.org/a?x=1&y=2", "http://example.org/ns#with.dot",
            "http://example.org/ns#trailingdot.", "http://example.org/ns#1startsWithDigit", "http://example.org/ns#a-b_c",
            "http://example.org/ns#", "http://example.org/ns#a/b", "http://example.org/ns#café", "http://example.org/ns#%41",
            "http://example.org/ns#a:b", "urn:isbn:0451450523", "mailto:a@b.c", "http://example.org/~tilde", "http://example.org/a,b;c",
            "http://example.org/ns#a'b", "http://example.org/ns#(paren)", "http://xmlns.com/foaf/0.1/name", "http://example.org/ns#_under",
            "http://example.org/ns#-dash", "file:///tmp/x y".replace(" ", "%20")]
    out.append(("iris as subject/object", g_of(lambda: [(URIRef(i), p, URIRef(j)) for i, j in zip(iris, iris[1:] + iris[:1])],
                                               binds=[("ex", "http://example.org/ns#")])))
    out.append(("iris as predicate", g_of(lambda: [(s, URIRef(i), Literal(1)) for i in iris if "#" in i and not i.endswith("#")
                                                   and "/" not in i.split("#")[1] and ":" not in i.split("#")[1] and "'" not in i and "(" not in i
                                                   and "%" not in i],
                                          binds=[("ex", "http://example.org/ns#")])))
    out.append(("unbound namespaces", g_of(lambda: [(URIRef("http://a.example/x#s"), URIRef("http://b.example/y/p"), URIRef("http://c.example/z?o"))])))
    out.append(("rdf:type and a", g_of(lambda: [(s, RDF.type, U("C")), (U("C"), RDF.type, RDF.Property), (s, p, RDF.type)])))
    # ---- blank node topologies
    def bn(n):
        return [BNode() for _ in range(n)]

    def tree():
        a, b, c = bn(3)
        return [(s, p, a), (a, p, b), (a, q, c), (b, p, Literal(1)), (c, p, Literal(2))]
    out.append(("bnode tree", g_of(tree)))

    def dag():
        a, b, c = bn(3)
        return [(s, p, a), (s, q, b), (a, p, c), (b, p, c), (c, p, Literal(0))]
    out.append(("bnode dag (shared object)", g_of(dag)))

    def cyc():
        a, b, c = bn(3)
        return [(a, p, b), (b, p, c), (c, p, a), (a, q, Literal("x"))]
    out.append(("bnode cycle", g_of(cyc)))

    def selfloop():
        a, = bn(1)
        return [(a, p, a)]
    out.append(("bnode self loop", g_of(selfloop)))

    def unref():
        a, b = bn(2)
        return [(a, p, Literal(1)), (b, p, Literal(1)), (b, q, a)]
    out.append(("unreferenced and twice referenced bnodes", g_of(unref)))

    def twins():
        a, b = bn(2)
        return [(s, p, a), (s, p, b), (a, q, Literal(1)), (b, q, Literal(1))]
    out.append(("twin bnodes", g_of(twins)))

    def bnode_subject_only():
        a, b = bn(2)
        return [(a, p, s), (b, p, s), (a, q, b)]
    out.append(("bnode subjects", g_of(bnode_subject_only)))
    # ---- lists
    def lst(members, head_pred=p, extra=None):
        def f():
            g = Graph()
            h = BNode()
            Collection(g, h, members)
            ts = list(g) + [(s, head_pred, h if members else RDF.nil)]
            if extra:
                ts += extra(h)
            return ts
        return f
    out.append(("list of falsy members", g_of(lst([Literal(0), Literal(""), Literal(False), Literal(0.0), Literal(1)]))))
    out.append(("empty list", g_of(lst([]))))
    out.append(("singleton list", g_of(lst([U("x")]))))
    out.append(("nested list", g_of(lambda: nested())))

    def nested():
        g = Graph()
        inner, outer = BNode(), BNode()
        Collection(g, inner, [Literal(1), Literal(2)])
        Collection(g, outer, [inner, Literal(0), U("x")])
        return list(g) + [(s, p, outer)]
    out.append(("list with extra property on a cell", g_of(lst([Literal(1), Literal(2)], extra=lambda h: [(h, q, Literal("annot"))]))))
    out.append(("list head referenced twice", g_of(lst([Literal(1)], extra=lambda h: [(U("t"), q, h)]))))

    def cyclic_list():
        a, b = bn(2)
        return [(s, p, a), (a, RDF.first, Literal(1)), (a, RDF.rest, b), (b, RDF.first, Literal(2)), (b, RDF.rest, a)]
    out.append(("cyclic list", g_of(cyclic_list)))
    out.append(("cyclic list (unreferenced)", g_of(lambda: cyclic_list()[1:])))

    def malformed_list():
        a, b = bn(2)
        return [(s, p, a), (a, RDF.first, Literal(1)), (a, RDF.first, Literal(2)), (a, RDF.rest, b), (b, RDF.rest, RDF.nil)]
    out.append(("malformed list (two firsts, missing first)", g_of(malformed_list)))

    def list_as_subject():
        g = Graph()
        h = BNode()
        Collection(g, h, [Literal(1), Literal(2)])
        return list(g) + [(h, p, Literal("list is subject"))]
    out.append(("list as subject", g_of(list_as_subject)))
    out.append(("nil as subject", g_of(lambda: [(RDF.nil, p, Literal(1)), (s, p, RDF.nil)])))
    # ---- numeric literals whose lexical form is not what the Turtle shorthand would write
    out.append(("decimals without a point", g_of(lambda: [(s, p, Literal(x, datatype=XSD.decimal)) for x in ("1", "-5", "0", "+7")])))
    out.append(("decimals with a point", g_of(lambda: [(s, p, Literal(x, datatype=XSD.decimal)) for x in ("1.50", "0.1", "-0.0", "10.00")])))
    out.append(("doubles with many digits", g_of(lambda: [(s, p, Literal(v)) for v in (0.123456789, 1 / 3, 123456789.123, 5e-324, 1.7976931348623157e308)])))
    out.append(("doubles by lexical form", g_of(lambda: [(s, p, Literal(x, datatype=XSD.double)) for x in ("1", "1.5", "1.123456789012E0", "-0.0E0", "1E400")])))
    out.append(("integers by lexical form", g_of(lambda: [(s, p, Literal(x, datatype=XSD.integer)) for x in ("+3", "-0", "00")])))

    # ---- more list shapes
    def shared_tail():
        a, b, t = bn(3)
        return [(s, p, a), (s, q, b), (a, RDF.first, Literal(1)), (a, RDF.rest, t), (b, RDF.first, Literal(2)), (b, RDF.rest, t),
                (t, RDF.first, Literal(3)), (t, RDF.rest, RDF.nil)]
    out.append(("two list heads sharing one tail", g_of(shared_tail)))

    def iri_cell():
        a = bn(1)[0]
        c = U("cell2")
        return [(s, p, a), (a, RDF.first, Literal(1)), (a, RDF.rest, c), (c, RDF.first, Literal(2)), (c, RDF.rest, RDF.nil)]
    out.append(("list with an IRI-named inner cell", g_of(iri_cell)))

    def literal_rest():
        a = bn(1)[0]
        return [(s, p, a), (a, RDF.first, Literal(1)), (a, RDF.rest, Literal(""))]
    out.append(("list whose rdf:rest is a literal", g_of(literal_rest)))

    def two_firsts_no_rest():
        a = bn(1)[0]
        return [(s, p, a), (a, RDF.first, Literal(1)), (a, RDF.first, Literal(2))]
    out.append(("cell with two firsts and no rest", g_of(two_firsts_no_rest)))

    def typed_cells():
        a, b = bn(2)
        return [(s, p, a), (a, RDF.type, RDF.List), (a, RDF.first, Literal(1)), (a, RDF.rest, b), (b, RDF.type, RDF.List),
                (b, RDF.first, Literal(2)), (b, RDF.rest, RDF.nil)]
    out.append(("list cells typed rdf:List", g_of(typed_cells)))

    def dup_member():
        g = Graph()
        h, m = BNode(), BNode()
        Collection(g, h, [m, m, Literal(1)])
        return list(g) + [(s, p, h), (m, q, Literal("member"))]
    out.append(("list with a blank node member twice", g_of(dup_member)))
    out.append(("empty graph", g_of(lambda: [])))
    return out


def term_sig(g):
    """multiset of ground (non-bnode) term descriptions - exact lexical form, datatype, language"""
    from rdflib import Literal, BNode, URIRef
    from collections import Counter

    def d(x):
        if isinstance(x, BNode):
            return ("b",)
        if isinstance(x, URIRef):
            return ("u", str(x))
        return ("l", str(x), str(x.datatype) if x.datatype else None, x.language.lower() if x.language else None)
    return Counter((d(s), d(p), d(o)) for s, p, o in g)


def simple_eq(sig, xsd_string_is_simple):
    if not xsd_string_is_simple:
        return sig
    from collections import Counter
    XS = "http://www.w3.org/2001/XMLSchema#string"
    out = Counter()
    for t, n in sig.items():
        t2 = tuple((x[0], x[1], None if (x[0] == "l" and x[2] == XS) else x[2], x[3]) if x[0] == "l" else x for x in t)
        out[t2] += n
    return out


def strip_xsd_string(g):
    from rdflib import Graph, Literal, XSD
    out = Graph()
    for s, p, o in g:
        if isinstance(o, Literal) and o.datatype == XSD.string:
            o = Literal(str(o))
        out.add((s, p, o))
    return out


class RoundTrip(Suite):
    chunk = 2
    timeout = 30

    def bound(self, tier):
        return ("34 graphs (22 string literals with quotes/backslashes/newlines/CR/control/non-BMP/XML-special characters, "
                "language tags, 23 typed literals incl. non-normalised, ill-typed, empty, XMLLiteral, custom datatype; 22 IRI "
                "shapes incl. trailing dots, digits first, %-escapes, colons in local names; blank-node trees, DAGs, cycles, "
                "self loops, twins; rdf:Lists with falsy members, empty, nested, annotated cells, cyclic, malformed, as "
                "subject) x 8 serializers x options (with/without base, prefixes bound or not): parse(serialize(g)) is "
                "isomorphic to g with identical literals; serialisation terminates")

    def enumerate(self, tier):
        for gi in range(len(graphs())):
            for f in FORMATS:
                for opt in (0, 1):
                    yield {"g": gi, "f": f, "opt": opt}

    def check(self, case):
        import signal
        from rdflib import Graph
        from rdflib.compare import isomorphic
        name, mk = graphs()[case["g"]]
        g = mk()
        f = case["f"]
        kw = {}
        if case["opt"] == 1:
            kw["base"] = "http://example.org/"
            g.bind("ns", "http://example.org/ns#", override=True)
        if f == "xml" or f == "pretty-xml":
            # RDF/XML cannot express predicates without a valid XML local name, nor control characters: skip those graphs
            from rdflib.namespace import split_uri
            for _, p, o in g:
                try:
                    split_uri(p)
                except Exception:
                    return None

        def handler(signum, frame):
            raise TimeoutError()
        signal.signal(signal.SIGALRM, handler)
        signal.alarm(20)
        try:
            try:
                data = g.serialize(format=f, **kw)
            except TimeoutError:
                return f"hangs[{f}]: serialising {name!r} did not terminate within 20 s"
            except Exception as e:  # noqa
                return f"serialize-raises[{f}]: {name!r}: {type(e).__name__}: {str(e)[:120]}"
            h = Graph()
            try:
                h.parse(data=data, format={"longturtle": "turtle", "pretty-xml": "xml"}.get(f, f), **({"publicID": "http://example.org/"} if case["opt"] == 1 else {}))
            except TimeoutError:
                return f"hangs[{f}]: parsing the serialisation of {name!r} did not terminate"
            except Exception as e:  # noqa
                return f"reparse-raises[{f}]: {name!r}: {type(e).__name__}: {str(e)[:160]}"
        finally:
            signal.alarm(0)
        if len(h) != len(g):
            return f"triple-count[{f}]: {name!r}: {len(g)} triples came back as {len(h)}"
        sg, sh = simple_eq(term_sig(g), True), simple_eq(term_sig(h), True)
        if sg != sh:
            lost, new = list((sg - sh).items())[:2], list((sh - sg).items())[:2]
            return f"terms-differ[{f}]: {name!r}: lost {lost} new {new}"
        if f != "hext":
            sg2, sh2 = term_sig(g), term_sig(h)
            if sg2 != sh2:
                return f"simple-vs-xsd-string[{f}]: {name!r}: xsd:string typing changed although the syntax can express it"
        if f == "hext":
            g, h = strip_xsd_string(g), strip_xsd_string(h)      # the one identification the property allows there
        if not isomorphic(g, h):
            return f"not-isomorphic[{f}]: {name!r}: blank-node structure changed"
        return None

    def classify(self, case, msg):
        return msg.split(":")[0] + ":" + graphs()[case["g"]][0][:28]


SUITES = {"round-trip": RoundTrip()}
