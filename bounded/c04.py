"""Bounded stand-in for C04: rdflib's answers against an independent bottom-up evaluator of the SPARQL 1.1 algebra.

Queries are built from a small AST of our own (so no SPARQL parser is shared with rdflib): the AST is rendered to
query text for rdflib and evaluated directly by `ref_eval`, a transcription of SPARQL 1.1 section 18.5/18.6
(Join, LeftJoin with filter, Union, Minus, Filter with error-as-false, Extend, inline data, sub-select
projection, EXISTS by substitution).  Never counted as proved.
"""
from __future__ import annotations

import itertools
import random
from collections import Counter

from bounded.run import Suite

PFX = "PREFIX : <urn:x:> "


# ------------------------------------------------------------------ data
def universe():
    from rdflib import URIRef, Literal
    a, b, c = URIRef("urn:x:a"), URIRef("urn:x:b"), URIRef("urn:x:c")
    p, q, r = URIRef("urn:x:p"), URIRef("urn:x:q"), URIRef("urn:x:r")
    return [(a, p, b), (b, p, c), (c, p, a), (a, q, Literal(0)), (b, q, Literal(1)), (c, q, Literal(1)),
            (a, r, Literal("")), (b, r, a)]


def data_graphs(tier):
    U = universe()
    masks = [0b00000000, 0b00011001, 0b11111111, 0b01101110, 0b10010111]
    if tier == "thorough":
        masks = sorted(set(masks + list(range(1, 256, 7))))
    return [[t for i, t in enumerate(U) if m >> i & 1] for m in masks]


# ------------------------------------------------------------------ AST: tuples
# patterns: ("bgp", [(s,p,o)...]) ("group", [elements]) elements are patterns or
#   ("optional", P) ("minus", P) ("filter", E) ("bind", E, var) ("union", P, Q) ("values", [vars], [rows]) ("sub", [vars], P, distinct)
# terms: "?x" variables, ":a" iris, ints, "\"\"" strings
# expressions: ("=", t, t) ("<", t, t) ("!=", t, t) ("bound", var) ("!", E) ("&&", E, E) ("||", E, E) ("exists", P) ("notexists", P)
#              ("+", t, t) for BIND

def render_term(t):
    if isinstance(t, int):
        return str(t)
    return t


def render_expr(e):
    k = e[0]
    if k in ("=", "<", "!=", "+"):
        return f"({render_term(e[1])} {k} {render_term(e[2])})"
    if k == "bound":
        return f"BOUND({e[1]})"
    if k == "!":
        return f"(!{render_expr(e[1])})"
    if k in ("&&", "||"):
        return f"({render_expr(e[1])} {k} {render_expr(e[2])})"
    if k == "exists":
        return "EXISTS " + render(e[1])
    if k == "notexists":
        return "NOT EXISTS " + render(e[1])
    if k == "term":
        return render_term(e[1])
    raise ValueError(k)


def render(p):
    k = p[0]
    if k == "bgp":
        return "{ " + " . ".join(" ".join(render_term(x) for x in t) for t in p[1]) + " }"
    if k == "group":
        out = []
        for el in p[1]:
            ek = el[0]
            if ek == "optional":
                out.append("OPTIONAL " + render(el[1]))
            elif ek == "minus":
                out.append("MINUS " + render(el[1]))
            elif ek == "filter":
                out.append("FILTER (" + render_expr(el[1]) + ")")
            elif ek == "bind":
                out.append(f"BIND({render_expr(el[1])} AS {el[2]})")
            elif ek == "union":
                out.append(render(el[1]) + " UNION " + render(el[2]))
            elif ek == "values":
                out.append("VALUES (" + " ".join(el[1]) + ") { " + " ".join(
                    "(" + " ".join("UNDEF" if x is None else render_term(x) for x in row) + ")" for row in el[2]) + " }")
            elif ek == "sub":
                out.append("{ SELECT " + ("DISTINCT " if el[3] else "") + " ".join(el[1]) + " WHERE " + render(el[2]) + " }")
            elif ek == "bgp":
                out.append(" . ".join(" ".join(render_term(x) for x in t) for t in el[1]) + " .")
            else:
                out.append(render(el))
        return "{ " + " ".join(out) + " }"
    raise ValueError(k)


# ------------------------------------------------------------------ reference evaluator (SPARQL 1.1 section 18)
class ExprError(Exception):
    pass


def to_term(t):
    from rdflib import URIRef, Literal
    if isinstance(t, int):
        return Literal(t)
    if t.startswith(":"):
        return URIRef("urn:x:" + t[1:])
    if t.startswith('"'):
        return Literal(t.strip('"'))
    raise ValueError(t)


def val(t, mu):
    if isinstance(t, str) and t.startswith("?"):
        if t not in mu:
            raise ExprError("unbound")
        return mu[t]
    return to_term(t)


def is_num(x):
    from rdflib import Literal
    return isinstance(x, Literal) and isinstance(x.value, int) and not isinstance(x.value, bool)


def ebv(x):
    from rdflib import Literal
    if isinstance(x, bool):
        return x
    if isinstance(x, Literal):
        if isinstance(x.value, bool):
            return x.value
        if is_num(x):
            return x.value != 0
        if x.datatype is None or str(x.datatype).endswith("#string"):
            return len(str(x)) > 0
    raise ExprError("no EBV")


def ev_expr(e, mu, G):
    from rdflib import Literal
    k = e[0]
    if k == "term":
        return val(e[1], mu)
    if k in ("=", "!="):
        a, b = val(e[1], mu), val(e[2], mu)
        same = (a == b) if not (is_num(a) and is_num(b)) else a.value == b.value
        if not same and isinstance(a, Literal) and isinstance(b, Literal) and not (is_num(a) and is_num(b)) \
                and (a.datatype != b.datatype):
            # RDFterm-equal on literals of different (known) datatypes: here one is a number, the other a string: type error
            raise ExprError("incomparable literals")
        return same if k == "=" else not same
    if k == "<":
        a, b = val(e[1], mu), val(e[2], mu)
        if is_num(a) and is_num(b):
            return a.value < b.value
        raise ExprError("type error")
    if k == "+":
        a, b = val(e[1], mu), val(e[2], mu)
        if is_num(a) and is_num(b):
            return Literal(a.value + b.value)
        raise ExprError("type error")
    if k == "bound":
        return e[1] in mu
    if k == "!":
        return not ebv(ev_expr(e[1], mu, G))
    if k in ("&&", "||"):
        res = []
        for sub in (e[1], e[2]):
            try:
                res.append(ebv(ev_expr(sub, mu, G)))
            except ExprError:
                res.append(None)
        if k == "||":
            if True in res:
                return True
            if None in res:
                raise ExprError("error || false")
            return False
        if False in res:
            return False
        if None in res:
            raise ExprError("error && true")
        return True
    if k in ("exists", "notexists"):
        r = len(ref_eval(subst(e[1], mu), G)) > 0
        return r if k == "exists" else not r
    raise ValueError(k)


def subst(p, mu):
    """substitute(pattern, mu): replace every in-scope-by-name variable occurrence bound in mu (18.6 Filter/exists)"""
    def st(t):
        if isinstance(t, str) and t.startswith("?") and t in mu:
            x = mu[t]
            return ("T", x)
        return t
    k = p[0]
    if k == "bgp":
        return ("bgp", [tuple(st(x) for x in t) for t in p[1]])
    if k == "group":
        return ("group", [subst_el(el, mu) for el in p[1]])
    raise ValueError(k)


def subst_e(e, mu):
    k = e[0]
    if k in ("=", "<", "!=", "+"):
        return (k, ("T", mu[e[1]]) if isinstance(e[1], str) and e[1] in mu else e[1],
                ("T", mu[e[2]]) if isinstance(e[2], str) and e[2] in mu else e[2])
    if k == "bound":
        return ("term", True) if e[1] in mu else e
    if k == "!":
        return ("!", subst_e(e[1], mu))
    if k in ("&&", "||"):
        return (k, subst_e(e[1], mu), subst_e(e[2], mu))
    if k in ("exists", "notexists"):
        return (k, subst(e[1], mu))
    return e


def subst_el(el, mu):
    k = el[0]
    if k in ("optional", "minus"):
        return (k, subst(el[1], mu))
    if k == "filter":
        return ("filter", subst_e(el[1], mu))
    if k == "union":
        return ("union", subst(el[1], mu), subst(el[2], mu))
    if k == "bgp" or k == "group":
        return subst(el, mu)
    if k == "sub":
        # variables not projected are local to the sub-select; projected ones are substituted
        inner = {v: x for v, x in mu.items() if v in el[1]}
        return ("sub", el[1], subst(el[2], inner), el[3])
    return el


def _val2(t, mu):
    if isinstance(t, tuple) and t[0] == "T":
        return t[1]
    return val(t, mu)


def compatible(a, b):
    return all(b[k] == v for k, v in a.items() if k in b)


def match_bgp(triples, G):
    sols = [{}]
    for (s, p, o) in triples:
        new = []
        for mu in sols:
            for t in G:
                m2 = dict(mu)
                ok = True
                for pat, x in zip((s, p, o), t):
                    if isinstance(pat, tuple) and pat[0] == "T":
                        if pat[1] != x:
                            ok = False
                            break
                    elif isinstance(pat, str) and pat.startswith("?"):
                        if pat in m2:
                            if m2[pat] != x:
                                ok = False
                                break
                        else:
                            m2[pat] = x
                    elif to_term(pat) != x:
                        ok = False
                        break
                if ok:
                    new.append(m2)
        sols = new
    return sols


def filter_ok(e, mu, G):
    try:
        return ebv(ev_expr2(e, mu, G))
    except ExprError:
        return False


def ev_expr2(e, mu, G):
    # expression evaluation where substituted terms ("T", x) may appear
    k = e[0]
    if k in ("=", "<", "!=", "+"):
        mu2 = dict(mu)
        args = []
        for i, t in enumerate(e[1:3]):
            if isinstance(t, tuple) and t[0] == "T":
                nm = f"?__s{i}"
                mu2[nm] = t[1]
                args.append(nm)
            else:
                args.append(t)
        return ev_expr((k, args[0], args[1]), mu2, G)
    if k == "term" and e[1] is True:
        return True
    if k == "!":
        return not ebv(ev_expr2(e[1], mu, G))
    if k in ("&&", "||"):
        res = []
        for sub in (e[1], e[2]):
            try:
                res.append(ebv(ev_expr2(sub, mu, G)))
            except ExprError:
                res.append(None)
        if k == "||":
            if True in res:
                return True
            if None in res:
                raise ExprError("error")
            return False
        if False in res:
            return False
        if None in res:
            raise ExprError("error")
        return True
    return ev_expr(e, mu, G)


def ref_eval(p, G):
    k = p[0]
    if k == "bgp":
        return match_bgp(p[1], G)
    if k == "group":
        cur = [{}]
        filters = []
        for el in p[1]:
            ek = el[0]
            if ek == "filter":
                filters.append(el[1])
            elif ek == "optional":
                inner = el[1]
                # LeftJoin(cur, P, F) where F = the filters at the top level of the optional group
                ifs = [x[1] for x in inner[1] if x[0] == "filter"] if inner[0] == "group" else []
                body = ("group", [x for x in inner[1] if x[0] != "filter"]) if inner[0] == "group" else inner
                right = ref_eval(body, G)
                out = []
                for a in cur:
                    hit = False
                    for b in right:
                        if compatible(a, b):
                            m = {**a, **b}
                            if all(filter_ok(f, m, G) for f in ifs):
                                out.append(m)
                                hit = True
                    if not hit:
                        out.append(a)
                cur = out
            elif ek == "minus":
                right = ref_eval(el[1], G)
                cur = [a for a in cur if not any(compatible(a, b) and (set(a) & set(b)) for b in right)]
            elif ek == "bind":
                out = []
                for a in cur:
                    try:
                        x = ev_expr2(el[1], a, G)
                        from rdflib import Literal
                        if isinstance(x, bool):
                            x = Literal(x)
                        out.append({**a, el[2]: x})
                    except ExprError:
                        out.append(a)
                cur = out
            else:
                if ek == "union":
                    right = ref_eval(el[1], G) + ref_eval(el[2], G)
                elif ek == "values":
                    right = [{v: to_term(x) for v, x in zip(el[1], row) if x is not None} for row in el[2]]
                elif ek == "sub":
                    rows = [{v: m[v] for v in el[1] if v in m} for m in ref_eval(el[2], G)]
                    if el[3]:
                        seen, r2 = set(), []
                        for m in rows:
                            key = tuple(sorted(m.items()))
                            if key not in seen:
                                seen.add(key)
                                r2.append(m)
                        rows = r2
                    right = rows
                else:
                    right = ref_eval(el, G)
                cur = [{**a, **b} for a in cur for b in right if compatible(a, b)]
        return [m for m in cur if all(filter_ok(f, m, G) for f in filters)]
    raise ValueError(k)


# ------------------------------------------------------------------ query space
def T(*xs):
    return ("bgp", [tuple(xs)])


ATOMS = [T("?x", ":p", "?y"), T("?x", ":q", "?v"), T("?y", ":q", "?w"), T("?y", ":p", "?z"), T("?x", ":r", "?u"),
         T("?z", ":q", "?v"), ("bgp", [("?x", ":p", "?y"), ("?y", ":p", "?z")]), T("?x", "?pp", ":a"), T("?s", "?pp", "?o")]
EXPRS = [("=", "?v", 0), ("<", "?v", 1), ("=", "?x", ":a"), ("!=", "?x", "?z"), ("bound", "?v"), ("!", ("bound", "?w")),
         ("||", ("=", "?v", 1), ("=", "?x", ":a")), ("&&", ("<", "?v", 1), ("=", "?w", 1)),
         ("||", ("<", "?u", 1), ("=", "?x", ":a")), ("!", ("&&", ("<", "?u", 1), ("=", "?x", ":nowhere"))),
         ("=", "?u", '""'), ("exists", T("?y", ":q", "?w")), ("notexists", T("?x", ":q", 0)),
         ("notexists", ("group", [T("?y", ":p", "?z"), ("filter", ("=", "?z", "?x"))])),
         ("=", "?v", "?w")]


def gen_queries(tier):
    out = []
    A = ATOMS
    # systematic two-level combinations
    for a in A[:6]:
        for b in A[:6]:
            if a is b:
                continue
            out.append(("group", [a, b]))
            out.append(("group", [a, ("optional", ("group", [b]))]))
            out.append(("group", [a, ("minus", ("group", [b]))]))
            out.append(("group", [("union", ("group", [a]), ("group", [b]))]))
    for a in A[:5]:
        for e in EXPRS:
            out.append(("group", [a, ("filter", e)]))
            out.append(("group", [A[0], ("optional", ("group", [a, ("filter", e)]))]))
            out.append(("group", [("filter", e), a, A[1]]))
    for a in A[:4]:
        out.append(("group", [a, ("bind", ("+", "?v", 1), "?n")]))
        out.append(("group", [a, ("bind", ("=", "?x", ":a"), "?n"), ("filter", ("term", "?n"))]))
        out.append(("group", [a, ("values", ["?x"], [[":a"], [":b"]])]))
        out.append(("group", [("values", ["?x", "?v"], [[":a", None], [None, 1]]), a]))
        out.append(("group", [a, ("sub", ["?x"], ("group", [A[1]]), False)]))
        out.append(("group", [a, ("sub", ["?y"], ("group", [A[0]]), True)]))
        out.append(("group", [("sub", ["?x"], ("group", [A[0], A[3]]), False), a]))
        out.append(("group", [a, ("optional", ("group", [A[1], ("optional", ("group", [A[2]]))]))]))
        out.append(("group", [a, ("optional", ("group", [A[2]])), ("optional", ("group", [A[1]]))]))
        out.append(("group", [a, ("optional", ("group", [A[1]])), ("filter", ("!", ("bound", "?v")))]))
        out.append(("group", [a, ("minus", ("group", [T("?a", ":p", "?b")]))]))
        out.append(("group", [("group", [a, ("filter", ("=", "?x", ":a"))]), A[2]]))
        out.append(("group", [a, ("group", [("filter", ("bound", "?x")), A[1]])]))
        out.append(("group", [a, ("union", ("group", [A[1]]), ("group", [A[4], ("filter", ("=", "?u", '""'))]))]))
    # not well-designed: variables shared between the outside and the inside of OPTIONAL { .. MINUS/OPTIONAL .. }
    out.append(("group", [T("?y", ":q", "?w"), ("optional", ("group", [T("?z", ":q", "?v"), ("minus", ("group", [T("?y", ":r", "?u")]))]))]))
    out.append(("group", [T("?x", ":p", "?y"), ("optional", ("group", [T("?y", ":q", "?w"), ("optional", ("group", [T("?x", ":q", "?v")]))]))]))
    out.append(("group", [T("?x", ":p", "?y"), ("optional", ("group", [T("?z", ":q", "?w"), ("filter", ("=", "?z", "?y"))]))]))
    out.append(("group", [T("?x", ":p", "?y"), ("minus", ("group", [T("?z", ":q", "?w"), ("filter", ("=", "?z", "?y"))]))]))
    out.append(("group", [T("?x", ":p", "?y"), ("union", ("group", [("filter", ("bound", "?x"))]), ("group", [T("?x", ":q", "?v")]))]))
    # a sub-select inside OPTIONAL whose hidden variable ?v is bound outside
    out.append(("group", [T("?x", ":q", "?v"), ("optional", ("group", [T("?x", ":p", "?y"), ("sub", ["?y"], ("group", [T("?y", ":q", "?v")]), False)]))]))
    rnd = random.Random(4)
    n_rand = 150 if tier == "quick" else 1500

    def atom_vars(a):
        return {x for t in a[1] for x in t if isinstance(x, str) and x.startswith("?")}

    def expr_vars(e):
        out = set()
        for x in e[1:]:
            if isinstance(x, str) and x.startswith("?"):
                out.add(x)
            elif isinstance(x, tuple):
                if x and x[0] in ("bgp", "group"):
                    out |= {"?__pattern__"}          # EXISTS patterns: only used where the generator allows them
                else:
                    out |= expr_vars(x)
        return out

    def pick_filter(in_scope, allow_exists):
        """a filter whose variables are all bound by triple patterns of the same group (filters that look at variables
        of an enclosing group are the known top-down/bottom-up difference: explicit cases above, not random ones)"""
        cands = [e for e in EXPRS if expr_vars(e) <= in_scope or (allow_exists and "exists" in e[0])]
        return rnd.choice(cands) if cands else None

    def rpat(d, depth=0, no_sub=False):
        r = rnd.random()
        if d == 0 or r < 0.3:
            return rnd.choice(A)
        first = rnd.choice(A)
        els = [first]
        here = set(atom_vars(first))
        for _ in range(rnd.randint(1, 3)):
            c = rnd.random()
            if c < 0.25:
                a = rnd.choice(A)
                els.append(a)
                here |= atom_vars(a)
            elif c < 0.45:
                if depth > 0:
                    continue       # OPTIONAL below the top level is where top-down and bottom-up evaluation part ways
                inner = rpat(d - 1, depth + 1, no_sub=True)     # (sub-select under OPTIONAL: explicit case above)
                iv = atom_vars(inner) if inner[0] == "bgp" else set()
                f = pick_filter(here | iv, False) if rnd.random() < 0.4 and inner[0] == "bgp" else None
                els.append(("optional", ("group", [inner] + ([("filter", f)] if f else []))))
            elif c < 0.55:
                if depth == 0:
                    els.append(("minus", ("group", [rpat(d - 1, depth + 1)])))
            elif c < 0.7:
                f = pick_filter(here, depth == 0)
                if f:
                    els.append(("filter", f))
            elif c < 0.8:
                els.append(("union", ("group", [rpat(d - 1, depth + 1, no_sub)]), ("group", [rpat(d - 1, depth + 1, no_sub)])))
            elif c < 0.9:
                if no_sub:
                    continue
                els.append(("sub", rnd.sample(["?x", "?y", "?v"], 2), ("group", [rpat(d - 1, depth + 1)]), rnd.random() < 0.3))
            else:
                els.append(("group", [rpat(d - 1, depth + 1, no_sub)]))
        return ("group", els)
    for _ in range(n_rand):
        out.append(rpat(2))
    return out


def ms_ref(rows):
    return Counter(tuple(sorted((k[1:], v.n3()) for k, v in m.items())) for m in rows)


def ms_rdflib(res):
    return Counter(tuple(sorted((str(k), v.n3()) for k, v in r.asdict().items())) for r in res)


class Algebra(Suite):
    chunk = 8

    def bound(self, tier):
        return ("~550 (thorough ~1900) queries over 9 triple-pattern atoms and 15 filter expressions: all ordered pairs under "
                "join / OPTIONAL / MINUS / UNION, filters in every position (group start, end, inside OPTIONAL) incl. error "
                "cases (unbound, type error under ||, &&, !), EXISTS / NOT EXISTS with correlated variables, BIND, VALUES with "
                "UNDEF, sub-SELECT with hidden variables, nested and sequential OPTIONAL, plus pseudo-random nestings of "
                "depth 2; data: 5 (thorough 41) subsets of an 8-triple universe with a cycle, 0 and \"\" literals; SELECT * "
                "solution multisets, ASK and CONSTRUCT derived from them")

    def enumerate(self, tier):
        nq = len(gen_queries(tier))
        for qi in range(nq):
            for gi in range(len(data_graphs(tier))):
                yield {"q": qi, "g": gi, "tier": tier}

    def check(self, case):
        from rdflib import Graph
        q = _QUERIES(case["tier"])[case["q"]]
        triples = data_graphs(case["tier"])[case["g"]]
        g = Graph()
        for t in triples:
            g.add(t)
        text = PFX + "SELECT * WHERE " + render(q)
        exp = ms_ref(ref_eval(q, triples))
        try:
            got = ms_rdflib(g.query(text))
        except Exception as e:  # noqa
            return f"raises: {type(e).__name__}: {str(e)[:100]} on {text[len(PFX):]!r}"
        if got != exp:
            only_r = list((got - exp).items())[:2]
            only_e = list((exp - got).items())[:2]
            return (f"solutions-differ[{shape(q)}]: {text[len(PFX):]!r} on graph #{case['g']}: rdflib-only {only_r} "
                    f"algebra-only {only_e}")
        ask = bool(g.query(PFX + "ASK " + render(q)).askAnswer)
        if ask != (sum(exp.values()) > 0):
            return f"ask: ASK {render(q)!r} is {ask}, solutions {sum(exp.values())}"
        if case["g"] == 2 and case["q"] % 7 == 0:
            cg = set(g.query(PFX + "CONSTRUCT { ?x :made ?y } WHERE " + render(q)).graph)
            from rdflib import URIRef
            want = {(dict(m).get("x"), dict(m).get("y")) for m in exp}
            want = {(s, o) for s, o in want if s is not None and o is not None and not s.startswith('"')}
            if {(s.n3(), o.n3()) for s, p_, o in cg} != want:
                return f"construct: CONSTRUCT over {render(q)!r} differs from the template instantiated over the solutions"
        if case["q"] % 3 == 0:
            # a template blank node is fresh per solution OCCURRENCE: n equal solutions give n sub-graphs
            cg = g.query(PFX + "CONSTRUCT { [] :made ?y } WHERE " + render(q)).graph
            want_n = sum(n for m, n in exp.items() if "y" in dict(m))
            if len(cg) != want_n:
                return (f"construct-bnodes: CONSTRUCT {{ [] :made ?y }} over {render(q)!r} on graph #{case['g']} gives "
                        f"{len(cg)} triples, the solution multiset has {want_n} solutions binding ?y")
        return None

    def classify(self, case, msg):
        return msg.split(":")[0]


_QC = {}


def _QUERIES(tier):
    if tier not in _QC:
        _QC[tier] = gen_queries(tier)
    return _QC[tier]


def shape(q):
    """coarse shape of a query for classifying differences"""
    ks = []

    def walk(p, d):
        if p[0] == "group":
            for el in p[1]:
                if el[0] in ("optional", "minus"):
                    ks.append(el[0] + str(d))
                    walk(el[1], d + 1)
                elif el[0] == "union":
                    ks.append("union")
                    walk(el[1], d + 1)
                    walk(el[2], d + 1)
                elif el[0] == "sub":
                    ks.append("sub")
                    walk(el[2], d + 1)
                elif el[0] == "filter":
                    ks.append("filter" + str(d) + ("-exists" if "exists" in str(el[1]) else ""))
                elif el[0] == "group":
                    ks.append("group")
                    walk(el, d + 1)
                elif el[0] in ("bind", "values"):
                    ks.append(el[0])
    walk(q, 0)
    return "+".join(sorted(set(ks))) or "bgp"


# ------------------------------------------------------------------ GRAPH over a dataset
def dataset_for(gi, tier):
    from rdflib import Dataset, URIRef
    Gs = data_graphs(tier)
    n = len(Gs)
    parts = {"default": Gs[gi], "urn:x:g1": Gs[(gi + 1) % n], "urn:x:g2": Gs[(gi + 2) % n], "urn:x:a": Gs[(gi + 3) % n]}
    ds = Dataset()
    for name, ts in parts.items():
        for t in ts:
            if name == "default":
                ds.add(t)
            else:
                ds.add(t + (URIRef(name),))
    return ds, parts


GRAPH_FORMS = ["GRAPH ?g {P}", "GRAPH :g1 {P}", "{P} GRAPH ?g {Q}", "GRAPH ?g {P} GRAPH ?h {Q}", "GRAPH ?x {P}",
               "GRAPH ?g {P} {Q}", "{Q} OPTIONAL { GRAPH ?g {P} }", "GRAPH :nowhere {P}", "GRAPH ?g { {P} UNION {Q} }",
               "{Q} MINUS { GRAPH ?g {P} }", "GRAPH ?g {P} FILTER(?g != :g1)",
               # a UNION inside GRAPH whose first branch has a solution before the second branch is evaluated (ground
               # triple, with and without BIND): both branches are matched against the named graph
               "GRAPH :g1 { {P} UNION {Q} }", "GRAPH :g1 { { :a :p :b BIND(1 AS ?t) } UNION {Q} }",
               "GRAPH ?g { { :a :p :b } UNION {Q} }"]


class GraphPatterns(Suite):
    chunk = 8

    def bound(self, tier):
        return ("11 forms of GRAPH use (variable / constant / unknown graph name, graph variable shared with the pattern, "
                "joined, optional, minus, union inside) x pairs of the first 6 atoms x datasets with a default graph and 3 "
                "named graphs (one named like a node of the data, one possibly empty)")

    def enumerate(self, tier):
        for fi in range(len(GRAPH_FORMS)):
            for i in range(6):
                for j in range(6 if tier == "thorough" else 3):
                    for gi in range(len(data_graphs(tier))):
                        yield {"f": fi, "i": i, "j": j, "g": gi, "tier": tier}

    def check(self, case):
        from rdflib import URIRef
        ds, parts = dataset_for(case["g"], case["tier"])
        P, Q = ATOMS[case["i"]], ATOMS[case["j"]]
        form = GRAPH_FORMS[case["f"]]
        text = form.replace("{P}", render(P)).replace("{Q}", render(Q))
        named = {k: v for k, v in parts.items() if k != "default" and v}

        def gsols(pat, gterm):
            out = []
            if gterm.startswith("?"):
                for name, ts in named.items():
                    for m in ref_eval(pat, ts):
                        if gterm in m and m[gterm] != URIRef(name):
                            continue
                        out.append({**m, gterm: URIRef(name)})
            else:
                out = list(ref_eval(pat, parts.get("urn:x:" + gterm[1:], []))) if ("urn:x:" + gterm[1:]) in named else []
            return out

        def join(A, B):
            return [{**a, **b} for a in A for b in B if compatible(a, b)]
        D = parts["default"]
        f = case["f"]
        if f == 0:
            exp = gsols(P, "?g")
        elif f == 1:
            exp = gsols(P, ":g1")
        elif f == 2:
            exp = join(ref_eval(P, D), gsols(Q, "?g"))
        elif f == 3:
            exp = join(gsols(P, "?g"), gsols(Q, "?h"))
        elif f == 4:
            exp = gsols(P, "?x")
        elif f == 5:
            exp = join(gsols(P, "?g"), ref_eval(Q, D))
        elif f == 6:
            R = gsols(P, "?g")
            exp = []
            for a in ref_eval(Q, D):
                hit = [{**a, **b} for b in R if compatible(a, b)]
                exp += hit or [a]
        elif f == 7:
            exp = []
        elif f == 8:
            exp = gsols(P, "?g") + gsols(Q, "?g")
        elif f == 9:
            R = gsols(P, "?g")
            exp = [a for a in ref_eval(Q, D) if not any(compatible(a, b) and set(a) & set(b) for b in R)]
        elif f == 10:
            exp = [m for m in gsols(P, "?g") if m["?g"] != URIRef("urn:x:g1")]
        elif f == 11:
            exp = gsols(P, ":g1") + gsols(Q, ":g1")
        elif f == 12:
            from rdflib import Literal
            ground = (URIRef("urn:x:a"), URIRef("urn:x:p"), URIRef("urn:x:b"))
            exp = ([{"?t": Literal(1)}] if ground in named.get("urn:x:g1", []) else []) + gsols(Q, ":g1")
        else:
            ground = (URIRef("urn:x:a"), URIRef("urn:x:p"), URIRef("urn:x:b"))
            exp = [{"?g": URIRef(name)} for name, ts in named.items() if ground in ts] + gsols(Q, "?g")
        try:
            got = ms_rdflib(ds.query(PFX + "SELECT * WHERE { " + text + " }"))
        except Exception as e:  # noqa
            return f"raises: {type(e).__name__}: {str(e)[:100]} on {text!r}"
        if got != ms_ref(exp):
            only_r = list((got - ms_ref(exp)).items())[:2]
            only_e = list((ms_ref(exp) - got).items())[:2]
            return f"graph-pattern-differs[{form}]: {text!r} on dataset #{case['g']}: rdflib-only {only_r} algebra-only {only_e}"
        return None

    def classify(self, case, msg):
        return msg.split(":")[0]


SUITES = {"algebra": Algebra(), "graph-patterns": GraphPatterns()}
