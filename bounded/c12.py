"""Bounded stand-in for C12: parsing only adds; blank-node labels are scoped to one parse call."""
from __future__ import annotations

import itertools

from bounded.run import Suite

DOCS = {   # one blank node _:b0 used twice; triple forms only
    "nt": '_:b0 <urn:p> "x" .\n_:b0 <urn:q> _:b0 .\n',
    "turtle": '_:b0 <urn:p> "x" .\n_:b0 <urn:q> _:b0 .\n',
    "n3": '_:b0 <urn:p> "x" .\n_:b0 <urn:q> _:b0 .\n',
    "xml": '<?xml version="1.0"?><rdf:RDF xmlns:rdf="http://www.w3.org/1999/02/22-rdf-syntax-ns#" xmlns:u="urn:">'
           '<rdf:Description rdf:nodeID="b0"><u:p>x</u:p><u:q rdf:nodeID="b0"/></rdf:Description></rdf:RDF>',
    "json-ld": '[{"@id": "_:b0", "urn:p": [{"@value": "x"}], "urn:q": [{"@id": "_:b0"}]}]',
    "hext": '["_:b0", "urn:p", "x", "http://www.w3.org/2001/XMLSchema#string", "", ""]\n'
            '["_:b0", "urn:q", "_:b0", "localId", "", ""]\n',
}
QDOCS = {  # the same label in the default graph and in two named graphs of ONE document: one node
    "nquads": '_:b0 <urn:p> "x" .\n_:b0 <urn:p> "y" <urn:g1> .\n_:b0 <urn:p> "z" <urn:g2> .\n',
    "trig": '_:b0 <urn:p> "x" .\n<urn:g1> { _:b0 <urn:p> "y" . }\n<urn:g2> { _:b0 <urn:p> "z" . }\n',
    "trix": '<TriX xmlns="http://www.w3.org/2004/03/trix/trix-1/"><graph><triple><id>b0</id><uri>urn:p</uri>'
            '<plainLiteral>x</plainLiteral></triple></graph><graph><uri>urn:g1</uri><triple><id>b0</id><uri>urn:p</uri>'
            '<plainLiteral>y</plainLiteral></triple></graph><graph><uri>urn:g2</uri><triple><id>b0</id><uri>urn:p</uri>'
            '<plainLiteral>z</plainLiteral></triple></graph></TriX>',
    "json-ld": '[{"@id": "_:b0", "urn:p": [{"@value": "x"}]}, {"@id": "urn:g1", "@graph": [{"@id": "_:b0", "urn:p": '
               '[{"@value": "y"}]}]}, {"@id": "urn:g2", "@graph": [{"@id": "_:b0", "urn:p": [{"@value": "z"}]}]}]',
    "hext": '["_:b0", "urn:p", "x", "http://www.w3.org/2001/XMLSchema#string", "", ""]\n'
            '["_:b0", "urn:p", "y", "http://www.w3.org/2001/XMLSchema#string", "", "urn:g1"]\n'
            '["_:b0", "urn:p", "z", "http://www.w3.org/2001/XMLSchema#string", "", "urn:g2"]\n',
}


def bnodes_of(quads):
    from rdflib import BNode
    return {x for q in quads for x in q[:3] if isinstance(x, BNode)}


def all_quads(ds):
    from rdflib import Graph
    out = set()
    for c in list(ds.store.contexts()):
        for t in Graph(store=ds.store, identifier=c.identifier):
            out.add(t + (c.identifier,))
    return out


class AddOnly(Suite):
    chunk = 4

    def bound(self, tier):
        return ("every syntax (nt, turtle, n3, xml, json-ld, hext, nquads, trig, trix) parsed into 4 kinds of sink holding "
                "content (a Graph; a Dataset with default-graph and named-graph content incl. a blank-node-named graph; a "
                "named-graph view on that dataset's store; the dataset's default graph view): every quad present before "
                "is present afterwards, in its graph; parsing twice")

    def enumerate(self, tier):
        fmts = list(DOCS) + [f for f in QDOCS if f not in DOCS]
        for f in fmts:
            for sink in ("graph", "dataset", "named-view", "default-view"):
                yield {"format": f, "sink": sink}

    def check(self, case):
        from rdflib import Graph, Dataset, URIRef, BNode, Literal
        f = case["format"]
        doc = DOCS.get(f) or QDOCS[f]
        s, p = URIRef("urn:s"), URIRef("urn:p")
        if case["sink"] == "graph":
            g = Graph()
            g.add((s, p, Literal("old")))
            g.add((BNode("b0"), p, Literal("old-bnode")))
            target, holder = g, None
        else:
            ds = Dataset()
            ds.add((s, p, Literal("old-default")))
            ds.add((BNode("b0"), p, Literal("old-bnode")))
            ds.add((s, p, Literal("old-g1"), URIRef("urn:g1")))
            ds.add((s, p, Literal("old-bn"), BNode("graphname")))
            holder = ds
            target = {"dataset": ds, "named-view": Graph(store=ds.store, identifier=URIRef("urn:other")),
                      "default-view": ds.default_graph}[case["sink"]]
        before = all_quads(holder) if holder is not None else {t + (None,) for t in target}
        try:
            target.parse(data=doc, format=f)
            target.parse(data=doc, format=f)
        except Exception as e:  # noqa
            if case["sink"] == "graph" and f in ("nquads", "trig", "trix") or True:
                return None if "context" in str(e).lower() or "quad" in str(e).lower() else \
                    f"parse-raises: {f} into {case['sink']}: {type(e).__name__}: {e}"
        after = all_quads(holder) if holder is not None else {t + (None,) for t in target}
        lost = before - after
        if lost:
            return (f"removes-existing: parsing {f} into {case['sink']} removed existing quads "
                    f"{sorted(map(str, lost))[:3]}")
        return None

    def classify(self, case, msg):
        return msg.split(":")[0] + ":" + case["format"]


class LabelScope(Suite):
    chunk = 4

    def bound(self, tier):
        return ("label _:b0 (and a label that looks like a generated id) in two documents / the same document twice / "
                "an existing graph: separate parse calls give distinct nodes, one document gives one node - also across "
                "the named graphs of one nquads/trig/trix/json-ld/hext document; every syntax, Graph and Dataset sinks")

    def enumerate(self, tier):
        for f in DOCS:
            for label in ("b0", "N0123456789abcdef0123456789abcdef"):
                yield {"format": f, "label": label, "quad": False}
        for f in QDOCS:
            for label in ("b0", "N0123456789abcdef0123456789abcdef"):
                yield {"format": f, "label": label, "quad": True}

    def check(self, case):
        from rdflib import Graph, Dataset, BNode, URIRef, Literal
        f, label = case["format"], case["label"]
        doc = (QDOCS if case["quad"] else DOCS)[f].replace("b0", label)
        if case["quad"]:
            ds = Dataset()
            ds.parse(data=doc, format=f)
            q1 = all_quads(ds)
            n1 = bnodes_of(q1)
            if len(n1) != 1:
                return (f"one-document-one-node: {f}: label _:{label} used in three graphs of one document gives "
                        f"{len(n1)} nodes")
            if len(q1) != 3:
                return f"quad-count: {f}: expected 3 quads, got {len(q1)}"
            ds.parse(data=doc, format=f)
            n2 = bnodes_of(all_quads(ds))
            if len(n2) != 2:
                return f"separate-parses-merge: {f}: the same document parsed twice into a Dataset gives {len(n2)} blank nodes, expected 2"
            return None
        g = Graph()
        existing = BNode(label)
        g.add((existing, URIRef("urn:old"), Literal("old")))
        g.parse(data=doc, format=f)
        nodes = bnodes_of({t + (None,) for t in g})
        if len(nodes) != 2:
            return (f"merges-with-existing: {f}: the target graph already held BNode({label!r}); after parsing a document "
                    f"using _:{label} there are {len(nodes)} blank nodes, expected 2")
        g.parse(data=doc, format=f)
        nodes = bnodes_of({t + (None,) for t in g})
        if len(nodes) != 3:
            return f"separate-parses-merge: {f}: same document twice gives {len(nodes) - 1} document nodes, expected 2"
        a, b = Graph(), Graph()
        a.parse(data=doc, format=f)
        b.parse(data=doc, format=f)
        from rdflib.compare import isomorphic
        if not isomorphic(a, b):
            return f"not-isomorphic: {f}: the same document parsed into two fresh graphs gives non-isomorphic graphs"
        return None

    def classify(self, case, msg):
        return msg.split(":")[0] + ":" + case["format"]


SUITES = {"add-only": AddOnly(), "label-scope": LabelScope()}
