"""Bounded stand-in for C02: Dataset histories against a dict name -> set of triples."""
from __future__ import annotations

import itertools

from bounded.run import Suite


def vocab():
    from rdflib import URIRef, BNode, Literal
    T = [(URIRef("urn:s"), URIRef("urn:p"), URIRef("urn:o")), (URIRef("urn:s"), URIRef("urn:p"), Literal(0)),
         (BNode("b"), URIRef("urn:p"), Literal(""))]
    N = [URIRef("urn:g1"), BNode("g2"), None]      # None = default graph
    return T, N


def match(pat, t):
    return all(a is None or a == b for a, b in zip(pat, t))


class DatasetHistories(Suite):
    chunk = 100

    def bound(self, tier):
        n = 3 if tier == "quick" else 4
        return (f"all histories of <= {n} operations (add quad, remove quad/pattern with and without graph, "
                f"remove_graph, graph(name), add through a Graph view, remove through a Graph view) over 3 triples x "
                f"3 graphs (IRI-named, blank-node-named, default), default_union on/off; after every step quads(), "
                f"graphs(), per-graph views, quad membership, triples(context=...) incl. an EMPTY and an UNKNOWN graph, "
                f"and the union view are compared with a dict model")

    def ops(self):
        ops = []
        for ti in range(3):
            for ni in range(3):
                ops.append(("add", ti, ni))
                ops.append(("remove", ti, ni))
                ops.append(("view-add", ti, ni))
            ops.append(("remove-all-graphs", ti))
        for ni in range(3):
            ops.append(("remove-graph", ni))
            ops.append(("remove-pattern", ni))
            ops.append(("graph", ni))
        ops.append(("add-none-graph", 0))
        return ops

    def enumerate(self, tier):
        n = 3 if tier == "quick" else 4
        ops = self.ops()
        for du in (False, True):
            for k in range(1, n + 1):
                for h in itertools.product(ops, repeat=k):
                    if k == n and tier == "quick" and h[0][0] not in ("add", "view-add"):
                        continue
                    yield {"default_union": du, "history": [list(o) for o in h]}

    def nontrivial(self, case):
        return len(case["history"]) > 1

    def check(self, case):
        from rdflib import Dataset, Graph, URIRef
        from rdflib.graph import DATASET_DEFAULT_GRAPH_ID as DID
        T, N = vocab()
        ds = Dataset(default_union=case["default_union"])
        model = {}     # name -> set ; name None = default graph
        known = {DID}

        def name(ni):
            return DID if N[ni] is None else N[ni]
        deferred = None
        for i, op in enumerate(case["history"]):
            k = op[0]
            if k == "add":
                t, n = T[op[1]], N[op[2]]
                ds.add(t + (n,)) if n is not None else ds.add(t)
                model.setdefault(name(op[2]), set()).add(t)
                known.add(name(op[2]))
            elif k == "add-none-graph":
                ds.add(T[0] + (None,))
                model.setdefault(DID, set()).add(T[0])
            elif k == "view-add":
                g = Graph(store=ds.store, identifier=name(op[2]))
                g.add(T[op[1]])
                model.setdefault(name(op[2]), set()).add(T[op[1]])
                known.add(name(op[2]))
            elif k == "remove":
                t, n = T[op[1]], name(op[2])
                ds.remove(t + (n,))
                model.get(n, set()).discard(t)
            elif k == "remove-all-graphs":
                ds.remove(T[op[1]])
                for s_ in model.values():
                    s_.discard(T[op[1]])
            elif k == "remove-pattern":
                ds.remove((None, None, None, name(op[1])))
                model[name(op[1])] = set()
            elif k == "remove-graph":
                ds.remove_graph(name(op[1]))
                model[name(op[1])] = set()
                known.discard(name(op[1]))
                known.add(DID)
            elif k == "graph":
                ds.graph(name(op[1]))
                known.add(name(op[1]))
            m = self.observe(ds, model, known, case["default_union"], f"after step {i} {op}")
            if m and not m.startswith("quads-restricted"):
                return m
            deferred = deferred or m
        return deferred

    def observe(self, ds, model, known, du, where):
        from rdflib import Graph, URIRef
        from rdflib.graph import DATASET_DEFAULT_GRAPH_ID as DID
        T, N = vocab()
        names = [DID if n is None else n for n in N]
        restricted = None
        exp_quads = {t + (n,) for n, ts in model.items() for t in ts}
        got = list(ds.quads())
        gq = {(s, p, o, DID if c is None else c) for s, p, o, c in got}
        if len(got) != len(set(got)):
            return f"quads-duplicates: {where}: quads() yields duplicates"
        if gq != exp_quads:
            return f"quads: {where}: quads()={sorted(map(str, gq))} expected {sorted(map(str, exp_quads))}"
        gnames = [g.identifier for g in ds.graphs()]
        if len(gnames) != len(set(gnames)):
            return f"graphs-duplicates: {where}: graphs() lists a graph twice: {gnames}"
        if DID not in gnames:
            return f"default-graph-exists: {where}: graphs() does not list the default graph"
        for n in names:
            if model.get(n) and n not in gnames:
                return f"graphs: {where}: graph {n} holds triples but is not listed by graphs()"
        for n in gnames:
            if n not in known and not model.get(n):
                return f"graphs: {where}: graphs() lists {n} which was never created or was removed"
        unknown = URIRef("urn:unknown")
        for n in names + [unknown]:
            exp = model.get(n, set())
            view = Graph(store=ds.store, identifier=n)
            if set(view) != exp:
                return f"view: {where}: Graph(store,{n}) holds {sorted(map(str, view))} expected {sorted(map(str, exp))}"
            for t in T:
                for pat in ((t[0], None, t[2]), (t[0], t[1], None), (None, t[1], t[2]), (t[0], None, None),
                            (None, None, t[2]), (None, t[1], None), t):
                    e2 = {x for x in exp if match(pat, x)}
                    if set(view.triples(pat)) != e2:
                        return (f"view-pattern: {where}: Graph(store,{n}).triples({pat}) = "
                                f"{sorted(map(str, view.triples(pat)))} expected {sorted(map(str, e2))}")
                    if not (du and n == DID) and ((tuple(pat) + (n,)) in ds) != bool(e2):
                        return (f"quad-membership-wildcard: {where}: ({pat}, {n}) in dataset is {(tuple(pat) + (n,)) in ds}, "
                                f"the graph holds {len(e2)} matching triples")
            if not (du and n == DID) and (((None, None, None, n) in ds) != bool(exp)):
                return f"quad-membership-wildcard: {where}: (None, None, None, {n}) in dataset is {(None, None, None, n) in ds}, the graph holds {len(exp)} triples"
            if du and n == DID:
                continue    # with default_union the default graph asked through the dataset is the union
            got_t = set(ds.triples((None, None, None), context=view))
            if got_t != exp:
                return (f"restricted-read: {where}: triples(context=<graph {n}, {len(exp)} triples>) = "
                        f"{sorted(map(str, got_t))} expected {sorted(map(str, exp))}")
            got_q = set(ds.triples((None, None, None, n)))
            if got_q != exp:
                return f"restricted-read: {where}: triples((None,None,None,{n})) = {sorted(map(str, got_q))} expected {sorted(map(str, exp))}"
            for t in T:
                if ((t + (n,)) in ds) != (t in exp):
                    return f"quad-membership: {where}: ({t}, {n}) in dataset is {(t + (n,)) in ds}, expected {t in exp}"
                if ((t + (view,)) in ds) != (t in exp):
                    return f"quad-membership: {where}: ({t}, <graph object {n}>) in dataset is {(t + (view,)) in ds}, expected {t in exp}"
            rq = {(s, p, o, DID if c is None else c) for s, p, o, c in ds.quads((None, None, None, n))}
            if rq != {t + (n,) for t in exp} and restricted is None:
                # reported LAST: this clause is an open finding (C02-quads-graph-restriction-leaks) and must not stop
                # the case before the other observations and the later steps of the history have been compared
                restricted = f"quads-restricted: {where}: quads((None,None,None,{n})) = {sorted(map(str, rq))} expected only graph {n}"
        union = set().union(*model.values()) if model else set()
        if du:
            if set(ds.triples((None, None, None))) != union:
                return f"union: {where}: default_union view differs from the union of the graphs"
        else:
            if set(ds.triples((None, None, None))) != model.get(DID, set()):
                return f"default-graph-read: {where}: triples() without a graph differs from the default graph"
        if len(ds) != len(union):
            return f"len: {where}: len(dataset)={len(ds)} expected {len(union)} (size of the union)"
        return restricted

    def classify(self, case, msg):
        return msg.split(":")[0]


SUITES = {"dataset-histories": DatasetHistories()}
