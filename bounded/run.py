#!/venv/bin/python
"""Bounded stand-in / replay runner.  Runs under /venv/bin/python against the real rdflib in /repo.

  run.py PROP --tier quick|thorough --out FILE          exhaustive small-scope run of PROP's suites
  run.py PROP --replay CASEFILE                         re-run one recorded case (exit 1 if it fails)
  run.py PROP --from-model MODELFILE --out FILE         try to concretise a solver model

Each property module bounded/<prop>.py exposes SUITES: dict name -> Suite(enumerate, check, describe).
`check(case)` returns None if the real code satisfies the property's concrete contract on that case,
else a string saying what failed.  Nothing here is ever counted as proved.
"""
from __future__ import annotations

import argparse
import importlib
import json
import os
import sys
import time
import traceback

sys.path.insert(0, os.path.dirname(os.path.dirname(os.path.abspath(__file__))))
REPO = os.environ.get("VERIF_REPO", "/repo")
if REPO not in sys.path:
    sys.path.insert(0, REPO)


def load(prop):
    return importlib.import_module(f"bounded.{prop.lower()}")


def _check_chunk(arg):
    prop, sname, cases = arg
    mod = load(prop)
    suite = mod.SUITES[sname]
    out = []
    nontriv = 0
    for case in cases:
        try:
            msg = suite.check(case)
        except Exception as e:  # an escaping exception is a property failure only if the suite says so
            msg = suite.on_exception(case, e) if hasattr(suite, "on_exception") else \
                f"unexpected {type(e).__name__}: {e}"
        if suite.nontrivial(case):
            nontriv += 1
        if msg:
            out.append((suite.classify(case, msg), suite.describe(case), msg))
    return len(cases), nontriv, out


def _chunks(gen, n):
    buf = []
    for x in gen:
        buf.append(x)
        if len(buf) >= n:
            yield buf
            buf = []
    if buf:
        yield buf


def run_suites(mod, tier, budget_s, seed, prop=None, jobs=16):
    import multiprocessing as mp
    out = {"suites": {}, "violations": [], "evaluations": 0, "distinct_nontrivial": 0, "samples": []}
    nsuites = max(1, len(mod.SUITES))
    with mp.Pool(jobs) as pool:
        for name, suite in mod.SUITES.items():
            st = time.time()
            per_suite = budget_s / nsuites
            n = nontriv = 0
            seen_classes = {}
            vio = []
            samples = []
            exhausted = True
            csize = getattr(suite, "chunk", 200)

            def feed():
                for ch in _chunks(suite.enumerate(tier), csize):
                    if time.time() - st > per_suite:
                        nonlocal_flag.append(1)
                        return
                    if len(samples) < 3:
                        samples.append(suite.describe(ch[len(ch) // 2]))
                    yield (prop, name, ch)
            nonlocal_flag = []
            for cnt, nt, bad in pool.imap_unordered(_check_chunk, feed(), chunksize=1):
                n += cnt
                nontriv += nt
                for cls, case, msg in bad:
                    if cls not in seen_classes:
                        seen_classes[cls] = 0
                    # keep several witnesses per class: a known finding must not hide a different violation that
                    # happens to fall into the same class (each witness is matched against the findings file)
                    if seen_classes[cls] < 60:
                        vio.append({"suite": name, "class": cls, "case": case, "message": msg})
                    seen_classes[cls] += 1
            if nonlocal_flag:
                exhausted = False
            out["suites"][name] = {"cases": n, "nontrivial": nontriv, "bound": suite.bound(tier),
                                   "exhaustive": exhausted, "seconds": round(time.time() - st, 2),
                                   "violation_classes": seen_classes}
            out["evaluations"] += n
            out["distinct_nontrivial"] += nontriv
            out["violations"].extend(vio)
            out["samples"].extend({"suite": name, "case": s_} for s_ in samples)
    return out


def main():
    ap = argparse.ArgumentParser()
    ap.add_argument("prop")
    ap.add_argument("--tier", default=os.environ.get("VERIF_TIER", "quick"))
    ap.add_argument("--out")
    ap.add_argument("--replay")
    ap.add_argument("--from-model")
    ap.add_argument("--budget", type=float, default=None)
    a = ap.parse_args()
    seed = int(os.environ.get("VERIF_SEED", "0"))
    mod = load(a.prop)
    if a.replay:
        rec = json.load(open(a.replay))
        case = rec.get("case", rec)
        suite = mod.SUITES[rec.get("suite") or case.get("suite")]
        c = suite.parse(case) if hasattr(suite, "parse") else case
        try:
            msg = suite.check(c)
        except Exception as e:
            msg = suite.on_exception(c, e) if hasattr(suite, "on_exception") else \
                f"unexpected {type(e).__name__}: {e}\n{traceback.format_exc()}"
        if msg:
            print(f"REPLAY FAILS: {msg}")
            print(f"VIOLATION property={a.prop} replay={a.replay}")
            sys.exit(1)
        print("REPLAY PASSES (the real code satisfies the property on this case)")
        sys.exit(0)
    if a.from_model:
        info = json.load(open(a.from_model))
        res = {"confirmed": []}
        for sname, suite in mod.SUITES.items():
            if not hasattr(suite, "from_model"):
                continue
            for case in suite.from_model(info):
                try:
                    msg = suite.check(case)
                except Exception as e:
                    msg = suite.on_exception(case, e) if hasattr(suite, "on_exception") else \
                        f"unexpected {type(e).__name__}: {e}"
                if msg:
                    res["confirmed"].append({"suite": sname, "class": suite.classify(case, msg),
                                             "case": suite.describe(case), "message": msg})
                    break
        json.dump(res, open(a.out, "w"), indent=1, default=str)
        return
    budget = a.budget or (120 if a.tier == "quick" else 1500)
    res = run_suites(mod, a.tier, budget, seed, prop=a.prop)
    if a.out:
        json.dump(res, open(a.out, "w"), indent=1, default=str)
    else:
        json.dump(res, sys.stdout, indent=1, default=str)


class Suite:
    """Helper base: subclasses define enumerate/check; the rest has defaults."""

    name = "suite"

    def bound(self, tier):
        return ""

    def nontrivial(self, case):
        return True

    def describe(self, case):
        return case

    def classify(self, case, msg):
        return msg.split(":")[0][:80]


if __name__ == "__main__":
    main()
