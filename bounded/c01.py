"""Bounded stand-in for C01: Graph histories against a Python set; iteration under mutation."""
from __future__ import annotations

import itertools

from bounded.run import Suite


def vocab():
    from rdflib import URIRef, BNode, Literal
    S = [URIRef("urn:s"), BNode("b1")]
    P = [URIRef("urn:p")]
    O = [URIRef("urn:o"), Literal(0), Literal("")]
    return S, P, O


def all_triples():
    S, P, O = vocab()
    return [(s, p, o) for s in S for p in P for o in O]


def all_patterns():
    S, P, O = vocab()
    return [(s, p, o) for s in S + [None] for p in P + [None] for o in O + [None]]


def match(pat, t):
    return all(a is None or a == b for a, b in zip(pat, t))


def observe(g, ref, where):
    """len, iteration, membership and all pattern shapes agree with the reference set"""
    items = list(g)
    if len(items) != len(set(items)):
        return f"duplicates: {where}: iteration yields duplicates {items}"
    if set(items) != ref:
        return f"iteration: {where}: iter(graph)={sorted(map(str, items))} expected {sorted(map(str, ref))}"
    if len(g) != len(ref):
        return f"len: {where}: len(graph)={len(g)} expected {len(ref)}"
    for t in all_triples():
        if (t in g) != (t in ref):
            return f"membership: {where}: ({t} in graph) is {t in g}, expected {t in ref}"
    for pat in all_patterns():
        got = list(g.triples(pat))
        exp = {t for t in ref if match(pat, t)}
        if len(got) != len(set(got)):
            return f"duplicates: {where}: triples({pat}) yields duplicates"
        if set(got) != exp:
            return f"pattern: {where}: triples({pat}) = {sorted(map(str, got))} expected {sorted(map(str, exp))}"
    return None


class GraphHistories(Suite):
    def bound(self, tier):
        n = 3 if tier == "quick" else 4
        return (f"all histories of <= {n} operations (add, remove(pattern with wildcards), set, +=, -= of a 2-triple "
                f"graph, add to a sibling graph on the same store) over 2 subjects x 1 predicate x 3 objects "
                f"(IRI, Literal(0), Literal('')), on Memory and SimpleMemory; after each step len/in/iter and all "
                f"24 pattern shapes are compared with a Python set; finally + - * ^ against a fixed operand")

    def ops(self):
        T = all_triples()
        ops = [("add", i) for i in range(len(T))]
        ops += [("remove", i) for i in range(len(all_patterns()))]
        ops += [("set", i) for i in range(len(T))]
        ops += [("iadd",), ("isub",), ("sibling-add", 0), ("sibling-add", 3), ("sibling-remove",)]
        return ops

    def enumerate(self, tier):
        n = 3 if tier == "quick" else 4
        ops = self.ops()
        for store in ("Memory", "SimpleMemory"):
            for k in range(1, n + 1):
                if store == "SimpleMemory" and k > 3:
                    continue
                for h in itertools.product(ops, repeat=k):
                    if k >= 3 and tier == "quick" and sum(1 for o in h if o[0] == "remove") > 1:
                        continue
                    yield {"store": store, "history": [list(o) for o in h]}

    def nontrivial(self, case):
        return len(case["history"]) > 1

    def check(self, case):
        from rdflib import Graph, URIRef
        T = all_triples()
        PATS = all_patterns()
        store = case["store"]
        g = Graph(store=store, identifier=URIRef("urn:g"))
        sib = Graph(store=g.store, identifier=URIRef("urn:sibling")) if store == "Memory" else None
        other = Graph()
        other.add(T[0])
        other.add(T[4])
        oset = {T[0], T[4]}
        ref = set()
        sibref = set()
        for i, op in enumerate(case["history"]):
            k = op[0]
            if k == "add":
                g.add(T[op[1]])
                ref.add(T[op[1]])
            elif k == "remove":
                pat = PATS[op[1]]
                g.remove(pat)
                ref = {t for t in ref if not match(pat, t)}
            elif k == "set":
                s, p, o = T[op[1]]
                g.set((s, p, o))
                ref = {t for t in ref if not (t[0] == s and t[1] == p)} | {(s, p, o)}
            elif k == "iadd":
                g += other
                ref |= oset
            elif k == "isub":
                g -= other
                ref -= oset
            elif k == "sibling-add":
                if sib is None:
                    continue
                sib.add(T[op[1]])
                sibref.add(T[op[1]])
            elif k == "sibling-remove":
                if sib is None:
                    continue
                sib.remove((None, None, None))
                sibref = set()
            m = observe(g, ref, f"after step {i} {op}")
            if m:
                return m
            if sib is not None:
                if set(sib) != sibref:
                    return f"isolation: after step {i} {op}: sibling graph holds {sorted(map(str, sib))} expected {sorted(map(str, sibref))}"
        for name, res, exp in (("+", g + other, ref | oset), ("-", g - other, ref - oset), ("*", g * other, ref & oset),
                               ("^", g ^ other, ref ^ oset)):
            if set(res) != exp or len(res) != len(exp):
                return f"operator: graph {name} other = {sorted(map(str, res))} expected {sorted(map(str, exp))}"
        if set(g) != ref or set(other) != oset:
            return "operator: binary operators changed an operand"
        return None

    def classify(self, case, msg):
        return msg.split(":")[0] + ":" + case["store"]


class IterationUnderMutation(Suite):
    """Memory only: an open triples() iterator interleaved with one or two mutations at every position."""

    def bound(self, tier):
        return ("Memory store, 2 graphs (the first context ever used, and another), start content = every subset "
                "pattern of 3 triples per graph (8x8), every pattern shape (24), one mutation (add/remove of each of "
                "8 triples (two with a predicate new to the store) or remove-all, in either graph) inserted after k = 1..3 next() calls"
                + ("" if tier == "quick" else "; thorough: two mutations"))

    def enumerate(self, tier):
        T = list(range(3))
        # triples 6 and 7 use a predicate no stored triple has (new keys in the second index level)
        muts = [("add", g, i) for g in (0, 1) for i in range(8)] + [("remove", g, i) for g in (0, 1) for i in range(6)] \
            + [("clear", g, 0) for g in (0, 1)]
        for a in range(8):
            for b in range(8):
                for pat in range(len(all_patterns())):
                    for which in (0, 1):
                        for k in (1, 2, 3):
                            for m in muts:
                                yield {"a": a, "b": b, "pattern": pat, "iterate": which, "after": k, "muts": [list(m)]}

    def nontrivial(self, case):
        return case["a"] or case["b"]

    def check(self, case):
        from rdflib import Graph, URIRef
        T = all_triples()
        T = T + [(T[0][0], URIRef("urn:p2"), T[0][2]), (T[3][0], URIRef("urn:p2"), T[1][2])]
        PATS = all_patterns()
        first = Graph(identifier=URIRef("urn:first"))
        gs = [first, Graph(store=first.store, identifier=URIRef("urn:second"))]
        content = [set(), set()]
        # the first context ever used determines the store's default context info
        for gi, mask in ((0, case["a"]), (1, case["b"])):
            for i in range(3):
                if mask >> i & 1:
                    t = T[i if gi == 0 else i + 3 - 1] if False else T[(i * 2 + gi) % 6]
                    gs[gi].add(t)
                    content[gi].add(t)
        pat = PATS[case["pattern"]]
        w = case["iterate"]
        ever = set(content[w])
        it = gs[w].triples(pat)
        got = []
        try:
            for _ in range(case["after"]):
                try:
                    got.append(next(it))
                except StopIteration:
                    return None
            for kind, gi, i in case["muts"]:
                if kind == "add":
                    gs[gi].add(T[i])
                    content[gi].add(T[i])
                elif kind == "remove":
                    gs[gi].remove(T[i])
                    content[gi].discard(T[i])
                else:
                    gs[gi].remove((None, None, None))
                    content[gi] = set()
                ever |= content[w]
            got.extend(it)
        except Exception as e:  # noqa
            return f"raises: modifying the graph during iteration raised {type(e).__name__}: {e}"
        for t in got:
            if not match(pat, t):
                return f"stale: iteration yielded {t} which does not match {pat}"
            if t not in ever:
                return (f"stale: iterating graph #{w} yielded {t}, which was never in that graph since the iteration "
                        f"began (graph held {sorted(map(str, ever))})")
        for gi in (0, 1):
            if set(gs[gi]) != content[gi]:
                return f"content: graph #{gi} holds {sorted(map(str, gs[gi]))} expected {sorted(map(str, content[gi]))}"
        return None


SUITES = {"graph-histories": GraphHistories(), "iteration-under-mutation": IterationUnderMutation()}
