"""Bounded stand-in for C13: every read-only entry point on witness datasets, quads and graph names before/after."""
from __future__ import annotations

from bounded.run import Suite

FORMATS = ["nt", "turtle", "longturtle", "n3", "xml", "pretty-xml", "json-ld", "trig", "trix", "nquads", "hext", "patch"]
QUERIES = [
    "SELECT * WHERE { ?s ?p ?o }",
    "SELECT * WHERE { GRAPH ?g { ?s ?p ?o } }",
    "ASK { ?s ?p ?o }",
    "CONSTRUCT { ?o ?p ?s } WHERE { ?s ?p ?o }",
    "DESCRIBE ?s WHERE { ?s ?p ?o }",
    "SELECT * FROM <urn:g1> WHERE { ?s ?p ?o }",
    "SELECT * FROM NAMED <urn:g1> WHERE { GRAPH ?g { ?s ?p ?o } }",
    "SELECT ?s (COUNT(?o) AS ?c) WHERE { ?s <urn:p>+ ?o } GROUP BY ?s ORDER BY ?s",
    "SELECT * WHERE { ?s <urn:p>* ?o OPTIONAL { ?o <urn:q> ?x } FILTER NOT EXISTS { ?s <urn:r> ?y } }",
    "SELECT ?s WHERE { { SELECT ?s WHERE { ?s ?p ?o } LIMIT 1 } UNION { ?s <urn:p>/<urn:p> ?z } MINUS { ?s <urn:q> 1 } }",
    # graph names that the dataset does not have: as a constant and through an already bound variable
    "SELECT * WHERE { GRAPH <urn:absent-graph> { ?s ?p ?o } }",
    "ASK { GRAPH <urn:absent-graph> { ?s ?p ?o } }",
    "SELECT * WHERE { ?s <urn:p> ?g . GRAPH ?g { ?a ?b ?c } }",
    "CONSTRUCT { ?s ?p ?o } WHERE { GRAPH <urn:another-absent-graph> { ?s ?p ?o } }",
]


def witnesses():
    from rdflib import Dataset, Graph, ConjunctiveGraph, URIRef, BNode, Literal, RDF
    import warnings
    out = []
    s, p, q = URIRef("urn:s"), URIRef("urn:p"), URIRef("urn:q")
    for du in (False, True):
        ds = Dataset(default_union=du)
        ds.add((s, p, URIRef("urn:o")))
        ds.add((s, p, Literal(0), URIRef("urn:g1")))
        ds.add((URIRef("urn:o"), p, s, URIRef("urn:g1")))
        bn = BNode("namedbybnode")
        ds.add((BNode("x"), q, Literal("v", lang="en"), bn))
        ds.add((s, p, URIRef("urn:o"), bn))
        ds.graph(URIRef("urn:emptygraph"))
        lst = BNode("l1")
        ds.add((s, q, lst))
        ds.add((lst, RDF.first, Literal(1)))
        ds.add((lst, RDF.rest, RDF.nil))
        out.append((f"dataset(default_union={du})", ds))
    g = Graph()
    g.add((s, p, URIRef("urn:o")))
    g.add((URIRef("urn:o"), p, s))
    g.add((BNode("b"), q, Literal(False)))
    out.append(("graph", g))
    out.append(("empty graph", Graph()))
    out.append(("empty dataset", Dataset()))
    with warnings.catch_warnings():
        warnings.simplefilter("ignore")
        cg = ConjunctiveGraph()
    cg.add((s, p, URIRef("urn:o"), URIRef("urn:g1")))
    cg.add((s, p, Literal("")))
    out.append(("conjunctive graph", cg))
    return out


def snapshot(obj):
    from rdflib import Dataset, ConjunctiveGraph, Graph
    if isinstance(obj, (Dataset, ConjunctiveGraph)):
        ds = Dataset(store=obj.store) if not isinstance(obj, Dataset) else obj
        quads = set()
        # as the property prescribes: set(dataset.quads()) and {g.identifier for g in dataset.graphs()};
        # quads are additionally read per graph through independent Graph views on the store
        import warnings
        with warnings.catch_warnings():
            warnings.simplefilter("ignore")
            names = {g.identifier for g in (obj.graphs() if hasattr(obj, "graphs") else obj.contexts())}
        for c in list(obj.store.contexts()):
            for t in Graph(store=obj.store, identifier=c.identifier):
                quads.add(t + (c.identifier,))
        return quads, names
    return set(obj), {obj.identifier}


def calls():
    cs = []
    for f in FORMATS:
        cs.append(("serialize:" + f, lambda o, f=f: o.serialize(format=f)))
    for i, qs in enumerate(QUERIES):
        cs.append((f"query:{i}", lambda o, qs=qs: [tuple(r) if hasattr(r, "__iter__") else r for r in o.query(qs)]))

    # prepared queries: the SAME query object evaluated twice (state must not leak through the algebra tree)
    PREPARED = ["SELECT ?s ?o WHERE { ?s ?p ?o } ORDER BY DESC(?p) ?o ?s",
                "SELECT ?s ?p WHERE { ?s ?p ?o } ORDER BY ?o DESC(?s) LIMIT 3",
                "SELECT ?s (COUNT(?o) AS ?n) WHERE { ?s ?p ?o } GROUP BY ?s ORDER BY DESC(?n) ?s"]
    for i, qs in enumerate(PREPARED):
        def run_prepared(o, qs=qs, cache={}):
            from rdflib.plugins.sparql import prepareQuery
            if id(o) not in cache:
                cache.clear()
                cache[id(o)] = prepareQuery(qs)
            return [tuple(map(str, r)) for r in o.query(cache[id(o)])]
        cs.append((f"prepared:{i}", run_prepared))

    def compare(o):
        from rdflib.compare import isomorphic, to_isomorphic, to_canonical_graph, graph_diff, similar
        from rdflib import Graph
        gs = [o] if not hasattr(o, "graphs") else list(o.graphs())
        r = []
        for g in gs:
            r.append(isomorphic(g, g))
            r.append(len(to_isomorphic(g)))
            r.append(sorted(to_canonical_graph(g).serialize(format="nt").splitlines()))
            a, b, c = graph_diff(g, Graph())
            r.append((len(a), len(b), len(c)))
            r.append(similar(g, g))
        return r
    cs.append(("compare", compare))

    def iterate(o):
        from rdflib import URIRef
        r = [sorted(map(str, o)), len(o), sorted(map(str, o.subjects())), (URIRef("urn:s"), None, None) in o]
        r.append(sorted(map(str, o[URIRef("urn:s")])))
        r.append(sorted(map(str, o.triples((None, URIRef("urn:p") * "+", None)))))
        # closure helpers (their `seen`/`remember` bookkeeping must be per call)
        for start in sorted(set(o.subjects()), key=str)[:3]:
            r.append(sorted(map(str, o.transitive_objects(start, URIRef("urn:p")))))
            r.append(sorted(map(str, o.transitive_subjects(URIRef("urn:p"), start))))
            r.append(sorted(map(str, o.transitiveClosure(lambda n, g_: g_.objects(n, None), start))))
        r.append(sorted(map(str, o.subject_objects(URIRef("urn:p")))))
        r.append(sorted(map(str, o.predicate_objects(URIRef("urn:s")))))
        r.append(str(o.value(URIRef("urn:s"), URIRef("urn:p"))))
        if hasattr(o, "quads"):
            r.append(sorted(map(str, o.quads())))
            r.append(sorted(str(g.identifier) for g in o.graphs()) if hasattr(o, "graphs") else None)
            from rdflib import Graph
            r.append(sorted(map(str, o.triples((None, None, None), context=Graph(store=o.store, identifier=URIRef("urn:emptygraph"))))))
            r.append((URIRef("urn:s"), URIRef("urn:p"), URIRef("urn:o"), URIRef("urn:unknown")) in o)
        return r
    cs.append(("iterate-slice-path", iterate))

    def skolem(o):
        from rdflib import Graph
        if hasattr(o, "quads") and not isinstance(o, Graph):
            return None
        try:
            return len(o.skolemize()), len(o.de_skolemize()), len(o.cbd(__import__("rdflib").URIRef("urn:s")))
        except Exception as e:  # noqa
            return type(e).__name__
    cs.append(("skolemize-cbd", skolem))
    return cs


class ReadsArePure(Suite):
    chunk = 1

    def bound(self, tier):
        return ("6 witness graphs/datasets (blank-node-named graph, empty named graph, falsy literals, rdf:List, "
                "default_union on/off, ConjunctiveGraph, empty ones) x every serializer format (12) x 14 SPARQL queries (incl. GRAPH over names the dataset does not have) "
                "(SELECT/ASK/CONSTRUCT/DESCRIBE, FROM/FROM NAMED, paths, aggregates, sub-select) x compare functions x "
                "iteration/slicing/paths/skolemize/cbd: quads and graph names read straight from the store before/after; "
                "the same call twice must give the same answer")

    def enumerate(self, tier):
        for wi in range(len(witnesses())):
            for ci in range(len(calls())):
                yield {"w": wi, "c": ci}

    def check(self, case):
        name, obj = witnesses()[case["w"]]
        cname, fn = calls()[case["c"]]
        before = snapshot(obj)
        try:
            r1 = fn(obj)
        except Exception as e:  # noqa
            r1 = ("raised", type(e).__name__)
        mid = snapshot(obj)
        if mid[0] != before[0]:
            diff = (mid[0] - before[0], before[0] - mid[0])
            return (f"mutates-quads: {cname} on {name}: added {sorted(map(str, diff[0]))[:3]} removed "
                    f"{sorted(map(str, diff[1]))[:3]}")
        if mid[1] != before[1]:
            return f"mutates-graph-set: {cname} on {name}: graph names {sorted(map(str, mid[1] ^ before[1]))} appeared/disappeared"
        try:
            r2 = fn(obj)
        except Exception as e:  # noqa
            r2 = ("raised", type(e).__name__)
        after = snapshot(obj)
        if after != before:
            return f"mutates-on-repeat: {cname} on {name}"
        if cname.startswith("prepared"):
            if r1 != r2:
                return (f"not-repeatable: {cname} on {name}: the same prepared query evaluated twice on the unchanged "
                        f"graph gave different (ordered) answers: {str(r1)[:120]} vs {str(r2)[:120]}")
        elif cname.startswith("serialize") or cname.startswith("query") or cname == "iterate-slice-path":
            def norm(x):
                if isinstance(x, (bytes, str)):
                    return sorted(x.splitlines()) if isinstance(x, str) else x
                if isinstance(x, list):
                    return sorted(map(str, x))
                return x
            if norm(r1) != norm(r2) and "bnode" not in cname:
                import re
                a, b = str(norm(r1)), str(norm(r2))
                a2, b2 = re.sub(r"N[0-9a-f]{32}|_:[A-Za-z0-9]+", "_:b", a), re.sub(r"N[0-9a-f]{32}|_:[A-Za-z0-9]+", "_:b", b)
                if a2 != b2:
                    return f"not-repeatable: {cname} on {name}: the same read twice gave different answers"
        return None

    def classify(self, case, msg):
        cname = calls()[case["c"]][0]
        return msg.split(":")[0] + ":" + cname.split(":")[0] + (":" + cname.split(":")[1] if cname.startswith("serialize") else "")


SUITES = {"reads-are-pure": ReadsArePure()}
