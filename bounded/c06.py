"""Bounded stand-in for C06: quad syntaxes round-trip a Dataset; RDF Patch diff applied to the first dataset gives the
second."""
from __future__ import annotations

import itertools

from bounded.run import Suite

FORMATS = ["nquads", "trig", "trix", "json-ld", "hext", "patch"]


def U(n):
    from rdflib import URIRef
    return URIRef("http://example.org/" + n)


def datasets():
    """list of (name, builder)"""
    from rdflib import Dataset, BNode, Literal
    a, b, c, p, q = U("a"), U("b"), U("c"), U("p"), U("q")
    g1, g2 = U("g1"), U("g2")
    out = []

    def mk(quads):
        def build():
            ds = Dataset()
            qs = quads()
            for s, pp, o, g in qs:
                if g is None:
                    ds.add((s, pp, o))
                else:
                    ds.add((s, pp, o, g))
            return ds
        return build
    out.append(("empty", mk(lambda: [])))
    out.append(("default only", mk(lambda: [(a, p, b, None), (a, q, Literal(0), None)])))
    out.append(("one named graph only", mk(lambda: [(a, p, b, g1)])))
    out.append(("default + two named", mk(lambda: [(a, p, b, None), (a, p, c, g1), (b, q, Literal("x", lang="en"), g2), (c, q, Literal(""), g2)])))
    out.append(("triple shared by graphs", mk(lambda: [(a, p, b, None), (a, p, b, g1), (a, p, b, g2), (a, q, c, g1)])))

    def bn_named():
        n = BNode()
        return [(a, p, b, n), (b, p, c, n), (a, q, Literal(1), None)]
    out.append(("blank-node-named graph", mk(bn_named)))

    def two_bn_named():
        n, m = BNode(), BNode()
        return [(a, p, b, n), (a, p, c, m), (a, p, b, g1)]
    out.append(("two blank-node-named graphs", mk(two_bn_named)))

    def shared_bnode():
        x = BNode()
        return [(a, p, x, None), (x, q, Literal(1), g1), (x, q, Literal(2), g2), (x, p, x, g2)]
    out.append(("blank node shared across graphs", mk(shared_bnode)))

    def bnode_graph_and_node():
        n = BNode()
        return [(n, p, a, n), (a, q, n, None)]
    out.append(("blank node both graph name and subject", mk(bnode_graph_and_node)))
    out.append(("graph named like a subject", mk(lambda: [(a, p, b, a), (a, p, c, None)])))
    out.append(("literals with odd characters", mk(lambda: [(a, p, Literal('q"uo\\te\nnl\ttab'), g1), (a, p, Literal("é\U0001F600"), None)])))
    return out


def quads_of(ds):
    from rdflib import Graph
    out = set()
    dflt = ds.default_context.identifier
    for cx in list(ds.store.contexts()):
        for t in Graph(store=ds.store, identifier=cx.identifier):
            out.add(t + (None if cx.identifier == dflt else cx.identifier,))
    return out


def canon_quads(qs):
    """compare up to renaming of blank nodes: as one graph with the graph name as a 4th position, encoded as triples"""
    from rdflib import Graph, BNode, URIRef, Literal
    g = Graph()
    for i, (s, p, o, c) in enumerate(sorted(qs, key=lambda q: tuple(map(str, q)))):
        st = BNode()
        g.add((st, URIRef("urn:q:s"), s))
        g.add((st, URIRef("urn:q:p"), p))
        g.add((st, URIRef("urn:q:o"), o))
        g.add((st, URIRef("urn:q:g"), c if c is not None else URIRef("urn:q:default")))
    return g


def strip_xsd_string(qs):
    from rdflib import Literal, XSD
    return {(s, p, Literal(str(o)) if isinstance(o, Literal) and o.datatype == XSD.string else o, c) for s, p, o, c in qs}


class DatasetRoundTrip(Suite):
    chunk = 2

    def bound(self, tier):
        return ("11 datasets (empty, default only, named only, a triple shared by three graphs, one and two blank-node-named "
                "graphs, a blank node shared across graphs, a blank node that is graph name and subject, a graph named like "
                "a subject, odd characters) x N-Quads, TriG, TriX, JSON-LD, HexTuples, RDF Patch: parse(serialize(ds)) into an "
                "empty Dataset has the same quads up to blank-node renaming")

    def enumerate(self, tier):
        for di in range(len(datasets())):
            for f in FORMATS:
                yield {"d": di, "f": f}

    def check(self, case):
        from rdflib import Dataset
        from rdflib.compare import isomorphic
        name, mk = datasets()[case["d"]]
        ds = mk()
        f = case["f"]
        try:
            data = ds.serialize(format=f, **({"operation": "add"} if f == "patch" else {}))
        except Exception as e:  # noqa
            return f"serialize-raises[{f}]: {name!r}: {type(e).__name__}: {str(e)[:120]}"
        back = Dataset()
        try:
            back.parse(data=data, format=f)
        except Exception as e:  # noqa
            return f"reparse-raises[{f}]: {name!r}: {type(e).__name__}: {str(e)[:140]}"
        q0, q1 = quads_of(ds), quads_of(back)
        if f in ("hext", "json-ld"):
            q0, q1 = strip_xsd_string(q0), strip_xsd_string(q1)
        if len(q0) != len(q1):
            return f"quad-count[{f}]: {name!r}: {len(q0)} quads came back as {len(q1)}"
        if not isomorphic(canon_quads(q0), canon_quads(q1)):
            g0 = sorted({str(c) for *_, c in q0})
            g1 = sorted({str(c) for *_, c in q1})
            return f"quads-differ[{f}]: {name!r}: triples moved between graphs or terms changed (graphs {g0} -> {g1})"
        return None

    def classify(self, case, msg):
        return msg.split(":")[0] + ":" + datasets()[case["d"]][0][:30]


class PatchDiff(Suite):
    chunk = 4

    def bound(self, tier):
        return ("every ordered pair of 8 ground datasets (no blank nodes, so the diff is well defined): the RDF Patch "
                "produced by serialize(format='patch', target=second), applied to a copy of the first, gives the second")

    def enumerate(self, tier):
        n = len(self.ground())
        for i in range(n):
            for j in range(n):
                yield {"i": i, "j": j}

    @staticmethod
    def ground():
        from rdflib import Literal
        a, b, c, p, q = U("a"), U("b"), U("c"), U("p"), U("q")
        g1, g2 = U("g1"), U("g2")
        return [
            [],
            [(a, p, b, None)],
            [(a, p, b, g1)],
            [(a, p, b, None), (a, p, b, g1)],
            [(a, p, b, None), (a, p, b, g1), (a, p, b, g2)],
            [(a, p, c, None), (a, q, Literal(0), g1)],
            [(a, p, b, g1), (b, p, c, g1), (c, q, Literal(""), g2)],
            [(a, p, b, g2), (a, p, c, None), (a, p, b, None)],
        ]

    def check(self, case):
        from rdflib import Dataset

        def build(qs):
            ds = Dataset()
            for s, p, o, g in qs:
                ds.add((s, p, o) if g is None else (s, p, o, g))
            return ds
        A, B = self.ground()[case["i"]], self.ground()[case["j"]]
        first, second = build(A), build(B)
        try:
            patch = first.serialize(format="patch", target=second)
        except Exception as e:  # noqa
            return f"patch-serialize-raises: {type(e).__name__}: {str(e)[:120]}"
        work = build(A)
        try:
            work.parse(data=patch, format="patch")
        except Exception as e:  # noqa
            return f"patch-apply-raises: {type(e).__name__}: {str(e)[:120]} for patch {patch!r}"
        got, exp = quads_of(work), quads_of(second)
        if got != exp:
            return (f"patch-diff: diff(#{case['i']} -> #{case['j']}) applied to #{case['i']} gives {len(got)} quads, expected "
                    f"{len(exp)}: unexpected {sorted(map(str, got - exp))[:2]} missing {sorted(map(str, exp - got))[:2]}")
        return None

    def classify(self, case, msg):
        return msg.split(":")[0]


class HandWritten(Suite):
    def bound(self, tier):
        return ("hand-written quad documents: a TriX document with a named graph followed by two anonymous <graph> elements "
                "and a named one; a TriG document with two blocks of the same graph and a default block in between; an "
                "N-Quads document alternating graphs: every triple lands in the graph its block names, anonymous graphs "
                "stay separate from each other and from named ones")

    def enumerate(self, tier):
        for k in ("trix-anonymous-after-named", "trig-interleaved", "nquads-interleaved"):
            yield {"k": k}

    def check(self, case):
        from rdflib import Dataset, URIRef, BNode, Literal
        ds = Dataset()
        k = case["k"]
        if k == "trix-anonymous-after-named":
            def tr(v):
                return f"<triple><uri>http://example.org/s</uri><uri>http://example.org/p</uri><plainLiteral>{v}</plainLiteral></triple>"
            doc = ('<TriX xmlns="http://www.w3.org/2004/03/trix/trix-1/">'
                   f'<graph><uri>http://example.org/g1</uri>{tr("named1")}</graph>'
                   f'<graph>{tr("anon1")}</graph><graph>{tr("anon2")}</graph>'
                   f'<graph><uri>http://example.org/g2</uri>{tr("named2")}</graph><graph>{tr("anon3")}</graph></TriX>')
            ds.parse(data=doc, format="trix")
            where = {}
            for s, p, o, c in quads_of(ds):
                where[str(o)] = c
            if where.get("named1") != URIRef("http://example.org/g1") or where.get("named2") != URIRef("http://example.org/g2"):
                return f"trix-named: triples of the named graphs landed in {where}"
            anon = [where.get("anon1"), where.get("anon2"), where.get("anon3")]
            if any(isinstance(a, URIRef) for a in anon):
                return f"trix-anonymous-merged-into-named: a triple of an anonymous <graph> landed in a named graph: {where}"
            if len({str(a) for a in anon}) != 3:
                return f"trix-anonymous-graphs-merged: three anonymous <graph> elements gave {len({str(a) for a in anon})} graphs: {where}"
            return None
        if k == "trig-interleaved":
            ds.parse(data="""@prefix : <http://example.org/> .
:g1 { :s :p "a" . }
:s :p "d1" .
:g2 { :s :p "b" . }
{ :s :p "d2" . }
GRAPH :g1 { :s :p "c" . }""", format="trig")
        else:
            ds.parse(data='<http://example.org/s> <http://example.org/p> "a" <http://example.org/g1> .\n'
                          '<http://example.org/s> <http://example.org/p> "d1" .\n'
                          '<http://example.org/s> <http://example.org/p> "b" <http://example.org/g2> .\n'
                          '<http://example.org/s> <http://example.org/p> "d2" .\n'
                          '<http://example.org/s> <http://example.org/p> "c" <http://example.org/g1> .\n', format="nquads")
        where = {str(o): (None if c is None else str(c)) for s, p, o, c in quads_of(ds)}
        exp = {"a": "http://example.org/g1", "c": "http://example.org/g1", "b": "http://example.org/g2", "d1": None, "d2": None}
        if where != exp:
            return f"graph-assignment[{k}]: triples landed in {where}, expected {exp}"
        return None

    def classify(self, case, msg):
        return msg.split(":")[0]


SUITES = {"hand-written": HandWritten(), "dataset-round-trip": DatasetRoundTrip(), "patch-diff": PatchDiff()}
