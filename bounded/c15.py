"""Bounded stand-in for C15: rewrite invariance, initBindings = VALUES, prepared-query repeatability, store independence."""
from __future__ import annotations

import itertools
import warnings
from collections import Counter

from bounded.run import Suite

PFX = "PREFIX : <urn:x:> PREFIX ex: <urn:x:> PREFIX xsd: <http://www.w3.org/2001/XMLSchema#> "


def universe():
    from rdflib import URIRef, Literal, BNode
    a, b, c = URIRef("urn:x:a"), URIRef("urn:x:b"), URIRef("urn:x:c")
    p, q = URIRef("urn:x:p"), URIRef("urn:x:q")
    return [(a, p, b), (b, p, c), (a, q, Literal(0)), (b, q, Literal(1)), (c, p, a), (a, p, Literal("")),
            (BNode("n"), p, b), (c, q, Literal(1))]


def graphs(tier):
    U = universe()
    masks = [0b00000000, 0b00000001, 0b00001111, 0b11111111, 0b10110101, 0b01011010]
    if tier == "thorough":
        masks = list(range(0, 256, 3))
    return [[t for i, t in enumerate(U) if m >> i & 1] for m in masks]


def mk(triples, store="Memory"):
    from rdflib import Graph, Dataset, ConjunctiveGraph
    from rdflib.graph import ReadOnlyGraphAggregate
    if store in ("Memory", "SimpleMemory"):
        g = Graph(store=store)
    elif store == "Auditable":
        from rdflib.plugins.stores.auditable import AuditableStore
        from rdflib.plugins.stores.memory import Memory
        g = Graph(store=AuditableStore(Memory()))
    elif store == "AuditableTx":      # content added inside an open transaction, part of it then removed again
        from rdflib.plugins.stores.auditable import AuditableStore
        from rdflib.plugins.stores.memory import Memory
        g = Graph(store=AuditableStore(Memory()))
        from rdflib import URIRef
        extra = (URIRef("urn:x:zz"), URIRef("urn:x:p"), URIRef("urn:x:zz"))
        g.add(extra)
        for t in triples:
            g.add(t)
        g.remove(extra)
        return g
    elif store == "Aggregate":
        g1, g2 = Graph(), Graph()
        for i, t in enumerate(triples):
            (g1 if i % 2 else g2).add(t)
        return ReadOnlyGraphAggregate([g1, g2])
    for t in triples:
        g.add(t)
    return g


def ms(res):
    if res.type == "ASK":
        return ("ASK", res.askAnswer)
    if res.type in ("CONSTRUCT", "DESCRIBE"):
        return (res.type, frozenset(res.graph))
    rows = []
    for r in res:
        rows.append(tuple(sorted((str(k), v.n3()) for k, v in r.asdict().items())))
    return ("SELECT", frozenset(Counter(rows).items()))


# (pattern list, tail) - BGP permutations
BGPS = [
    (["?x :p ?y", "?y :p ?z"], ""),
    (["?x :p ?y", "?x :q ?v", "?y :q ?w"], ""),
    (["?x :p ?y", "?y :q 1"], ""),
    (["?x ?r ?y", "?y :p ?x"], ""),
    (["?x :p ?y", "?x :q ?v"], "FILTER(?v < 1)"),
    (["?x :p ?y", "?y :p ?x", "?x :q ?v"], ""),
    (["?x :p ?y", "?z :q ?y"], ""),
]
# commutative operators: (template with {A} {B})
PARTS = ["{ ?x :p ?y }", "{ ?x :q ?v }", "{ ?y :q ?v }", "{ ?x :p ?y . ?y :p ?z }", "{ ?x :p ?y FILTER(isIRI(?y)) }",
         "{ ?x :q ?v OPTIONAL { ?x :p ?y } }", "{ SELECT ?x (COUNT(?y) AS ?n) WHERE { ?x :p ?y } GROUP BY ?x }",
         "{ VALUES ?x { :a :b } }", "{ ?x :p+ ?y }"]
OPS = ["{A} {B}", "{ {A} UNION {B} }"]

QUERIES = [
    "SELECT * WHERE { ?x :p ?y }",
    "SELECT * WHERE { ?x :p ?y OPTIONAL { ?y :q ?v } }",
    "SELECT ?x (COUNT(?y) AS ?n) WHERE { ?x :p ?y } GROUP BY ?x",
    "SELECT * WHERE { ?x :p ?y FILTER EXISTS { ?y :p ?z } }",
    "SELECT * WHERE { ?x :p ?y FILTER NOT EXISTS { ?y :q ?v } }",
    "SELECT * WHERE { ?x :p ?y BIND(STR(?y) AS ?s) }",
    "SELECT * WHERE { ?x :p+ ?y }",
    "SELECT * WHERE { { ?x :p ?y } UNION { ?x :q ?y } }",
    "SELECT * WHERE { ?x :p ?y MINUS { ?y :q 1 } }",
    "SELECT ?x WHERE { ?x :p ?y { SELECT ?y WHERE { ?y :q ?v } } }",
    "ASK { ?x :q 0 }",
    "CONSTRUCT { ?y :r ?x } WHERE { ?x :p ?y }",
    "SELECT * WHERE { ?x :p ?y . ?y :p ?z FILTER(?x != ?z) } ORDER BY ?x LIMIT 3",
    "SELECT * WHERE { ?x :q ?v FILTER(?v = 0) }",
    "SELECT (SUM(?v) AS ?s) (MIN(?v) AS ?m) WHERE { ?x :q ?v }",
]


class Rewrites(Suite):
    chunk = 4

    def bound(self, tier):
        return ("7 basic graph patterns x all permutations of their triple patterns; 9 group patterns (OPTIONAL, FILTER, "
                "sub-select with aggregate, VALUES, path) pairwise under join and UNION with operands swapped; consistent "
                "variable renaming (incl. names that collide with internal ones) and three prefix spellings of each IRI; "
                "data graphs: 6 subsets (thorough: 86) of an 8-triple universe with cycles, falsy literals and a blank node")

    def enumerate(self, tier):
        ng = len(graphs(tier))
        for bi in range(len(BGPS)):
            for gi in range(ng):
                yield {"kind": "bgp", "b": bi, "g": gi, "tier": tier}
        for oi in range(len(OPS)):
            for i in range(len(PARTS)):
                for j in range(i + 1, len(PARTS)):
                    for gi in range(ng):
                        yield {"kind": "swap", "op": oi, "i": i, "j": j, "g": gi, "tier": tier}
        for qi in range(len(QUERIES)):
            for gi in range(ng):
                yield {"kind": "rename", "q": qi, "g": gi, "tier": tier}

    def check(self, case):
        g = mk(graphs(case["tier"])[case["g"]])
        if case["kind"] == "bgp":
            pats, tail = BGPS[case["b"]]
            ref = None
            for perm in itertools.permutations(pats):
                q = PFX + "SELECT * WHERE { " + " . ".join(perm) + " " + tail + " }"
                r = ms(g.query(q))
                if ref is None:
                    ref, refq = r, q
                elif r != ref:
                    return f"bgp-permutation: {q!r} and {refq!r} give different solution multisets"
            return None
        if case["kind"] == "swap":
            A, B, op = PARTS[case["i"]], PARTS[case["j"]], OPS[case["op"]]
            q1 = PFX + "SELECT * WHERE { " + op.replace("{A}", A).replace("{B}", B) + " }"
            q2 = PFX + "SELECT * WHERE { " + op.replace("{A}", B).replace("{B}", A) + " }"
            if ms(g.query(q1)) != ms(g.query(q2)):
                return f"operand-swap: {q1!r} vs {q2!r}"
            return None
        q = QUERIES[case["q"]]
        base = ms(g.query(PFX + q))
        if base[0] == "SELECT":
            ren = {"x": "y_", "y": "x", "z": "__filter_1", "v": "x_", "n": "N", "s": "S", "m": "M"}
            import re
            q2 = re.sub(r"\?([a-z])\b", lambda m: "?" + ren.get(m.group(1), m.group(1)), q)
            r2 = g.query(PFX + q2)
            back = {v: k for k, v in ren.items()}
            rows = []
            for r in r2:
                rows.append(tuple(sorted((back.get(str(k), str(k)), v.n3()) for k, v in r.asdict().items())))
            if ("SELECT", frozenset(Counter(rows).items())) != base:
                return f"variable-renaming: {q!r} vs {q2!r}"
        for spell in (lambda s: s.replace(" :", " ex:"), lambda s: __import__("re").sub(r"(?<![\w?]):([a-z]+)\b", r"<urn:x:\1>", s)):
            q3 = spell(q)
            if ms(g.query(PFX + q3)) != base:
                return f"prefix-spelling: {q!r} vs {q3!r}"
        return None

    def classify(self, case, msg):
        return msg.split(":")[0]


class InitBindings(Suite):
    chunk = 8

    def bound(self, tier):
        return ("15 queries x bindings of ?x / ?y / both (variables of the outermost BGP) to each IRI of the universe and to "
                "a term not in the data: query(q, initBindings=b) equals q with a leading VALUES row; data graphs as above")

    def enumerate(self, tier):
        for qi in range(len(QUERIES)):
            for gi in range(len(graphs(tier))):
                for bi in range(6):
                    yield {"q": qi, "g": gi, "b": bi, "tier": tier}

    def check(self, case):
        from rdflib import URIRef, Variable
        q = QUERIES[case["q"]]
        if "SELECT ?y WHERE" in q or "GROUP BY" in q or "(SUM" in q or "LIMIT" in q:
            return None        # sub-query reuses the variable / aggregates: excluded by the property's wording
        g = mk(graphs(case["tier"])[case["g"]])
        a, b, zz = URIRef("urn:x:a"), URIRef("urn:x:b"), URIRef("urn:x:nowhere")
        binds = [{"x": a}, {"x": b}, {"y": b}, {"x": a, "y": b}, {"x": zz}, {"y": a}][case["b"]]
        if any(("?" + v) not in q.split("{", 1)[1].split("{")[0] + q for v in binds):
            return None
        import re
        m = re.search(r"(WHERE|ASK)\s*\{", q)
        vals = "VALUES (" + " ".join("?" + v for v in binds) + ") { (" + " ".join(t.n3() for t in binds.values()) + ") } "
        q2 = q[:m.end()] + " " + vals + q[m.end():]
        try:
            r1 = ms(g.query(PFX + q, initBindings={Variable(k): v for k, v in binds.items()}))
            r2 = ms(g.query(PFX + q2))
        except Exception as e:  # noqa
            return f"raises: {type(e).__name__}: {e} for {q!r} with {binds}"
        if r1 != r2:
            return f"initBindings-vs-VALUES: {q!r} with initBindings={binds} differs from {q2!r}"
        return None

    def nontrivial(self, case):
        return True

    def classify(self, case, msg):
        return msg.split(":")[0]


class Prepared(Suite):
    chunk = 4

    def bound(self, tier):
        return ("15 queries prepared once and evaluated in sequences of 5 evaluations over 2 different graphs, with and "
                "without initBindings, interleaved with an evaluation that raises/aborts mid-iteration: every answer equals "
                "that of a freshly parsed query on the same graph; the algebra tree is structurally unchanged afterwards")

    def enumerate(self, tier):
        ng = len(graphs(tier))
        for qi in range(len(QUERIES)):
            for gi in range(ng):
                for gj in range(ng):
                    if gi != gj and (tier == "thorough" or (gi + gj) % 3 == 0 or gi == 3):
                        yield {"q": qi, "g": gi, "h": gj, "tier": tier}

    def check(self, case):
        from rdflib.plugins.sparql import prepareQuery
        from rdflib import URIRef, Variable
        q = PFX + QUERIES[case["q"]]
        G, H = mk(graphs(case["tier"])[case["g"]]), mk(graphs(case["tier"])[case["h"]])
        pq = prepareQuery(q)
        snap = repr(pq.algebra)
        b = {Variable("x"): URIRef("urn:x:a")}
        seq = [(G, None), (H, None), (G, b), (G, None), ("abort", None), (H, b), (H, None), (G, None)]
        for i, (g, ib) in enumerate(seq):
            if g == "abort":
                it = iter(G.query(pq))
                try:
                    next(it)
                except StopIteration:
                    pass
                del it
                continue
            kw = {"initBindings": ib} if ib else {}
            got = ms(g.query(pq, **kw))
            exp = ms(g.query(q, **kw))
            if got != exp:
                return (f"prepared-differs: evaluation #{i} of prepared {QUERIES[case['q']]!r} "
                        f"(initBindings={'yes' if ib else 'no'}) differs from a freshly parsed query")
        if repr(pq.algebra) != snap:
            return f"prepared-tree-changed: the algebra of prepared {QUERIES[case['q']]!r} changed during evaluation"
        return None

    def classify(self, case, msg):
        return msg.split(":")[0]


class Stores(Suite):
    chunk = 4

    def bound(self, tier):
        return ("15 queries + the BGP/group patterns x data graphs as above held in Memory, SimpleMemory, AuditableStore "
                "(content committed and content added inside an open transaction) and a ReadOnlyGraphAggregate of two "
                "graphs: same answers")

    def enumerate(self, tier):
        for qi in range(len(QUERIES) + len(PARTS)):
            for gi in range(len(graphs(tier))):
                yield {"q": qi, "g": gi, "tier": tier}

    def check(self, case):
        qi = case["q"]
        q = PFX + (QUERIES[qi] if qi < len(QUERIES) else "SELECT * WHERE " + PARTS[qi - len(QUERIES)])
        T = graphs(case["tier"])[case["g"]]
        if "LIMIT" in q:
            return None      # ORDER BY with ties + LIMIT may legitimately pick different rows on stores that iterate differently
        ref = None
        for st in ("Memory", "SimpleMemory", "Auditable", "AuditableTx", "Aggregate"):
            with warnings.catch_warnings():
                warnings.simplefilter("ignore")
                g = mk(T, st)
                try:
                    r = ms(g.query(q))
                except Exception as e:  # noqa
                    return f"store-raises: {st}: {type(e).__name__}: {e} on {q!r}"
            if ref is None:
                ref = r
            elif r != ref:
                return f"store-differs: {st} answers {q!r} differently from Memory"
        return None

    def classify(self, case, msg):
        return msg.split(":")[0] + ":" + msg.split(":")[1].strip().split(" ")[0]


class StoresWithGraphs(Suite):
    """the same quads in a ConjunctiveGraph over Memory and over AuditableStore(Memory): queries that address named
    graphs - including one that exists but is EMPTY and one that does not exist - answer alike"""
    chunk = 2

    DQ = ["SELECT ?s ?p ?o WHERE { GRAPH :g1 { ?s ?p ?o } }", "SELECT ?s ?p ?o WHERE { GRAPH :empty { ?s ?p ?o } }",
          "ASK { GRAPH :empty { ?s ?p ?o } }", "SELECT ?g ?s WHERE { GRAPH ?g { ?s :p ?o } }",
          "SELECT ?s ?o WHERE { ?s :p ?o OPTIONAL { GRAPH :empty { ?o :p ?z } } }",
          "SELECT ?s ?o WHERE { GRAPH :empty { ?s :p+ ?o } }", "SELECT ?s ?p ?o WHERE { GRAPH :nowhere { ?s ?p ?o } }",
          "SELECT ?s WHERE { GRAPH :g2 { ?s :q ?v } FILTER NOT EXISTS { GRAPH :empty { ?s ?p ?o } } }"]

    def bound(self, tier):
        return ("8 queries over named graphs (one non-empty, one emptied again, one never created, graph variable, OPTIONAL / "
                "NOT EXISTS / path inside GRAPH) x data graphs as above split over two named graphs: ConjunctiveGraph over "
                "Memory vs over AuditableStore(Memory), committed and inside an open transaction")

    def enumerate(self, tier):
        for qi in range(len(self.DQ)):
            for gi in range(len(graphs(tier))):
                yield {"q": qi, "g": gi, "tier": tier}

    def check(self, case):
        from rdflib import ConjunctiveGraph, URIRef
        from rdflib.plugins.stores.memory import Memory
        from rdflib.plugins.stores.auditable import AuditableStore
        T = graphs(case["tier"])[case["g"]]
        q = PFX + self.DQ[case["q"]]
        ref = None
        for st in ("Memory", "Auditable", "AuditableTx"):
            with warnings.catch_warnings():
                warnings.simplefilter("ignore")
                store = Memory() if st == "Memory" else AuditableStore(Memory())
                cg = ConjunctiveGraph(store=store)
                g1, g2, ge = (cg.get_context(URIRef("urn:x:" + n)) for n in ("g1", "g2", "empty"))
                for i, t in enumerate(T):
                    (g1 if i % 2 == 0 else g2).add(t)
                if T:
                    ge.add(T[0])
                    ge.remove(T[0])         # exists, but is empty again
                if st == "Auditable":
                    cg.commit()
                try:
                    r = ms(cg.query(q))
                except Exception as e:  # noqa
                    return f"store-raises: {st}: {type(e).__name__}: {e} on {q!r}"
            if ref is None:
                ref = r
            elif r != ref:
                return f"store-differs: {st} answers {self.DQ[case['q']]!r} over named graphs differently from Memory"
        return None

    def classify(self, case, msg):
        return msg.split(":")[0] + ":" + msg.split(":")[1].strip().split(" ")[0]


SUITES = {"rewrites": Rewrites(), "init-bindings": InitBindings(), "prepared": Prepared(), "stores": Stores(),
          "stores-with-graphs": StoresWithGraphs()}
