"""Bounded stand-in for C14: isomorphism / canonicalisation against brute-force search over blank-node bijections,
on small but highly symmetric blank-node structures; graph_diff; skolemize / de_skolemize."""
from __future__ import annotations

import itertools
import random

from bounded.run import Suite


def P(n):
    from rdflib import URIRef
    return URIRef("urn:x:" + n)


def structures():
    """list of (name, triples over abstract node ids 'b0'.. (blank) / ':a' (IRI) / '"x"' literal)"""
    S = []
    p, q = "p", "q"

    def cyc(n, pred=p, off=0):
        return [(f"b{off + i}", pred, f"b{off + (i + 1) % n}") for i in range(n)]
    S.append(("empty", []))
    S.append(("single-loop", [("b0", p, "b0")]))
    S.append(("3-cycle", cyc(3)))
    S.append(("4-cycle", cyc(4)))
    S.append(("6-cycle", cyc(6)))
    S.append(("two-3-cycles", cyc(3) + cyc(3, off=3)))
    S.append(("3-cycle+4-cycle... as 7-cycle-cousin", cyc(3) + cyc(4, off=3)))
    S.append(("7-cycle", cyc(7)))
    S.append(("K2,3", [(f"b{i}", p, f"b{2 + j}") for i in range(2) for j in range(3)]))
    S.append(("K3,3", [(f"b{i}", p, f"b{3 + j}") for i in range(3) for j in range(3)]))
    S.append(("K3,3-minus-matching (6-cycle cousin)", [(f"b{i}", p, f"b{3 + j}") for i in range(3) for j in range(3) if i != j]))
    S.append(("prism (two triangles joined)", cyc(3) + cyc(3, off=3) + [(f"b{i}", q, f"b{3 + i}") for i in range(3)]))
    S.append(("twisted prism", cyc(3) + [(f"b{3 + (i + 1) % 3}", p, f"b{3 + i}") for i in range(3)] + [(f"b{i}", q, f"b{3 + i}") for i in range(3)]))
    S.append(("two identical stars", [("b0", p, ":a"), ("b0", q, '"x"'), ("b1", p, ":a"), ("b1", q, '"x"')]))
    S.append(("star with twin leaves", [("b0", p, "b1"), ("b0", p, "b2"), ("b1", q, '"x"'), ("b2", q, '"x"')]))
    S.append(("star with different leaves", [("b0", p, "b1"), ("b0", p, "b2"), ("b1", q, '"x"'), ("b2", q, '"y"')]))
    S.append(("path-3", [("b0", p, "b1"), ("b1", p, "b2")]))
    S.append(("path-3 reversed middle", [("b0", p, "b1"), ("b2", p, "b1")]))
    S.append(("bidirected 4-cycle", cyc(4) + [(b, p, a) for a, _, b in cyc(4)]))
    S.append(("bidirected K4 minus edge", [(f"b{i}", p, f"b{j}") for i in range(4) for j in range(4) if i != j and {i, j} != {0, 1}]))
    S.append(("ground only", [(":a", p, ":b"), (":b", q, '"x"')]))
    S.append(("bnode as predicate-free list", [("b0", "first", '"1"'), ("b0", "rest", "b1"), ("b1", "first", '"2"'), ("b1", "rest", ":nil")]))
    S.append(("two lists same content", [("b0", "first", '"1"'), ("b0", "rest", ":nil"), ("b1", "first", '"1"'), ("b1", "rest", ":nil"),
                                         (":s", p, "b0"), (":s", p, "b1")]))
    # terms with the SAME TEXT but a different kind / language / datatype, next to symmetric blank-node structures, in
    # a single-blank-node graph, and behind a 2-cycle that an earlier tag has already separated
    variants = [":a", "lit::a", '"0"', '"0"^^int', '"x"@en', '"x"@fr', '"x"^^tok']
    k33 = [(f"b{i}", p, f"b{3 + j}") for i in range(3) for j in range(3)]
    for v in variants:
        S.append((f"K3,3 + ground triple with {v}", k33 + [(":s", q, v)]))
    for v in variants:
        S.append((f"single blank node with {v}", [("b0", q, v)]))
    for v in variants[2:]:
        S.append((f"tagged 2-cycle with {v}", [("b0", p, "b1"), ("b1", p, "b0"), ("b0", q, '"t"'), ("b1", q, v)]))
    return S


def build(triples, relabel=None, order=None, identifier=None):
    from rdflib import Graph, BNode, Literal
    g = Graph(identifier=identifier) if identifier is not None else Graph()
    ts = list(triples)
    if order is not None:
        order.shuffle(ts)
    names = {}

    def node(x):
        if x.startswith("b") and x[1:].isdigit():
            key = relabel[x] if relabel else x
            return names.setdefault(key, BNode())
        if x.startswith(":"):
            return P(x[1:])
        if x.startswith("lit::"):
            return Literal(str(P(x[5:])))          # a plain literal with the same text as the IRI :name
        if x.endswith('"@en') or x.endswith('"@fr'):
            return Literal(x[1:-4], lang=x[-2:])
        if x.endswith('"^^int'):
            from rdflib import XSD
            return Literal(x[1:-6], datatype=XSD.integer)
        if x.endswith('"^^tok'):
            from rdflib import XSD
            return Literal(x[1:-6], datatype=XSD.token)
        return Literal(x.strip('"'))
    for s, p, o in ts:
        g.add((node(s), P(p), node(o)))
    return g


def brute_iso(t1, t2):
    """exists a bijection of blank-node ids mapping t1 onto t2 (ids are abstract strings)"""
    b1 = sorted({x for s, _, o in t1 for x in (s, o) if x.startswith("b") and x[1:].isdigit()})
    b2 = sorted({x for s, _, o in t2 for x in (s, o) if x.startswith("b") and x[1:].isdigit()})
    if len(b1) != len(b2) or len(set(t1)) != len(set(t2)):
        return False
    s2 = set(t2)
    for perm in itertools.permutations(b2):
        m = dict(zip(b1, perm))
        if {(m.get(s, s), p, m.get(o, o)) for s, p, o in t1} == s2:
            return True
    return False


class Isomorphism(Suite):
    chunk = 2

    def bound(self, tier):
        return ("23 blank-node structures up to 7 blank nodes (cycles, disjoint identical components, complete bipartite "
                "graphs, prism vs twisted prism, bidirected regular graphs, twin leaves, lists) - every pair: isomorphic() "
                "and to_isomorphic equality agree with brute-force search over all bijections; each structure against 3 "
                "random relabelings/insertion orders of itself: isomorphic, equal canonical graphs, equal hashes; "
                "graph_diff partition laws on every pair; skolemize/de_skolemize round trip")

    def enumerate(self, tier):
        n = len(structures())
        for i in range(n):
            for j in range(i, n):
                yield {"i": i, "j": j}

    def check(self, case):
        from rdflib import Graph
        from rdflib.compare import isomorphic, to_isomorphic, to_canonical_graph, graph_diff
        S = structures()
        (n1, t1), (n2, t2) = S[case["i"]], S[case["j"]]
        g1, g2 = build(t1), build(t2)
        exp = brute_iso(t1, t2)
        got = isomorphic(g1, g2)
        if got != exp:
            return f"isomorphic: isomorphic({n1!r}, {n2!r}) is {got}, brute force says {exp}"
        if (to_isomorphic(g1) == to_isomorphic(g2)) != exp:
            return f"to_isomorphic-eq: to_isomorphic equality of {n1!r}, {n2!r} is {not exp}"
        if exp and set(to_canonical_graph(g1)) != set(to_canonical_graph(g2)):
            return f"canonical-graph: isomorphic inputs {n1!r}, {n2!r} give different canonical graphs"
        if exp and to_isomorphic(g1).internal_hash() != to_isomorphic(g2).internal_hash():
            return f"hash: isomorphic inputs {n1!r}, {n2!r} have different internal hashes"
        # graph_diff laws
        both, first, second = graph_diff(g1, g2)
        if set(first) & set(second):
            return f"graph_diff-disjoint: 'first' and 'second' share a triple for {n1!r}, {n2!r}"
        if not isomorphic(both + first, g1) or not isomorphic(both + second, g2):
            return f"graph_diff-partition: both+first / both+second not isomorphic to the inputs for {n1!r}, {n2!r}"
        if exp and (len(first) or len(second)):
            return f"graph_diff-isomorphic-inputs: isomorphic inputs {n1!r}, {n2!r} have a non-empty difference"
        # two Graph objects that carry the SAME identifier (two revisions of one named graph, in separate stores)
        from rdflib import URIRef
        h1, h2 = build(t1, identifier=URIRef("urn:x:same")), build(t2, identifier=URIRef("urn:x:same"))
        both, first, second = graph_diff(h1, h2)
        if set(first) & set(second) or not isomorphic(both + first, h1) or not isomorphic(both + second, h2):
            return (f"graph_diff-partition: two graphs with one identifier: both+first / both+second not isomorphic to the "
                    f"inputs for {n1!r}, {n2!r}")
        if isomorphic(h1, h2) != exp:
            return f"isomorphic: two graphs with one identifier: isomorphic({n1!r}, {n2!r}) is {not exp}"
        if case["i"] == case["j"]:
            rnd = random.Random(case["i"])
            bs = sorted({x for s, _, o in t1 for x in (s, o) if x.startswith("b") and x[1:].isdigit()})
            ref = None
            for k in range(3):
                perm = bs[:]
                rnd.shuffle(perm)
                h = build(t1, dict(zip(bs, perm)), rnd)
                if not isomorphic(g1, h):
                    return f"relabel: {n1!r} is not isomorphic to a relabeled copy of itself"
                c = set(to_canonical_graph(h))
                if ref is None:
                    ref = set(to_canonical_graph(g1))
                if c != ref:
                    return f"canonical-relabel: {n1!r}: canonical graph depends on blank-node labels / insertion order"
            sk = g1.skolemize()
            from rdflib import BNode
            if any(isinstance(x, BNode) for t in sk for x in t):
                return f"skolemize: {n1!r}: blank nodes left after skolemize()"
            back = sk.de_skolemize()
            if not isomorphic(back, g1):
                return f"skolem-round-trip: {n1!r}: de_skolemize(skolemize(g)) is not isomorphic to g"
        return None

    def classify(self, case, msg):
        return msg.split(":")[0]


class Skolem(Suite):
    LABELS = [["a1", "a2", "a3"], ["row;1", "row;2", "row;3"], ["n?x", "n?y"], ["doc#a", "doc#b", "doc"], ["a/b", "a/c", "a"],
              ["x%20y", "x y"], ["\u00fc1", "\u00fc2"], ["N0123456789abcdef0123456789abcdef", "n"], ["a.b", "a-b", "a_b"],
              ["1", "01", "001"]]

    def bound(self, tier):
        return ("chains of 2-3 blank nodes whose labels contain ; ? # / % space, non-ASCII, generated-looking ids, or differ "
                "only after such a character: g.skolemize() has no blank node, de_skolemize() of it is isomorphic to g with "
                "the same number of distinct blank nodes")

    def enumerate(self, tier):
        for i in range(len(self.LABELS)):
            yield {"i": i}

    def check(self, case):
        from rdflib import Graph, BNode, Literal
        from rdflib.compare import isomorphic
        labels = self.LABELS[case["i"]]
        g = Graph()
        nodes = [BNode(l) for l in labels]
        for k, n in enumerate(nodes):
            g.add((n, P("p"), Literal(k)))
        for a, b in zip(nodes, nodes[1:]):
            g.add((a, P("next"), b))
        sk = g.skolemize()
        if any(isinstance(x, BNode) for t in sk for x in t):
            return f"skolemize: labels {labels}: blank nodes left after skolemize()"
        back = sk.de_skolemize()
        nb = {x for t in back for x in t if isinstance(x, BNode)}
        if len(nb) != len(nodes) or len(back) != len(g):
            return (f"skolem-round-trip: labels {labels}: {len(nodes)} blank nodes / {len(g)} triples came back as "
                    f"{len(nb)} / {len(back)}")
        if not isomorphic(back, g):
            return f"skolem-round-trip: labels {labels}: de_skolemize(skolemize(g)) is not isomorphic to g"
        return None

    def classify(self, case, msg):
        return msg.split(":")[0]


class LargeSymmetric(Suite):
    """structures too large for brute force: isomorphism with a relabelled copy holds by construction"""
    chunk = 2

    @staticmethod
    def families():
        def cyc(n, off=0):
            return [(f"b{off + i}", "p", f"b{off + (i + 1) % n}") for i in range(n)]

        def undirected(edges):
            return [(f"b{a}", "p", f"b{b}") for a, b in edges] + [(f"b{b}", "p", f"b{a}") for a, b in edges]
        petersen = [(i, (i + 1) % 5) for i in range(5)] + [(5 + i, 5 + (i + 2) % 5) for i in range(5)] + [(i, i + 5) for i in range(5)]
        prism5 = [(i, (i + 1) % 5) for i in range(5)] + [(5 + i, 5 + (i + 1) % 5) for i in range(5)] + [(i, i + 5) for i in range(5)]
        cube = [(a, b) for a in range(8) for b in range(8) if a < b and bin(a ^ b).count("1") == 1]
        k44 = [(a, 4 + b) for a in range(4) for b in range(4)]
        cube_twin = [(i, (i + 1) % 8) for i in range(8)] + [(i, (i + 4) % 8) for i in range(4)]       # Wagner graph: 3-regular, 8 nodes
        return {
            "petersen": undirected(petersen), "pentagonal-prism": undirected(prism5),
            "c3+c4+c5": cyc(3) + cyc(4, 3) + cyc(5, 7), "c12": cyc(12), "c6+c6": cyc(6) + cyc(6, 6),
            "cube": undirected(cube), "wagner": undirected(cube_twin), "k4,4": undirected(k44),
            "three-triangles": cyc(3) + cyc(3, 3) + cyc(3, 6), "c9": cyc(9),
        }

    NON_ISO = [("petersen", "pentagonal-prism"), ("c3+c4+c5", "c12"), ("c3+c4+c5", "c6+c6"), ("c12", "c6+c6"), ("cube", "wagner"),
               ("three-triangles", "c9")]

    def bound(self, tier):
        return ("10 vertex-transitive / regular structures of 8-12 blank nodes (Petersen graph, pentagonal prism, cube, Wagner "
                "graph, K4,4, C12, C6+C6, C3+C4+C5, three triangles, C9): each against 12 (thorough 40) randomly relabelled and "
                "re-ordered copies of itself - isomorphic, equal canonical graphs, empty graph_diff; 6 pairs with equal degree "
                "sequences that are NOT isomorphic - isomorphic() is False")

    def enumerate(self, tier):
        n = 12 if tier == "quick" else 40
        for name in self.families():
            for k in range(n):
                yield {"fam": name, "k": k}
        for a, b in self.NON_ISO:
            yield {"pair": [a, b]}

    def check(self, case):
        from rdflib.compare import isomorphic, to_canonical_graph, graph_diff, to_isomorphic
        F = self.families()
        if "pair" in case:
            a, b = case["pair"]
            if isomorphic(build(F[a]), build(F[b])):
                return f"false-positive: isomorphic({a}, {b}) is True for non-isomorphic regular graphs"
            return None
        t = F[case["fam"]]
        rnd = random.Random(1000 * case["k"] + len(t))
        bs = sorted({x for s, _, o in t for x in (s, o)})
        perm = bs[:]
        rnd.shuffle(perm)
        g1 = build(t, None, random.Random(case["k"]))
        g2 = build(t, dict(zip(bs, perm)), rnd)
        if not isomorphic(g1, g2):
            return f"relabel: {case['fam']}: a relabelled, re-ordered copy is reported as not isomorphic (trial {case['k']})"
        if to_isomorphic(g1) != to_isomorphic(g2):
            return f"to_isomorphic-eq: {case['fam']}: to_isomorphic graphs of two copies differ (trial {case['k']})"
        if set(to_canonical_graph(g1)) != set(to_canonical_graph(g2)):
            return f"canonical-relabel: {case['fam']}: canonical graphs of two copies differ (trial {case['k']})"
        both, first, second = graph_diff(g1, g2)
        if len(first) or len(second):
            return f"graph_diff-isomorphic-inputs: {case['fam']}: copies have a non-empty difference ({len(first)}/{len(second)})"
        return None

    def classify(self, case, msg):
        return msg.split(":")[0]


SUITES = {"isomorphism": Isomorphism(), "skolem": Skolem(), "large-symmetric": LargeSymmetric()}
