"""Bounded stand-in for C17: histories of bind()/qname()/curie() on the real stores and manager."""
from __future__ import annotations

import itertools

from bounded.run import Suite


def _terms():
    from rdflib import URIRef
    # nested / overlapping namespaces, one of them not ending at a '/' or '#' boundary (like obo:GO_)
    NS = [URIRef("http://ex.org/"), URIRef("http://ex.org/a/"), URIRef("http://ex.org/a/X_"), URIRef("urn:x:")]
    IRIS = [URIRef("http://ex.org/a/b"), URIRef("http://ex.org/a/X_1"), URIRef("http://ex.org/d"), URIRef("urn:x:y")]
    return NS, IRIS


PREFIXES = ["", "p", "q"]


def check_store_map(store, where):
    """two-way map through the public store API"""
    nss = list(store.namespaces())
    ps = [p for p, n in nss]
    ns = [n for p, n in nss]
    if len(set(ps)) != len(ps):
        return f"two-way-map: {where}: a prefix is listed twice: {sorted(nss)}"
    if len(set(ns)) != len(ns):
        return f"two-way-map: {where}: a namespace is listed twice: {sorted(nss)}"
    for p, n in nss:
        if store.namespace(p) != n or store.prefix(n) != p:
            return (f"two-way-map: {where}: namespaces() lists ({p!r},{n}) but namespace({p!r})="
                    f"{store.namespace(p)} prefix({n})={store.prefix(n)!r}")
    NS, _ = _terms()
    for p in PREFIXES + ["default1", "ns1", "q1", "p1"]:
        n = store.namespace(p)
        if n is not None and (p, n) not in nss:
            return f"two-way-map: {where}: namespace({p!r})={n} not listed by namespaces()"
    for n in NS:
        p = store.prefix(n)
        if p is not None and (p, n) not in nss:
            return f"two-way-map: {where}: prefix({n})={p!r} not listed by namespaces()"
    return None


class StoreBind(Suite):
    """store-level bind histories on Memory and SimpleMemory"""

    def bound(self, tier):
        return f"all histories of <= {3 if tier == 'quick' else 4} store.bind(prefix, ns, override) calls over " \
               f"3 prefixes x 3 namespaces x 2 flags, both stores"

    def enumerate(self, tier):
        NS, _ = _terms()
        ops = [(p, i, ov) for p in PREFIXES for i in range(3) for ov in (True, False)]
        n = 3 if tier == "quick" else 4
        for store in ("Memory", "SimpleMemory"):
            for k in range(1, n + 1):
                for h in itertools.product(ops, repeat=k):
                    yield {"store": store, "history": [list(x) for x in h]}

    def check(self, case):
        from rdflib import plugin
        from rdflib.store import Store
        NS, _ = _terms()
        st = plugin.get(case["store"], Store)()
        for i, (p, ni, ov) in enumerate(case["history"]):
            st.bind(p, NS[ni], override=ov)
            m = check_store_map(st, f"after step {i} bind({p!r},{NS[ni]},override={ov})")
            if m:
                return m
            if ov and (st.namespace(p) != NS[ni] or st.prefix(NS[ni]) != p):
                return f"bind-effect: bind({p!r},{NS[ni]},override=True) did not bind the pair"
        return None

    def classify(self, case, msg):
        last = case["history"][-1]
        return msg.split(":")[0] + (":override=False" if not last[2] else ":override=True")

    def from_model(self, info):
        """info: {'function': 'Memory.bind', 'pre': [[prefix, nsIndex],...], 'call': [prefix, nsIndex, override]}"""
        if "bind" not in info.get("function", ""):
            return
        store = info["function"].split(".")[0]
        pre = info.get("pre", [])
        call = info.get("call")
        if call is None:
            return
        yield {"store": store, "history": [[p, n, True] for p, n in pre] + [call]}


class ManagerBind(Suite):
    """NamespaceManager.bind / qname / curie / expand_curie histories through Graph"""

    def bound(self, tier):
        return f"all histories of <= {2 if tier == 'quick' else 3} operations from bind(3 prefixes x 4 namespaces x " \
               f"override x replace) and qname-of-4-IRIs, on a Graph with bind_namespaces='none'; after every step " \
               f"every IRI's qname/curie is checked"

    def enumerate(self, tier):
        ops = [("bind", p, i, ov, rp) for p in PREFIXES for i in range(4) for ov in (True, False) for rp in (False, True)]
        ops += [("qname", j) for j in range(4)]
        n = 2 if tier == "quick" else 3
        for store in ("Memory", "SimpleMemory"):
            for k in range(1, n + 1):
                for h in itertools.product(ops, repeat=k):
                    if store == "SimpleMemory" and k > 2:
                        continue
                    yield {"store": store, "history": [list(x) for x in h]}

    def nontrivial(self, case):
        return any(o[0] == "bind" for o in case["history"])

    def check(self, case):
        from rdflib import Graph
        NS, IRIS = _terms()
        g = Graph(store=case["store"], bind_namespaces="none")
        nm = g.namespace_manager
        for i, op in enumerate(case["history"]):
            if op[0] == "bind":
                _, p, ni, ov, rp = op
                nm.bind(p, NS[ni], override=ov, replace=rp)
                where = f"after step {i} bind({p!r},{NS[ni]},override={ov},replace={rp})"
            else:
                try:
                    nm.qname(IRIS[op[1]])
                except (ValueError, KeyError):
                    pass
                where = f"after step {i} qname({IRIS[op[1]]})"
            m = check_store_map(g.store, where)
            if m:
                return m
            m = self.check_qnames(g, where)
            if m:
                return m
        return None

    def check_qnames(self, g, where):
        NS, IRIS = _terms()
        nm = g.namespace_manager
        for u in IRIS:
            for fn in ("qname", "curie"):
                try:
                    q = getattr(nm, fn)(u) if fn == "qname" else nm.curie(u, generate=False)
                except (ValueError, KeyError):
                    continue
                if ":" in q:
                    pfx, local = q.split(":", 1)
                else:
                    pfx, local = "", q
                bound = g.store.namespace(pfx)
                if bound is None:
                    return f"qname-uses-bound-prefix: {where}: {fn}({u}) = {q!r} uses prefix {pfx!r} which is not bound now"
                if str(bound) + local != str(u):
                    return (f"qname-expands-back: {where}: {fn}({u}) = {q!r} but {pfx!r} is bound to {bound}, "
                            f"which expands to {str(bound) + local}")
                if fn == "qname":
                    # URIRef.n3(namespace_manager) must expand back as well (it goes through normalizeUri)
                    n3 = u.n3(nm)
                    if not n3.startswith("<"):
                        p3, l3 = n3.split(":", 1)
                        b3 = g.store.namespace(p3)
                        if b3 is None or str(b3) + l3 != str(u):
                            return (f"n3-expands-back: {where}: {u}.n3(manager) = {n3!r} expands to "
                                    f"{None if b3 is None else str(b3) + l3}")
                if fn == "curie" or ":" in q:
                    try:
                        back = nm.expand_curie(q if ":" in q else ":" + q)
                    except ValueError:
                        back = None
                    if back is not None and str(back) != str(u):
                        return f"qname-expands-back: {where}: expand_curie({q!r}) = {back} != {u}"
        return None

    def classify(self, case, msg):
        return msg.split(":")[0]


SUITES = {"store-bind": StoreBind(), "manager-bind": ManagerBind()}
