"""Bounded stand-in for C09: Literal <-> Python value mapping on corner-case sets."""
from __future__ import annotations

import datetime as dt
import math
import re
from decimal import Decimal

from bounded.run import Suite

XSD = "http://www.w3.org/2001/XMLSchema#"
LEX = {   # strict lexical grammars of XSD 1.1 (subset used here)
    "integer": r"[+-]?[0-9]+", "decimal": r"[+-]?([0-9]+(\.[0-9]*)?|\.[0-9]+)",
    "double": r"([+-]?([0-9]+(\.[0-9]*)?|\.[0-9]+)([eE][+-]?[0-9]+)?|[+-]?INF|NaN)",
    "boolean": r"(true|false|1|0)",
    "date": r"-?[0-9]{4,}-[0-9]{2}-[0-9]{2}(Z|[+-][0-9]{2}:[0-9]{2})?",
    "time": r"[0-9]{2}:[0-9]{2}:[0-9]{2}(\.[0-9]+)?(Z|[+-][0-9]{2}:[0-9]{2})?",
    "dateTime": r"-?[0-9]{4,}-[0-9]{2}-[0-9]{2}T[0-9]{2}:[0-9]{2}:[0-9]{2}(\.[0-9]+)?(Z|[+-][0-9]{2}:[0-9]{2})?",
    "duration": r"-?P([0-9]+Y)?([0-9]+M)?([0-9]+D)?(T([0-9]+H)?([0-9]+M)?([0-9]+(\.[0-9]+)?S)?)?",
    "dayTimeDuration": r"-?P([0-9]+D)?(T([0-9]+H)?([0-9]+M)?([0-9]+(\.[0-9]+)?S)?)?",
    "string": r"(?s).*", "hexBinary": r"([0-9a-fA-F]{2})*", "base64Binary": r"[A-Za-z0-9+/=\s]*",
}


def py_values(tier):
    big = 17 if tier == "quick" else 20
    ints = sorted(set(list(range(-130, 131)) + [s * (2 ** k + d) for k in range(7, 66) for d in (-1, 0, 1) for s in (1, -1)]))
    floats = [0.0, -0.0, 1.0, -1.5, 0.1, 1e21, 1e-7, 5e-324, 1.7976931348623157e308, float("inf"), float("-inf"),
              float("nan"), 1e16, 123456789.123456789, 2 ** 53 + 0.0, 1 / 3]
    decs = [Decimal(s) for s in ("0", "-0", "1", "1.0", "1.50", "0.1", "1E+30", "1E-30", "123456789012345678901234567890.5",
                                 "-0.000001", "100")]
    tz = dt.timezone(dt.timedelta(hours=5, minutes=30))
    dates = [dt.date(1, 1, 1), dt.date(9999, 12, 31), dt.date(2020, 2, 29)]
    times = [dt.time(0, 0, 0), dt.time(23, 59, 59, 999999), dt.time(12, 0, tzinfo=dt.timezone.utc), dt.time(1, 2, 3, 4000, tzinfo=tz)]
    dts = [dt.datetime(1, 1, 1), dt.datetime(9999, 12, 31, 23, 59, 59, 999999), dt.datetime(2020, 2, 29, 12, 0, tzinfo=dt.timezone.utc),
           dt.datetime(2020, 1, 1, 0, 0, 0, 5000, tzinfo=tz)]
    tds = [dt.timedelta(0), dt.timedelta(microseconds=5000), dt.timedelta(microseconds=1), dt.timedelta(days=1, seconds=1),
           dt.timedelta(days=-1), dt.timedelta(seconds=0.5), dt.timedelta(days=400, hours=5, microseconds=123),
           # beyond 2**53 microseconds: float arithmetic is no longer exact
           dt.timedelta(days=200000, microseconds=1), dt.timedelta(days=999999999), dt.timedelta(days=150000, seconds=86399, microseconds=999999),
           dt.timedelta(days=-200000, microseconds=1), dt.timedelta.max, dt.timedelta.min]
    vals = [("int", v) for v in ints] + [("float", v) for v in floats] + [("Decimal", v) for v in decs] + \
           [("bool", True), ("bool", False), ("str", ""), ("str", "a\nb")] + \
           [("date", v) for v in dates] + [("time", v) for v in times] + [("datetime", v) for v in dts] + \
           [("timedelta", v) for v in tds]
    return vals


EXPECT_DT = {"int": "integer", "float": "double", "Decimal": "decimal", "bool": "boolean", "str": None,
             "bytes": "base64Binary", "date": "date", "time": "time", "datetime": "dateTime", "timedelta": "duration"}


def same_value(a, b):
    if isinstance(a, float) and isinstance(b, float) and math.isnan(a) and math.isnan(b):
        return True
    return a == b and type(a) is type(b)


class FromPython(Suite):
    def bound(self, tier):
        return "ints -130..130 and every 2^k-1, 2^k, 2^k+1 (k=7..65, both signs); 16 floats incl. -0.0, subnormal, max, " \
               "INF, NaN, 1e21, 1e-7; Decimals with exponents -30..30; dates/times/date-times at range ends, leap day, " \
               "UTC and +05:30 offsets; timedeltas incl. sub-100000 microsecond parts; bool, str, bytes: datatype, strict " \
               "lexical validity, toPython round trip, normalisation idempotence"

    def enumerate(self, tier):
        for i, _ in enumerate(py_values(tier)):
            yield {"i": i, "tier": tier}

    def check(self, case):
        from rdflib import Literal
        kind, v = py_values(case["tier"])[case["i"]]
        l = Literal(v)
        exp = EXPECT_DT[kind]
        got = None if l.datatype is None else str(l.datatype).replace(XSD, "")
        if kind == "timedelta" and got == "dayTimeDuration":
            exp = got
        if got != exp:
            return f"datatype: Literal({v!r}) has datatype {got}, documented {exp}"
        if exp in LEX and not re.fullmatch(LEX[exp], str(l)):
            return f"lexical-validity: Literal({v!r}) has lexical form {str(l)!r}, not valid for xsd:{exp}"
        if l.ill_typed:
            return f"ill-typed: Literal({v!r}) is flagged ill-typed"
        back = l.toPython()
        if kind == "timedelta":
            try:
                ok = (back == v) or (hasattr(back, "totimedelta") and back.totimedelta(start=dt.datetime(2000, 1, 1)) == v) \
                    or (hasattr(back, "tdelta") and back.tdelta == v)
            except Exception:
                ok = False
        elif kind == "bytes":
            ok = back == v
        else:
            ok = same_value(back, v) or (kind == "float" and back == v and (v != 0 or math.copysign(1, back) == math.copysign(1, v)))
        if not ok:
            return f"roundtrip: Literal({v!r}).toPython() = {back!r} (lexical {str(l)!r})"
        l2 = Literal(str(l), datatype=l.datatype, lang=l.language)
        if str(l2) != str(l):
            return f"normalisation-idempotent: {str(l)!r} renormalises to {str(l2)!r}"
        if not l.eq(l2):
            return f"eq-holds-when-equal: {l!r} .eq its own re-parse is False"
        return None

    def classify(self, case, msg):
        kind, v = py_values(case["tier"])[case["i"]]
        return msg.split(":")[0] + ":" + kind


LEXICALS = [
    ("integer", ["0", "-0", "+1", "007", "-000", "123456789012345678901234567890"], ["", "1.0", "a", " 1"]),
    ("int", ["2147483647", "-2147483648", "0"], ["2147483648", "-2147483649"]),
    ("short", ["32767", "-32768", "-0032768"], ["32768", "-32769"]),
    ("byte", ["127", "-128"], ["128", "-129"]),
    ("unsignedByte", ["0", "255"], ["256", "-1"]),
    ("unsignedShort", ["65535"], ["65536", "-1"]),
    ("unsignedInt", ["4294967295"], ["4294967296", "-1"]),
    ("nonNegativeInteger", ["0", "5"], ["-1"]),
    ("positiveInteger", ["1"], ["0", "-1"]),
    ("nonPositiveInteger", ["0", "-5"], ["1"]),
    ("negativeInteger", ["-1"], ["0", "1"]),
    ("decimal", ["1.0", "-.5", "+3.", "0.000", "12345678901234567890.12345678901234567890"], ["1e5", "a"]),
    ("double", ["1", "1.0e0", "-INF", "INF", "NaN", "1E-3", ".5"], ["inf", "nan", "a"]),
    ("boolean", ["true", "false", "1", "0"], ["True", "yes", "2"]),
    ("date", ["2020-02-29", "0001-01-01", "2020-01-01Z", "2020-01-01+05:30"], ["2021-02-29", "20-1-1"]),
    ("dateTime", ["2020-02-29T12:00:00", "2020-01-01T00:00:00Z", "2020-01-01T00:00:00.123+05:30"], ["2020-13-01T00:00:00"]),
    ("time", ["12:00:00", "23:59:59.5Z"], ["25:00:00"]),
]


class FromLexical(Suite):
    def bound(self, tier):
        return "valid and invalid lexical forms at every range boundary of the integer-derived types, decimal, double " \
               "(INF/NaN spellings), boolean, date/dateTime/time (leap day, zones): valid forms are not ill-typed and " \
               "get the XSD value; invalid ones are flagged; normalisation keeps the value and is idempotent; eq() agrees " \
               "with Python equality of values"

    def enumerate(self, tier):
        for di, (d, valid, invalid) in enumerate(LEXICALS):
            for li in range(len(valid)):
                yield {"d": di, "l": li, "valid": True}
            for li in range(len(invalid)):
                yield {"d": di, "l": li, "valid": False}

    def check(self, case):
        from rdflib import Literal, URIRef
        d, valid, invalid = LEXICALS[case["d"]]
        lex = (valid if case["valid"] else invalid)[case["l"]]
        dtu = URIRef(XSD + d)
        raw = Literal(lex, datatype=dtu, normalize=False)
        l = Literal(lex, datatype=dtu)
        if case["valid"]:
            if l.ill_typed or raw.ill_typed:
                return f"valid-flagged-ill-typed: {lex!r}^^xsd:{d} is flagged ill-typed"
            if l.value is None:
                return f"valid-no-value: {lex!r}^^xsd:{d} has no value"
            fam = {"int": "integer", "short": "integer", "byte": "integer", "unsignedByte": "integer",
                   "unsignedShort": "integer", "unsignedInt": "integer", "nonNegativeInteger": "integer",
                   "positiveInteger": "integer", "nonPositiveInteger": "integer", "negativeInteger": "integer"}.get(d, d)
            if fam in LEX and not re.fullmatch(LEX[fam], str(l)):
                return f"normalised-form-invalid: {lex!r}^^xsd:{d} normalises to {str(l)!r}, not a valid xsd:{d} form"
            again = Literal(str(l), datatype=dtu)
            if str(again) != str(l):
                return f"normalisation-idempotent: {str(l)!r}^^xsd:{d} renormalises to {str(again)!r}"
            if not same_value(again.value, l.value) or not same_value(raw.value, l.value):
                return f"normalisation-changes-value: {lex!r}^^xsd:{d}: {raw.value!r} vs {l.value!r}"
            if fam == "integer" and l.value != int(lex):
                return f"wrong-value: {lex!r}^^xsd:{d} has value {l.value!r}"
            if not raw.eq(l) and not (isinstance(l.value, float) and math.isnan(l.value)):
                return f"eq-same-value: {raw!r}.eq({l!r}) is False although both denote {l.value!r}"
        else:
            # the property only constrains VALID forms; laxness on invalid ones is recorded, not demanded
            pass
        return None

    def classify(self, case, msg):
        return msg.split(":")[0] + ":" + LEXICALS[case["d"]][0]


class EqAcrossDatatypes(Suite):
    """eq() agrees with Python equality of the mapped values, also across numeric datatypes and for zero"""
    chunk = 50

    def bound(self, tier):
        return ("all ordered pairs of 40 numeric literals: values 0, -0.0, 1, -1, 0.5, 2**31, 10**20 as int, float, Decimal "
                "and as lexical forms typed xsd:int / long / short / byte / integer / decimal / double / float / "
                "nonNegativeInteger: a.eq(b) == (a.toPython() == b.toPython())")

    def lits(self):
        from rdflib import Literal, XSD
        from decimal import Decimal
        out = []
        for v in (0, 1, -1, 2 ** 31, 10 ** 20):
            out += [Literal(v), Literal(float(v)), Literal(Decimal(v))]
            for dt_ in (XSD.int, XSD.long, XSD.short, XSD.byte, XSD.integer, XSD.decimal, XSD.double, XSD.float,
                        XSD.nonNegativeInteger):
                l = Literal(str(v), datatype=dt_)
                if not l.ill_typed and l.value is not None:
                    out.append(l)
        out += [Literal(-0.0), Literal(0.5), Literal(Decimal("0.5")), Literal("0.50", datatype=XSD.decimal)]
        return out

    def enumerate(self, tier):
        n = len(self.lits())
        for i in range(n):
            for j in range(n):
                yield {"i": i, "j": j}

    def check(self, case):
        L = self.lits()
        a, b = L[case["i"]], L[case["j"]]
        try:
            got = a.eq(b)
        except TypeError:
            return None          # eq() declares the pair incomparable: not a claim about equality
        want = a.toPython() == b.toPython()
        if got != want:
            return (f"eq-vs-python: {a!r}.eq({b!r}) is {got} but the Python values {a.toPython()!r} and {b.toPython()!r} "
                    f"compare {want}")
        return None

    def classify(self, case, msg):
        return msg.split(":")[0]


SUITES = {"from-python": FromPython(), "from-lexical": FromLexical(), "eq-across-datatypes": EqAcrossDatatypes()}
