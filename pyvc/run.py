"""Run all contracts of a contract module; print/return reports.  (python3-vt)"""
from __future__ import annotations

import importlib
import json
import sys
import time


def run_module(modname, only=None, timeout_ms=None, verbose=True):
    from .prove import verify_function
    mod = importlib.import_module(modname)
    model = mod.build()
    reports = []
    cs = list(model.contracts.values()) + list(model.func_contracts.values())
    for c in cs:
        if c.trusted or c.inline and not getattr(c, "verify_inline", False):
            continue
        if only and not any(o in c.name for o in only):
            continue
        t0 = time.time()
        rep = verify_function(model, c, timeout_ms)
        reports.append(rep)
        if verbose:
            nob = len(rep.obligations)
            npr = sum(1 for o in rep.obligations if o["status"] == "proved")
            print(f"[{rep.status:9}] {c.name:45} paths={rep.paths:3} obligations={npr}/{nob} {rep.seconds:.2f}s {rep.reason[:300]}")
            for o in rep.obligations:
                if o["status"] != "proved":
                    print("      -", o["status"], o["name"], o["where"], o.get("reason", ""))
            for m in rep.models[:2]:
                print("      model:", json.dumps(m)[:600])
            sys.stdout.flush()
    return model, reports


if __name__ == "__main__":
    run_module(sys.argv[1], sys.argv[2:] or None)
