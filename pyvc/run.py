"""Run all contracts of a contract module; print/return reports.  (python3-vt)"""
from __future__ import annotations

import importlib
import json
import sys
import time


def run_module(modname, only=None, timeout_ms=None, verbose=True):
    from .prove import verify_function
    mod = importlib.import_module(modname)
    model = mod.build()
    reports = []
    cs = list(model.contracts.values()) + list(model.func_contracts.values())
    for c in cs:
        if c.trusted or c.inline and not getattr(c, "verify_inline", False):
            continue
        if only and not any(o in c.name for o in only):
            continue
        t0 = time.time()
        k = getattr(c, "split_bits", 0)
        if k and __import__("os").environ.get("PYVC_PAR", "1") == "1":
            rep = par_verify(modname, c, k, timeout_ms)
        else:
            rep = verify_function(model, c, timeout_ms)
        reports.append(rep)
        if verbose:
            nob = len(rep.obligations)
            npr = sum(1 for o in rep.obligations if o["status"] == "proved")
            print(f"[{rep.status:9}] {c.name:45} paths={rep.paths:3} obligations={npr}/{nob} {rep.seconds:.2f}s {rep.reason[:300]}")
            for o in rep.obligations:
                if o["status"] != "proved":
                    print("      -", o["status"], o["name"], o["where"], o.get("reason", ""))
            for m in rep.models[:2]:
                print("      model:", json.dumps(m)[:600])
            sys.stdout.flush()
    return model, reports


def _slice(a):
    modname, cname, timeout_ms, bits = a
    import importlib
    from .prove import verify_function
    model = importlib.import_module(modname).build()
    c = [x for x in list(model.contracts.values()) + list(model.func_contracts.values()) if x.name == cname][0]
    r = verify_function(model, c, timeout_ms, forced=bits)
    r.contract = None
    return r


def par_verify(modname, c, k, timeout_ms):
    import itertools
    import multiprocessing as mp
    tasks = [(modname, c.name, timeout_ms, tuple(b)) for b in itertools.product((True, False), repeat=k)]
    with mp.Pool(16) as pool:
        reps = pool.map(_slice, tasks, chunksize=1)
    m = reps[0]
    rank = {"error": 4, "failed": 3, "undecided": 2, "proved": 1}
    for r in reps[1:]:
        m.paths += r.paths
        m.obligations += r.obligations
        m.models += r.models
        m.seconds = max(m.seconds, r.seconds)
        if rank.get(r.status, 0) > rank.get(m.status, 0):
            m.status, m.reason = r.status, r.reason
    return m


if __name__ == "__main__":
    run_module(sys.argv[1], sys.argv[2:] or None)
