"""Locate the real functions in /repo by qualified name; hash them; list what is dropped."""
from __future__ import annotations

import ast
import hashlib
import os

REPO = os.environ.get("VERIF_REPO", "/repo")

_MODULE_CACHE: dict[str, tuple] = {}


def load_module(relpath: str):
    path = os.path.join(REPO, relpath)
    st = os.stat(path)
    key = (path, st.st_mtime_ns, st.st_size)
    c = _MODULE_CACHE.get(relpath)
    if c and c[0] == key:
        return c[1], c[2]
    src = open(path, encoding="utf-8").read()
    tree = ast.parse(src, filename=path)
    _MODULE_CACHE[relpath] = (key, tree, src)
    return tree, src


class FunctionSource:
    def __init__(self, relpath, qualname, node, cls, src_segment, module_tree):
        self.relpath, self.qualname, self.node, self.cls = relpath, qualname, node, cls
        self.segment = src_segment
        self.module_tree = module_tree
        self.sha = hashlib.sha256(src_segment.encode()).hexdigest()[:16]
        self.lineno = node.lineno

    def where(self):
        return f"{self.relpath}:{self.lineno} {self.qualname}"


def find_function(relpath: str, qualname: str) -> FunctionSource:
    """qualname like 'Memory.add' or 'MulPath.eval._fwd' or 'split_uri'.
    When several definitions share a name (@overload), the last one wins, as in CPython."""
    tree, src = load_module(relpath)
    parts = qualname.split(".")
    body = tree.body
    node = None
    cls = None
    for i, part in enumerate(parts):
        found = None
        for n in _iter_defs(body):
            if isinstance(n, (ast.FunctionDef, ast.AsyncFunctionDef, ast.ClassDef)) and n.name == part:
                found = n  # keep last
        if found is None:
            raise KeyError(f"{qualname} not found in {relpath} (at '{part}')")
        node = found
        if isinstance(node, ast.ClassDef):
            cls = node.name
        body = node.body
    if not isinstance(node, (ast.FunctionDef, ast.AsyncFunctionDef)):
        raise KeyError(f"{qualname} in {relpath} is not a function")
    seg = ast.get_source_segment(src, node) or ""
    return FunctionSource(relpath, qualname, node, cls, seg, tree)


def _iter_defs(body):
    """Definitions directly in a body, looking through if/try/with wrappers."""
    for n in body:
        if isinstance(n, (ast.FunctionDef, ast.AsyncFunctionDef, ast.ClassDef)):
            yield n
        elif isinstance(n, ast.If):
            yield from _iter_defs(n.body)
            yield from _iter_defs(n.orelse)
        elif isinstance(n, ast.Try):
            yield from _iter_defs(n.body)
            for h in n.handlers:
                yield from _iter_defs(h.body)
            yield from _iter_defs(n.orelse)
            yield from _iter_defs(n.finalbody)
        elif isinstance(n, (ast.With,)):
            yield from _iter_defs(n.body)


def find_class(relpath: str, clsname: str):
    tree, src = load_module(relpath)
    for n in _iter_defs(tree.body):
        if isinstance(n, ast.ClassDef) and n.name == clsname:
            return n
    raise KeyError(f"class {clsname} not in {relpath}")


def module_constant(relpath: str, name: str):
    """Literal value of a module-level assignment NAME = <literal> (ast.literal_eval), else raises."""
    tree, src = load_module(relpath)
    val = None
    found = False
    for n in tree.body:
        if isinstance(n, ast.Assign):
            for t in n.targets:
                if isinstance(t, ast.Name) and t.id == name:
                    val = n.value
                    found = True
        elif isinstance(n, ast.AnnAssign) and isinstance(n.target, ast.Name) and n.target.id == name and n.value:
            val = n.value
            found = True
    if not found:
        raise KeyError(name)
    return val


def mangle(cls: str | None, attr: str) -> str:
    if cls and attr.startswith("__") and not attr.endswith("__"):
        return "_" + cls.lstrip("_") + attr
    return attr


DROPPED = ("type annotations", "docstrings", "@overload stubs (last definition taken)",
           "if TYPE_CHECKING blocks", "warnings.warn(...) and logger.*(...) calls (treated as pass)",
           "typing.cast(T, x) (treated as x)")
