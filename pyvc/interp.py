"""PyVC interpreter: path-by-path symbolic execution of real Python function ASTs.

Supported subset and encoding: see DESIGN.md section 2.2.  Anything else raises
Unsupported, which makes the function 'undecided' (never a violation).
"""
from __future__ import annotations

import ast
import z3

from .core import (card_fn, BOOL, INT, STR, ClassInfo, ConcreteSeq, Infeasible, LazyContainer, LiveView, Path, PathEnd,
                   PyExc, Snapshot, SV, SymIter, TAList, TDict, TList, TObj, TOpt, TRefBase, TSet, TTuple,
                   TUn, Ty, Unsupported, _TBool, _TInt, _TStr, class_mro, exc_isinstance,
                   field_type, option_sort, CLASSES)
from .source import mangle


class _Return(Exception):
    def __init__(self, v):
        self.v = v


class _Break(Exception):
    pass


class _Continue(Exception):
    pass


class Poison:
    def __init__(self, name, why):
        self.name, self.why = name, why


class PyFunc:
    def __init__(self, node, env, cls=None, qualname=None, relpath=None):
        self.node, self.env, self.cls, self.qualname, self.relpath = node, env, cls, qualname, relpath
        self.is_gen = any(isinstance(n, (ast.Yield, ast.YieldFrom)) for n in _walk_no_nested(node))


class Builtin:
    def __init__(self, name, fn):
        self.name, self.fn = name, fn


class ClassRef:
    """A class object known to the model (exception classes, term classes, Graph, ...)."""

    def __init__(self, name, construct=None, isinstance_fn=None):
        self.name, self.construct, self.isinstance_fn = name, construct, isinstance_fn


class ModuleNS:
    def __init__(self, name, attrs):
        self.name, self.attrs = name, attrs


class BoundMethod:
    def __init__(self, obj, name, target):
        self.obj, self.name, self.target = obj, name, target


class ExcValue:
    def __init__(self, etype, args):
        self.etype, self.args = etype, args


class GenObj:
    """A generator object produced by calling an interpreted generator function inline
    or by a generator expression over concrete data: we only support eager expansion."""

    def __init__(self, items):
        self.items = items


def _walk_no_nested(fnode):
    """Walk a function body without entering nested function/class definitions/lambdas."""
    todo = list(fnode.body)
    while todo:
        n = todo.pop()
        yield n
        for ch in ast.iter_child_nodes(n):
            if isinstance(ch, (ast.FunctionDef, ast.AsyncFunctionDef, ast.ClassDef, ast.Lambda)):
                continue
            todo.append(ch)


def always_exits(body):
    """syntactic: executing the block always ends in return/raise (so a loop with this body runs at
    most one iteration)"""
    if not body:
        return False
    last = body[-1]
    if any(isinstance(n, ast.Continue) for b in body for n in ast.walk(b)):
        return False
    if isinstance(last, (ast.Return, ast.Raise)):
        return True
    if isinstance(last, ast.If):
        return always_exits(last.body) and always_exits(last.orelse)
    return False


def assigned_names(nodes):
    out = set()
    for n in nodes:
        for x in ast.walk(n):
            if isinstance(x, ast.Name) and isinstance(x.ctx, (ast.Store, ast.Del)):
                out.add(x.id)
    return out


class LoopSpec:
    """inv(ctx)->z3 Bool; ctx has .path .env .done (z3 array for 'for' loops) .st (StateView)
    modifies: list of Ty (heap types) / (cls, field) havocked; var_types: name->Ty for havoc;
    variant(ctx)->z3 Int optional."""

    def __init__(self, inv, modifies=(), var_types=None, variant=None, fingerprint=None, ghost=None,
                 allocates=False, breaks=None):
        self.inv, self.modifies, self.var_types = inv, list(modifies), dict(var_types or {})
        self.variant, self.fingerprint = variant, fingerprint
        self.ghost = ghost
        self.allocates = allocates   # the body may create objects: the allocation counter is havocked upwards
        # for/else with break: breaks(ctx, x) -> z3 Bool "the iteration on element x leaves the loop by break".  It must
        # not depend on state the body changes.  Obligations: a breaking iteration satisfies it, a completed one does
        # not; the else-branch / fall-through path then carries the CONDITION "no element breaks" (exact, not merely
        # the invariant), which is what generator completeness needs.
        self.breaks = breaks


class LoopCtx:
    def __init__(self, interp, env, done=None, member=None, elem=None):
        self.interp, self.path, self.env, self.done, self.member, self.elem = \
            interp, interp.path, env, done, member, elem
        # frames of the enclosing invariant loops (outermost first): dicts with ordinal, done, x, state, env
        self.outer = list(interp.path.ghost.get("__loopframes__", []))

    @property
    def st(self):
        return self.path.snapshot_state()


class Interp:
    def __init__(self, path: Path, model, fsrc=None, loops=None, on_yield=None, cls=None):
        """model: the property's modelling environment (see contracts/base.py):
        provides globals(name), attr(interp, obj, name), call_method(...), etc."""
        self.path = path
        self.model = model
        self.loops = loops or {}
        self.on_yield = on_yield
        self.loop_counter = 0
        self.depth = 0
        self.heap_writes = 0
        self.cls_stack = [cls]
        self.fsrc = fsrc
        self.loop_events = []
        self.interference = None
        self.callctx = None

    # ------------------------------------------------------------------ utils
    @property
    def cur_cls(self):
        return self.cls_stack[-1]

    def where(self, node):
        f = self.fsrc.relpath if self.fsrc else "?"
        return f"{f}:{getattr(node, 'lineno', '?')}"

    def raise_(self, etype, *args, node=None):
        raise PyExc(etype, args, self.where(node) if node is not None else None)

    def deref(self, v):
        if isinstance(v, LazyContainer):
            if v.resolved is None:
                ty = self.model.default_container_type(self, v) if hasattr(self.model, "default_container_type") else None
                if ty is None:
                    raise Unsupported(f"{v.kind} literal used before its type is known")
                return self.path.resolve_lazy(v, ty)
            return v.resolved
        return v

    # ------------------------------------------------------------------ truthiness
    def truthy(self, v):
        """-> python bool or z3 Bool."""
        p = self.path
        if isinstance(v, LazyContainer) and v.resolved is None:
            return len(v.items) > 0
        v = self.deref(v)
        if v is None:
            return False
        if isinstance(v, bool):
            return v
        if isinstance(v, int):
            return v != 0
        if isinstance(v, str):
            return len(v) > 0
        if isinstance(v, tuple):
            return len(v) > 0
        if isinstance(v, ConcreteSeq):
            return len(v.items) > 0
        if isinstance(v, ExcValue):
            return True        # exception instances define neither __bool__ nor __len__
        if isinstance(v, SV):
            ty = v.ty
            if isinstance(ty, _TBool):
                return v.z
            if isinstance(ty, _TInt):
                return v.z != 0
            if isinstance(ty, _TStr):
                return z3.Length(v.z) > 0
            if isinstance(ty, TOpt):
                if ty.inner.is_ref:
                    inner = self.truthy(SV(ty.inner, v.z))
                    return z3.And(v.z != 0, _zb(inner))
                os_ = option_sort(ty.inner.sort())
                inner = self.truthy(SV(ty.inner, os_.get(v.z)))
                return z3.And(z3.Not(os_.is_none(v.z)), _zb(inner))
            if isinstance(ty, TUn):
                if ty.truthy_fn is None:
                    return True
                return ty.truthy_fn(v.z)
            if isinstance(ty, TDict):
                return self.model.nonempty_dict(self, v)
            if isinstance(ty, TSet):
                return self.model.nonempty_set(self, v)
            if isinstance(ty, TList):
                return z3.Length(p.content(v)) > 0
            if isinstance(ty, TAList):
                return ty.length(p.content(v)) > 0
            if isinstance(ty, TObj):
                for c in class_mro(ty.cls):
                    ci = CLASSES.get(c)
                    if ci and ci.truthy:
                        return ci.truthy(self, v)
                return True
            if isinstance(ty, TTuple):
                return len(ty.items) > 0
        if isinstance(v, Snapshot):
            return self.snapshot_nonempty(v)
        if isinstance(v, (PyFunc, Builtin, ClassRef, BoundMethod, ModuleNS)):
            return True
        if isinstance(v, SymIter):
            return True
        raise Unsupported(f"truthiness of {type(v).__name__}")

    def test(self, v) -> bool:
        return self.path.choose(self.truthy(v))

    # ------------------------------------------------------------------ snapshots
    def snap_info(self, s: Snapshot):
        """Lazily create (nonempty, witness1, witness2, count) with their axioms."""
        if getattr(s, "_info", None) is None:
            p = self.path
            es = s.elem_ty.sort()
            w1 = z3.Const(p.fresh_name("w1"), es)
            w2 = z3.Const(p.fresh_name("w2"), es)
            ne = z3.Bool(p.fresh_name("nonempty"))
            e = z3.Const(p.fresh_name("e"), es)
            e2 = z3.Const(p.fresh_name("e2"), es)
            p.assume(ne == s.member(w1))
            p.assume(z3.Implies(z3.Not(ne), z3.ForAll([e], z3.Not(s.member(e)))))
            n = s.count if s.count is not None else z3.Int(p.fresh_name("len"))
            p.assume(n >= 0)
            p.assume((n == 0) == z3.Not(ne))
            if s.distinct is True:
                two = z3.And(s.member(w1), s.member(w2), w1 != w2)
                p.assume((n >= 2) == two)
                p.assume(z3.Implies(n < 2, z3.ForAll([e, e2], z3.Implies(
                    z3.And(s.member(e), s.member(e2)), e == e2))))
            else:
                # with possible duplicates only: n>=1 iff nonempty
                pass
            s._info = (ne, w1, w2, n)
        return s._info

    def snapshot_nonempty(self, s):
        return self.snap_info(s)[0]

    def snapshot_len(self, s):
        return SV(INT, self.snap_info(s)[3])

    # ------------------------------------------------------------------ equality
    def eq(self, a, b):
        """Python == on runtime values -> bool or z3 Bool."""
        p = self.path
        a, b = self.deref(a), self.deref(b)
        if a is None or b is None:
            if a is None and b is None:
                return True
            other = b if a is None else a
            if isinstance(other, SV) and isinstance(other.ty, TOpt):
                return self.is_none(other)
            return False
        if isinstance(a, (bool, int, str)) and isinstance(b, (bool, int, str)) :
            return a == b
        if isinstance(a, tuple) or isinstance(b, tuple):
            if isinstance(a, tuple) and isinstance(b, tuple):
                if len(a) != len(b):
                    return False
                return _zand([self.eq(x, y) for x, y in zip(a, b)])
            t, o = (a, b) if isinstance(a, tuple) else (b, a)
            if isinstance(o, SV) and isinstance(o.ty, TTuple):
                return self.eq(t, p.project(o.ty, o.z))
            return False
        if isinstance(a, SV) and isinstance(b, SV):
            if isinstance(a.ty, TOpt) or isinstance(b.ty, TOpt):
                ty = a.ty if isinstance(a.ty, TOpt) else b.ty
                return p.inject(ty, a) == p.inject(ty, b) if not isinstance(a.ty, TOpt) or not isinstance(b.ty, TOpt) \
                    else a.z == b.z
            if isinstance(a.ty, (TDict, TSet)) and a.ty == b.ty:
                # container equality is extensional on contents
                return p.content(a) == p.content(b)
            if isinstance(a.ty, TList) and a.ty == b.ty:
                return p.content(a) == p.content(b)
            if a.ty.sort() == b.ty.sort():
                if isinstance(a.ty, TObj):
                    eqm = self.model.obj_eq(self, a, b)
                    if eqm is not None:
                        return eqm
                return a.z == b.z
            return self.model.cross_eq(self, a, b)
        if isinstance(a, SV) or isinstance(b, SV):
            s, c = (a, b) if isinstance(a, SV) else (b, a)
            if isinstance(s.ty, _TInt) and isinstance(c, (int, bool)):
                return s.z == int(c)
            if isinstance(s.ty, _TBool) and isinstance(c, (int, bool)):
                return s.z == bool(c) if isinstance(c, bool) or c in (0, 1) else False
            if isinstance(s.ty, _TStr) and isinstance(c, str):
                return s.z == z3.StringVal(c)
            if isinstance(s.ty, TOpt):
                try:
                    return s.z == p.inject(s.ty, c)
                except Unsupported:
                    return False
            if isinstance(s.ty, TList) and isinstance(c, ConcreteSeq):
                seq = p.content(s)
                ez = [p.inject(s.ty.v, x) for x in c.items]
                tgt = z3.Concat(*[z3.Unit(e) for e in ez]) if len(ez) > 1 else (
                    z3.Unit(ez[0]) if ez else z3.Empty(seq.sort()))
                return seq == tgt
            return self.model.cross_eq(self, s, c)
        if isinstance(a, Snapshot) or isinstance(b, Snapshot):
            s, c = (a, b) if isinstance(a, Snapshot) else (b, a)
            if isinstance(c, ConcreteSeq):
                ne, w1, w2, n = self.snap_info(s)
                if len(c.items) == 0:
                    return z3.Not(ne)
                if len(c.items) == 1 and s.distinct:
                    return z3.And(n == 1, s.member(p.inject(s.elem_ty, c.items[0])))
            raise Unsupported("comparison of symbolic list")
        if isinstance(a, ConcreteSeq) and isinstance(b, ConcreteSeq):
            if len(a.items) != len(b.items):
                return False
            return _zand([self.eq(x, y) for x, y in zip(a.items, b.items)])
        if isinstance(a, ClassRef) and isinstance(b, ClassRef):
            return a.name == b.name
        raise Unsupported(f"== on {type(a).__name__},{type(b).__name__}")

    def is_none(self, v):
        if v is None:
            return True
        if isinstance(v, SV) and isinstance(v.ty, TOpt):
            if v.ty.inner.is_ref:
                return v.z == 0
            return option_sort(v.ty.inner.sort()).is_none(v.z)
        return False

    def identical(self, a, b):
        if isinstance(a, LazyContainer) and isinstance(b, LazyContainer) and (a.resolved is None or b.resolved is None):
            return a is b
        a, b = self.deref(a), self.deref(b)
        if hasattr(self.model, "identical_hook"):
            r = self.model.identical_hook(self, a, b)
            if r is not NotImplemented:
                return r
        if a is None or b is None:
            return _zand([self.is_none(a), self.is_none(b)])
        if isinstance(a, bool) and isinstance(b, bool):
            return a is b
        if isinstance(a, SV) and isinstance(b, SV) and a.ty.is_ref and b.ty.is_ref:
            if type(a.ty) is not type(b.ty):
                return False
            return a.z == b.z
        if isinstance(a, SV) and isinstance(b, SV) and a.ty.sort() == b.ty.sort():
            if a.z.eq(b.z):
                return True
            r = self.model.value_identity(self, a, b)
            if r is not NotImplemented:
                return r
            raise Unsupported("'is' on non-reference symbolic values")
        if isinstance(a, ClassRef) and isinstance(b, ClassRef):
            return a.name == b.name
        if isinstance(a, (SV,)) or isinstance(b, (SV,)):
            s, c = (a, b) if isinstance(a, SV) else (b, a)
            if isinstance(s.ty, _TBool) and isinstance(c, bool):
                return s.z == c
            return False
        return a is b

    # ------------------------------------------------------------------ functions
    def make_env(self, fn: PyFunc, args, kwargs):
        node = fn.node
        a = node.args
        env = {"__parent__": fn.env}
        params = [x.arg for x in a.posonlyargs + a.args]
        defaults = list(a.defaults)
        dstart = len(params) - len(defaults)
        if a.vararg:
            env[a.vararg.arg] = tuple(args[len(params):])
            args = args[:len(params)]
        if len(args) > len(params):
            raise PyExc("TypeError", ("too many positional arguments",))
        for i, name in enumerate(params):
            if i < len(args):
                env[name] = args[i]
            elif name in kwargs:
                env[name] = kwargs.pop(name)
            elif i >= dstart:
                env[name] = self.eval(defaults[i - dstart], fn.env)
            else:
                raise PyExc("TypeError", (f"missing argument {name}",))
        for kw, d in zip(a.kwonlyargs, a.kw_defaults):
            if kw.arg in kwargs:
                env[kw.arg] = kwargs.pop(kw.arg)
            elif d is not None:
                env[kw.arg] = self.eval(d, fn.env)
            else:
                raise PyExc("TypeError", (f"missing kw argument {kw.arg}",))
        if a.kwarg:
            env[a.kwarg.arg] = dict(kwargs)   # python-level dict of the extra keywords (passed on by **kw calls)
            kwargs = {}
        if kwargs:
            raise PyExc("TypeError", (f"unexpected keyword {list(kwargs)}",))
        return env

    def call_pyfunc(self, fn: PyFunc, args, kwargs):
        """Inline execution of an interpreted function (non-generator)."""
        if fn.is_gen:
            raise Unsupported(f"inline call of generator {fn.qualname}")
        if self.depth > 40:
            raise Unsupported("inline recursion too deep")
        env = self.make_env(fn, list(args), dict(kwargs))
        self.index_loops(fn.node)
        self.depth += 1
        self.cls_stack.append(fn.cls)
        saved_loops, saved_counter = self.loops, self.loop_counter
        self.loops, self.loop_counter = getattr(fn, "loops", {}) or {}, 0
        try:
            self.exec_block(fn.node.body, env)
            return None
        except _Return as r:
            return r.v
        finally:
            self.depth -= 1
            self.cls_stack.pop()
            self.loops, self.loop_counter = saved_loops, saved_counter

    def run_function(self, fn: PyFunc, args, kwargs):
        """Top-level execution of the function under verification (may be a generator)."""
        env = self.make_env(fn, list(args), dict(kwargs))
        self.index_loops(fn.node)
        self.cls_stack.append(fn.cls)
        try:
            self.exec_block(fn.node.body, env)
            return None
        except _Return as r:
            return r.v
        finally:
            self.cls_stack.pop()

    def call(self, f, args, kwargs, node=None):
        if isinstance(f, PyFunc):
            return self.call_pyfunc(f, args, kwargs)
        if isinstance(f, Builtin):
            return f.fn(self, args, kwargs)
        if isinstance(f, BoundMethod):
            return f.target(self, f.obj, args, kwargs)
        if isinstance(f, ClassRef):
            if f.construct is None:
                raise Unsupported(f"constructing {f.name}")
            return f.construct(self, args, kwargs)
        raise Unsupported(f"call of {type(f).__name__}")

    # ------------------------------------------------------------------ names
    def lookup(self, name, env, node=None):
        e = env
        while e is not None:
            if name in e:
                v = e[name]
                if isinstance(v, Poison):
                    raise Unsupported(f"variable '{name}' is loop-carried ({v.why}); loop needs an invariant")
                return v
            e = e.get("__parent__")
        return self.model.global_name(self, name, node)

    # ------------------------------------------------------------------ statements
    def exec_block(self, stmts, env):
        for s in stmts:
            self.exec_stmt(s, env)

    def exec_stmt(self, s, env):
        m = getattr(self, "s_" + type(s).__name__, None)
        if m is None:
            raise Unsupported(f"statement {type(s).__name__} at {self.where(s)}")
        return m(s, env)

    def s_Pass(self, s, env):
        pass

    def s_Expr(self, s, env):
        if isinstance(s.value, ast.Constant):
            return  # docstring
        if self.is_dropped_call(s.value):
            self.path.dropped.append(f"{self.where(s)}: {ast.unparse(s.value)[:60]}")
            return
        self.eval(s.value, env)

    def is_dropped_call(self, e):
        if isinstance(e, ast.Call) and isinstance(e.func, ast.Attribute) and isinstance(e.func.value, ast.Name):
            if e.func.value.id == "warnings" and e.func.attr == "warn":
                return True
            if e.func.value.id in ("logger", "_logger", "log") and e.func.attr in (
                    "debug", "info", "warning", "error", "exception", "critical"):
                return True
        return False

    def s_Assign(self, s, env):
        v = self.eval(s.value, env)
        for t in s.targets:
            self.assign(t, v, env)

    def s_AnnAssign(self, s, env):
        if s.value is not None:
            self.assign(s.target, self.eval(s.value, env), env)

    def s_AugAssign(self, s, env):
        if isinstance(s.target, ast.Name):
            cur = self.lookup(s.target.id, env, s)
        elif isinstance(s.target, ast.Subscript):
            cur = self.eval(ast.Subscript(value=s.target.value, slice=s.target.slice, ctx=ast.Load()), env)
        elif isinstance(s.target, ast.Attribute):
            cur = self.eval(ast.Attribute(value=s.target.value, attr=s.target.attr, ctx=ast.Load()), env)
        else:
            raise Unsupported("augassign target")
        rhs = self.eval(s.value, env)
        v = self.model.inplace_op(self, s.op, cur, rhs)
        if v is NotImplemented:
            v = self.binop(s.op, cur, rhs)
        self.assign(s.target, v, env)

    def assign(self, t, v, env):
        if isinstance(t, ast.Name):
            env[t.id] = v
        elif isinstance(t, (ast.Tuple, ast.List)):
            items = self.unpack(v, len(t.elts))
            for te, x in zip(t.elts, items):
                self.assign(te, x, env)
        elif isinstance(t, ast.Subscript):
            obj = self.eval(t.value, env)
            key = self.eval(t.slice, env)
            self.setitem(obj, key, v, t)
        elif isinstance(t, ast.Attribute):
            obj = self.eval(t.value, env)
            self.setattr(obj, mangle(self.cur_cls, t.attr), v, t)
        else:
            raise Unsupported(f"assignment target {type(t).__name__}")

    def unpack(self, v, n):
        if isinstance(v, tuple):
            if len(v) != n:
                raise PyExc("ValueError", ("unpack arity",))
            return list(v)
        if isinstance(v, ConcreteSeq):
            if len(v.items) != n:
                raise PyExc("ValueError", ("unpack arity",))
            return list(v.items)
        if isinstance(v, SV) and isinstance(v.ty, TTuple):
            return list(self.path.project(v.ty, v.z))
        if isinstance(v, SV) and isinstance(v.ty, TOpt) and isinstance(v.ty.inner, TTuple):
            pv = self.path.project(v.ty, v.z)
            if pv is None:
                raise PyExc("TypeError", ("cannot unpack None",))
            return list(pv)
        if v is None:
            raise PyExc("TypeError", ("cannot unpack None",))
        r = self.model.unpack(self, v, n)
        if r is not None:
            return r
        raise Unsupported(f"unpack of {type(v).__name__}")

    def s_Return(self, s, env):
        raise _Return(self.eval(s.value, env) if s.value is not None else None)

    def s_If(self, s, env):
        if self.test(self.eval(s.test, env)):
            self.exec_block(s.body, env)
        else:
            self.exec_block(s.orelse, env)

    def s_Assert(self, s, env):
        if not self.test(self.eval(s.test, env)):
            self.raise_("AssertionError", node=s)

    def s_Raise(self, s, env):
        if s.exc is None:
            cur = env.get("__active_exc__")
            e = env
            while cur is None and e is not None:
                cur = e.get("__active_exc__")
                e = e.get("__parent__")
            if cur is None:
                self.raise_("RuntimeError", "no active exception", node=s)
            raise cur
        v = self.eval(s.exc, env)
        if isinstance(v, ClassRef):
            raise PyExc(v.name, (), self.where(s))
        if isinstance(v, ExcValue):
            raise PyExc(v.etype, v.args, self.where(s))
        raise Unsupported("raise of non-exception value")

    def s_Try(self, s, env):
        if not s.finalbody:
            return self._try_core(s, env)
        try:
            self._try_core(s, env)
        except (Infeasible, PathEnd, Unsupported):
            raise
        except BaseException:  # PyExc, _Return, _Break, _Continue: finally runs, then propagates
            self.exec_block(s.finalbody, env)
            raise
        else:
            self.exec_block(s.finalbody, env)

    def _try_core(self, s, env):
        try:
            self.exec_block(s.body, env)
        except PyExc as e:
            for h in s.handlers:
                if self.handler_matches(h, e, env):
                    if h.name:
                        env[h.name] = ExcValue(e.etype, e.eargs)
                    saved = env.get("__active_exc__")
                    env["__active_exc__"] = e
                    try:
                        self.exec_block(h.body, env)
                    finally:
                        env["__active_exc__"] = saved
                    break
            else:
                raise
        else:
            self.exec_block(s.orelse, env)

    def handler_matches(self, h, e: PyExc, env):
        if h.type is None:
            return True
        t = self.eval(h.type, env)
        ts = t if isinstance(t, tuple) else (t,)
        for c in ts:
            if isinstance(c, ClassRef) and exc_isinstance(e.etype, c.name):
                return True
        return False

    def s_With(self, s, env):
        for item in s.items:
            v = self.eval(item.context_expr, env)
            if not self.model.is_lock(self, v):
                raise Unsupported("with on non-lock object")
            if item.optional_vars is not None:
                self.assign(item.optional_vars, v, env)
        self.exec_block(s.body, env)

    def s_Delete(self, s, env):
        for t in s.targets:
            if isinstance(t, ast.Subscript):
                obj = self.eval(t.value, env)
                key = self.eval(t.slice, env)
                self.delitem(obj, key, t)
            elif isinstance(t, ast.Name):
                env[t.id] = Poison(t.id, "deleted")
            else:
                raise Unsupported("del target")

    def s_Break(self, s, env):
        raise _Break()

    def s_Continue(self, s, env):
        raise _Continue()

    def s_Global(self, s, env):
        raise Unsupported("global statement")

    def s_Nonlocal(self, s, env):
        raise Unsupported("nonlocal statement")

    def s_Import(self, s, env):
        for a in s.names:
            env[(a.asname or a.name).split(".")[0]] = self.model.global_name(self, (a.asname or a.name).split(".")[0], s)

    def s_ImportFrom(self, s, env):
        for a in s.names:
            env[a.asname or a.name] = self.model.global_name(self, a.name, s)

    def s_FunctionDef(self, s, env):
        q = (self.fsrc.qualname + "." + s.name) if self.fsrc else s.name
        f = PyFunc(s, env, self.cur_cls, q, self.fsrc.relpath if self.fsrc else None)
        env[s.name] = self.model.nested_function(self, f)

    # ------------------------------------------------------------------ loops
    def loop_ordinal(self, s):
        """static ordinal of a loop: its position among the loops of the enclosing function in source order"""
        m = getattr(self, "_loop_ords", None)
        if m is None or id(s) not in m:
            raise Unsupported("loop outside a known function body")
        return m[id(s)]

    def index_loops(self, fnode):
        loops = [n for n in _walk_no_nested(fnode) if isinstance(n, (ast.For, ast.While))]
        loops.sort(key=lambda n: (n.lineno, n.col_offset))
        prev = getattr(self, "_loop_ords", None) or {}
        prev = dict(prev)
        for i, n in enumerate(loops):
            prev[id(n)] = i
        self._loop_ords = prev

    def s_While(self, s, env):
        ordinal = self.loop_ordinal(s)
        # concrete-condition loops are unrolled as long as the test stays concrete
        spec = self.loops.get(ordinal)
        if spec is None:
            n = 0
            while True:
                tv = self.truthy(self.eval(s.test, env))
                if not isinstance(tv, bool):
                    tv2 = z3.simplify(tv)
                    if z3.is_true(tv2):
                        tv = True
                    elif z3.is_false(tv2):
                        tv = False
                    else:
                        raise Unsupported(f"while loop #{ordinal} at {self.where(s)} needs an invariant")
                if not tv:
                    self.exec_block(s.orelse, env)
                    return
                n += 1
                if n > 64:
                    raise Unsupported(f"while loop #{ordinal} at {self.where(s)} needs an invariant (unrolled 64x)")
                try:
                    self.exec_block(s.body, env)
                except _Break:
                    return
                except _Continue:
                    continue
        self.check_fingerprint(spec, s.test, ordinal, s)
        self.invariant_loop(spec, ordinal, s, env, None)

    def check_fingerprint(self, spec, expr, ordinal, s):
        if spec.fingerprint is not None:
            fp = ast.unparse(expr)
            if fp != spec.fingerprint:
                raise Unsupported(f"stale loop invariant for loop #{ordinal} at {self.where(s)}: "
                                  f"header is '{fp}', contract written for '{spec.fingerprint}'")

    def havoc_for_loop(self, spec: LoopSpec, body, env, extra_names=()):
        p = self.path
        names = assigned_names(body) | set(extra_names)
        for name in sorted(names):
            if name in spec.var_types:
                ty = spec.var_types[name]
            else:
                cur = env.get(name)
                if isinstance(cur, SV):
                    ty = cur.ty
                elif isinstance(cur, bool):
                    ty = BOOL
                elif isinstance(cur, int):
                    ty = INT
                elif isinstance(cur, str):
                    ty = STR
                elif name not in env or isinstance(cur, Poison):
                    env[name] = Poison(name, "assigned in loop body")
                    continue
                else:
                    raise Unsupported(f"cannot havoc loop variable '{name}' (declare var_types)")
            if ty == "poison":
                env[name] = Poison(name, "assigned in loop body")
                continue
            if callable(ty) and not hasattr(ty, "sort"):
                env[name] = ty(self)          # an arbitrary runtime value chosen by the contract (may fork the path)
                continue
            env[name] = p.fresh_sv(ty, "lv_" + name)
        for m in spec.modifies:
            if isinstance(m, tuple):
                p.havoc_field(m[0], m[1], "loop")
            elif isinstance(m, str):
                p.ghost[m] = self.model.havoc_ghost(self, m)
            else:
                p.havoc_heap_type(m, "loop")
        if getattr(spec, "allocates", False):
            a0 = p.alloc
            p.alloc = z3.Int(p.fresh_name("alloc"))
            p.assume(p.alloc >= a0)

    def invariant_loop(self, spec: LoopSpec, ordinal, s, env, it):
        """Classic invariant rule.  `it` is None for while, else the iterable description
        (elem_ty, member, distinct)."""
        p = self.path
        is_for = it is not None
        done0 = None
        if is_for:
            es = it.elem_ty.sort()
            done0 = z3.K(es, z3.BoolVal(False))
        ctx0 = LoopCtx(self, env, done0, it.member if is_for else None)
        p.oblige(f"loop{ordinal}.inv-init", _zb(spec.inv(ctx0)), self.where(s), "loop-init")
        # a live dict/set/list iterated by the loop: its content at loop entry
        live0 = (it.live, p.content(it.live)) if is_for and it.live is not None else None
        # arbitrary iteration
        self.havoc_for_loop(spec, s.body, env, assigned_names([s.target]) if is_for else ())
        if self.interference is not None and any(isinstance(n, (ast.Yield, ast.YieldFrom))
                                                 for b in s.body for n in ast.walk(b)):
            # earlier iterations may have yielded: whoever consumes the generator ran in between (same as the foreach rule)
            self.interference.after_yield(self, self.callctx, s)
        if live0 is not None:
            # inductive hypothesis of the obligation below: no earlier iteration changed the iterated container
            p.assume(p.content(live0[0]) == live0[1])
        done = None
        if is_for:
            done = z3.Array(p.fresh_name("done"), es, z3.BoolSort())
            e = z3.Const(p.fresh_name("e"), es)
            p.assume(z3.ForAll([e], z3.Implies(done[e], it.member(e))))
        ctx = LoopCtx(self, env, done, it.member if is_for else None)
        p.assume(_zb(spec.inv(ctx)), f"loop{ordinal} invariant (inductive hypothesis)")
        var0 = spec.variant(ctx) if spec.variant else None
        if is_for:
            x = z3.Const(p.fresh_name("x"), es)
            more = p.choose(z3.Bool(p.fresh_name("more")))
            if more:
                mx = it.member(x)
                p.assume(mx)
                for cj in _conj(mx):
                    p.pc_tags[z3.simplify(cj).get_id()] = "member"
                    p.pc_tags[cj.get_id()] = "member"
                if it.distinct is True:
                    p.assume(z3.Not(done[x]))
                elif z3.is_expr(it.distinct):
                    p.assume(z3.Implies(it.distinct, z3.Not(done[x])))
                self.assign(s.target, it.elem(self, x), env)
            else:
                e = z3.Const(p.fresh_name("e"), es)
                p.assume(z3.ForAll([e], done[e] == it.member(e)))
                p.assume(done == z3.Lambda([e], it.member(e)))
                if spec.breaks is not None:
                    e2 = z3.Const(p.fresh_name("e"), es)
                    p.condition(z3.ForAll([e2], z3.Implies(it.member(e2), z3.Not(_zb(spec.breaks(ctx, e2))))))
        else:
            more = self.test(self.eval(s.test, env))
        if more:
            bx = _zb(spec.breaks(ctx, x)) if (is_for and spec.breaks is not None) else None
            if is_for:
                p.ghost["__loopvars__"] = p.ghost.get("__loopvars__", []) + [(x, it)]
            frames = list(p.ghost.get("__loopframes__", []))
            p.ghost["__loopframes__"] = frames + [{"ordinal": ordinal, "done": done, "x": x if is_for else None,
                                                   "state": p.snapshot_state(), "env": env}]
            try:
                try:
                    self.exec_block(s.body, env)
                except _Continue:
                    pass
            except _Break:
                p.ghost["__loopframes__"] = frames
                if bx is not None:
                    p.oblige(f"loop{ordinal}.break-implies-break-condition", bx, self.where(s), "loop-break")
                return  # leaves the loop with whatever state; code after loop runs
            if bx is not None:
                p.oblige(f"loop{ordinal}.completed-iteration-implies-no-break-condition", z3.Not(bx), self.where(s),
                         "loop-break")
            p.ghost["__loopframes__"] = frames
            if live0 is not None:
                # Python raises (dict/set) or misbehaves (list) when the iterated container changes
                p.oblige(f"loop{ordinal}.live-iteration-unmodified", p.content(live0[0]) == live0[1], self.where(s),
                         "live-iter")
            if is_for:
                ctx2 = LoopCtx(self, env, z3.Store(done, x, True), it.member, x)
            else:
                ctx2 = LoopCtx(self, env, None)
            p.oblige(f"loop{ordinal}.inv-preserved", _zb(spec.inv(ctx2)), self.where(s), "loop-preserve")
            if spec.variant:
                v1 = spec.variant(ctx2)
                p.oblige(f"loop{ordinal}.variant-decreases", z3.And(var0 >= 0, v1 < var0),
                         self.where(s), "termination")
            raise PathEnd(f"loop{ordinal}-iteration")
        else:
            self.exec_block(s.orelse, env)

    def s_For(self, s, env):
        ordinal = self.loop_ordinal(s)
        itv = self.eval(s.iter, env)
        p = self.path
        # --- concrete sequences: unroll
        conc = self.concrete_items(itv)
        if conc is not None:
            for x in conc:
                self.assign(s.target, x, env)
                try:
                    self.exec_block(s.body, env)
                except _Break:
                    return
                except _Continue:
                    continue
            self.exec_block(s.orelse, env)
            return
        it = self.iter_descr(itv, s)
        spec = self.loops.get(ordinal)
        if spec is not None:
            self.check_fingerprint(spec, s.iter, ordinal, s)
            self.invariant_loop(spec, ordinal, s, env, it)
            return
        # --- foreach rule
        self.loop_events.append(("foreach", ordinal, self.where(s)))
        body_names = assigned_names(s.body) | assigned_names([s.target])
        if p.choose(z3.Bool(p.fresh_name("iter"))):
            # arbitrary element
            x = z3.Const(p.fresh_name("x"), it.elem_ty.sort())
            mx = it.member(x)
            p.assume(mx)
            for cj in _conj(mx):
                p.pc_tags[z3.simplify(cj).get_id()] = "member"
                p.pc_tags[cj.get_id()] = "member"
            saved = {n: env.get(n) for n in body_names if n in env}
            for n in body_names:
                env[n] = Poison(n, "assigned in a loop body without invariant")
            live_guard = None
            if it.live is not None:
                live_guard = (it.live, p.content(it.live))
            self.assign(s.target, it.elem(self, x), env)
            if self.interference is not None and any(isinstance(n, (ast.Yield, ast.YieldFrom))
                                                     for b in s.body for n in ast.walk(b)):
                # earlier iterations may have yielded: the heap at the start of an arbitrary iteration is
                # any state reachable by interfering operations
                self.interference.after_yield(self, self.callctx, s)
            hw = self.heap_writes
            p.ghost.setdefault("__loopvars__", [])
            p.ghost["__loopvars__"] = p.ghost["__loopvars__"] + [(x, it)]
            try:
                try:
                    self.exec_block(s.body, env)
                except _Continue:
                    pass
            except _Break:
                raise Unsupported(f"break in a loop without invariant at {self.where(s)}")
            if self.heap_writes != hw and not self.model.foreach_writes_ok(self, s):
                raise Unsupported(f"loop #{ordinal} at {self.where(s)} writes the heap; it needs an invariant")
            if live_guard is not None:
                ref, c0 = live_guard
                p.oblige(f"loop{ordinal}.live-iteration-unmodified", p.content(ref) == c0, self.where(s),
                         "live-iter")
            raise PathEnd(f"foreach{ordinal}-iteration")
        else:
            for n in body_names:
                if n not in env or True:
                    env[n] = Poison(n, "assigned in a loop body without invariant") \
                        if n not in env else env[n]
            # variables assigned in the body are unknown after the loop unless they existed before
            for n in body_names:
                env[n] = Poison(n, "assigned in a loop body without invariant")
            if self.interference is not None and any(isinstance(n, (ast.Yield, ast.YieldFrom))
                                                     for b in s.body for n in ast.walk(b)):
                self.interference.after_yield(self, self.callctx, s)
            if always_exits(s.body):
                # every iteration leaves the loop (return/raise): the loop falls through only when
                # there was no element at all
                e = z3.Const(p.fresh_name("e"), it.elem_ty.sort())
                p.assume(z3.ForAll([e], z3.Not(it.member(e))))
            self.exec_block(s.orelse, env)

    def concrete_items(self, v):
        if isinstance(v, LazyContainer) and v.resolved is None and v.kind == "set":
            return list(v.items)
        if isinstance(v, tuple):
            return list(v)
        if isinstance(v, ConcreteSeq):
            return list(v.items)
        if isinstance(v, str):
            return list(v)
        if isinstance(v, GenObj):
            return list(v.items)
        if isinstance(v, range):
            return list(v)
        return None

    class IterDescr:
        def __init__(self, elem_ty, member, distinct, live=None, wrap=None, origin=None):
            self.elem_ty, self.member, self.distinct, self.live, self.wrap = elem_ty, member, distinct, live, wrap
            self.origin = origin      # ("items"|"keys"|"set", ref, content) when the source is a dict/set view

        def elem(self, interp, x):
            v = interp.path.project(self.elem_ty, x)
            return self.wrap(interp, v) if self.wrap else v

    def iter_descr(self, v, node=None):
        p = self.path
        v = self.deref(v)
        if isinstance(v, Snapshot):
            return Interp.IterDescr(v.elem_ty, v.member, v.distinct, wrap=getattr(v, "wrap", None),
                                    origin=getattr(v, "origin", None))
        if isinstance(v, SymIter):
            return Interp.IterDescr(v.elem_ty, v.member, v.distinct, wrap=v.extra.get("wrap"))
        if isinstance(v, LiveView):
            s = self.view_snapshot(v)
            return Interp.IterDescr(s.elem_ty, s.member, s.distinct, live=v.ref, origin=getattr(s, "origin", None))
        if isinstance(v, SV) and isinstance(v.ty, (TDict, TSet)):
            s = self.view_snapshot(LiveView(v, "keys"))
            return Interp.IterDescr(s.elem_ty, s.member, s.distinct, live=v)
        if isinstance(v, SV) and isinstance(v.ty, TList):
            seq = p.content(v)
            return Interp.IterDescr(v.ty.v, lambda e, seq=seq: z3.Contains(seq, z3.Unit(e)), False, live=v)
        if isinstance(v, SV) and isinstance(v.ty, TAList):
            c = p.content(v)
            n, arr = v.ty.length(c), v.ty.elems(c)

            def mem(e, n=n, arr=arr):
                i = z3.Int(p.fresh_name("ai"))
                return z3.Exists([i], z3.And(i >= 0, i < n, arr[i] == e))
            i1, i2 = z3.Ints("alist_i alist_j")
            distinct = z3.ForAll([i1, i2], z3.Implies(z3.And(0 <= i1, i1 < i2, i2 < n), arr[i1] != arr[i2]))
            return Interp.IterDescr(v.ty.v, mem, distinct, live=v)
        r = self.model.iter_descr(self, v)
        if r is not None:
            return r
        raise Unsupported(f"iteration over {type(v).__name__} at {self.where(node) if node is not None else ''}")

    def view_snapshot(self, lv: LiveView) -> Snapshot:
        """Snapshot of a dict/set (keys/items/values) at the current heap state."""
        p = self.path
        ref = lv.ref
        c = p.content(ref)
        if isinstance(ref.ty, TSet):
            return Snapshot(ref.ty.k, lambda e, c=c: z3.Select(c, e), True, count=card_fn(c.sort())(c),
                            origin=("set", ref, c))
        if isinstance(ref.ty, TDict):
            os_ = option_sort(ref.ty.v.sort())
            if lv.what == "keys":
                return Snapshot(ref.ty.k, lambda e, c=c: z3.Not(os_.is_none(z3.Select(c, e))), True,
                                count=card_fn(c.sort())(c), origin=("keys", ref, c))
            if lv.what == "items":
                tt = TTuple(ref.ty.k, ref.ty.v)

                def mem(e, c=c, tt=tt):
                    k, v = tt.proj(0, e), tt.proj(1, e)
                    return z3.Select(c, k) == os_.some(v)
                return Snapshot(tt, mem, True, origin=("items", ref, c))
            if lv.what == "values":
                def mem(e, c=c):
                    k = z3.Const(p.fresh_name("k"), ref.ty.k.sort())
                    return z3.Exists([k], z3.Select(c, k) == os_.some(e))
                return Snapshot(ref.ty.v, mem, False, origin=("values", ref, c))
        raise Unsupported("view snapshot")

    # ------------------------------------------------------------------ expressions
    def eval(self, e, env):
        m = getattr(self, "e_" + type(e).__name__, None)
        if m is None:
            raise Unsupported(f"expression {type(e).__name__} at {self.where(e)}")
        return m(e, env)

    def e_Constant(self, e, env):
        v = e.value
        if v is None or isinstance(v, (bool, int, str, bytes)):
            return v
        if v is Ellipsis:
            return None
        raise Unsupported(f"constant {type(v).__name__}")

    def e_Name(self, e, env):
        return self.lookup(e.id, env, e)

    def e_Tuple(self, e, env):
        return tuple(self.eval(x, env) for x in e.elts)

    def e_List(self, e, env):
        items = []
        for x in e.elts:
            if isinstance(x, ast.Starred):
                c = self.concrete_items(self.eval(x.value, env))
                if c is None:
                    raise Unsupported("starred symbolic")
                items.extend(c)
            else:
                items.append(self.eval(x, env))
        return self.model.new_list(self, items, e)

    def e_Set(self, e, env):
        return self.model.new_set(self, [self.eval(x, env) for x in e.elts], e)

    def e_Dict(self, e, env):
        if any(k is None for k in e.keys):
            raise Unsupported("dict unpacking")
        return self.model.new_dict(self, [(self.eval(k, env), self.eval(v, env)) for k, v in zip(e.keys, e.values)], e)

    def e_JoinedStr(self, e, env):
        parts = []
        for v in e.values:
            if isinstance(v, ast.Constant):
                parts.append(v.value)
            elif isinstance(v, ast.FormattedValue):
                if v.format_spec is not None or v.conversion not in (-1, 115):
                    raise Unsupported("f-string format spec")
                parts.append(self.model.to_str(self, self.eval(v.value, env)))
        return self.concat_str(parts)

    def concat_str(self, parts):
        if all(isinstance(x, str) for x in parts):
            return "".join(parts)
        zs = [z3.StringVal(x) if isinstance(x, str) else x.z for x in parts]
        return SV(STR, z3.Concat(*zs) if len(zs) > 1 else zs[0])

    def e_IfExp(self, e, env):
        if self.test(self.eval(e.test, env)):
            return self.eval(e.body, env)
        return self.eval(e.orelse, env)

    def e_BoolOp(self, e, env):
        is_and = isinstance(e.op, ast.And)
        v = None
        for i, x in enumerate(e.values):
            v = self.eval(x, env)
            if i == len(e.values) - 1:
                return v
            t = self.test(v)
            if is_and and not t:
                return v
            if (not is_and) and t:
                return v
        return v

    def e_UnaryOp(self, e, env):
        v = self.eval(e.operand, env)
        if isinstance(e.op, ast.Not):
            t = self.truthy(v)
            if isinstance(t, bool):
                return not t
            return SV(BOOL, z3.Not(t))
        if isinstance(e.op, ast.USub):
            if isinstance(v, int):
                return -v
            if isinstance(v, SV) and isinstance(v.ty, _TInt):
                return SV(INT, -v.z)
        raise Unsupported("unary op")

    def e_BinOp(self, e, env):
        return self.binop(e.op, self.eval(e.left, env), self.eval(e.right, env), e)

    def binop(self, op, a, b, node=None):
        r = self.model.binop(self, op, a, b)
        if r is not NotImplemented:
            return r
        if isinstance(a, bool):
            a = int(a)
        if isinstance(b, bool):
            b = int(b)
        isint = lambda x: isinstance(x, int) or (isinstance(x, SV) and isinstance(x.ty, _TInt))
        isstr = lambda x: isinstance(x, str) or (isinstance(x, SV) and isinstance(x.ty, _TStr))
        if isint(a) and isint(b):
            if isinstance(a, int) and isinstance(b, int):
                import operator
                ops = {ast.Add: operator.add, ast.Sub: operator.sub, ast.Mult: operator.mul,
                       ast.FloorDiv: operator.floordiv, ast.Mod: operator.mod, ast.Pow: operator.pow,
                       ast.BitXor: operator.xor, ast.BitAnd: operator.and_, ast.BitOr: operator.or_,
                       ast.LShift: operator.lshift, ast.RShift: operator.rshift}
                if type(op) in ops:
                    if type(op) in (ast.FloorDiv, ast.Mod) and b == 0:
                        self.raise_("ZeroDivisionError", node=node)
                    return ops[type(op)](a, b)
                raise Unsupported("int op")
            za, zb = self.path.inject(INT, a), self.path.inject(INT, b)
            if isinstance(op, ast.Add):
                return SV(INT, za + zb)
            if isinstance(op, ast.Sub):
                return SV(INT, za - zb)
            if isinstance(op, ast.Mult):
                return SV(INT, za * zb)
            if isinstance(op, (ast.FloorDiv, ast.Mod)):
                if self.path.choose(zb == 0):
                    self.raise_("ZeroDivisionError", node=node)
                # python floor semantics == z3 for positive divisor; general case:
                q = z3.If(zb > 0, za / zb, -((-za) / (-zb)) if False else (za / zb))
                if isinstance(op, ast.FloorDiv):
                    # z3 int div rounds toward -inf for positive divisor (euclidean); restrict
                    self.path.oblige("floordiv-positive-divisor", zb > 0, self.where(node) if node else "", "encoding")
                    return SV(INT, za / zb)
                self.path.oblige("mod-positive-divisor", zb > 0, self.where(node) if node else "", "encoding")
                return SV(INT, za % zb)
            raise Unsupported("symbolic int op")
        if isstr(a) and isstr(b) and isinstance(op, ast.Add):
            return self.concat_str([a, b])
        if isinstance(op, ast.Mod) and isinstance(a, str):
            return self.model.str_format_percent(self, a, b)
        if isinstance(op, ast.Add) and isinstance(a, tuple) and isinstance(b, tuple):
            return a + b
        if isinstance(op, ast.Add) and isinstance(a, ConcreteSeq) and isinstance(b, ConcreteSeq):
            return ConcreteSeq(a.items + b.items)
        raise Unsupported(f"binop {type(op).__name__} on {type(a).__name__},{type(b).__name__}")

    def e_Compare(self, e, env):
        left = self.eval(e.left, env)
        result = None
        for op, rexp in zip(e.ops, e.comparators):
            right = self.eval(rexp, env)
            r = self.compare(op, left, right, e)
            if len(e.ops) == 1:
                return r if isinstance(r, bool) else SV(BOOL, r)
            # chained: short-circuit
            if not self.path.choose(r):
                return False
            left = right
            result = True
        return result

    def compare(self, op, a, b, node=None):
        """-> bool or z3 Bool"""
        if isinstance(op, ast.Eq):
            return self.eq(a, b)
        if isinstance(op, ast.NotEq):
            r = self.eq(a, b)
            return (not r) if isinstance(r, bool) else z3.Not(r)
        if isinstance(op, ast.Is):
            return self.identical(a, b)
        if isinstance(op, ast.IsNot):
            r = self.identical(a, b)
            return (not r) if isinstance(r, bool) else z3.Not(r)
        if isinstance(op, ast.In):
            return self.contains(b, a, node)
        if isinstance(op, ast.NotIn):
            r = self.contains(b, a, node)
            return (not r) if isinstance(r, bool) else z3.Not(r)
        # ordering
        if isinstance(a, bool):
            a = int(a)
        if isinstance(b, bool):
            b = int(b)
        isint = lambda x: isinstance(x, int) or (isinstance(x, SV) and isinstance(x.ty, _TInt))
        if isint(a) and isint(b):
            if isinstance(a, int) and isinstance(b, int):
                return {ast.Lt: a < b, ast.LtE: a <= b, ast.Gt: a > b, ast.GtE: a >= b}[type(op)]
            za, zb = self.path.inject(INT, a), self.path.inject(INT, b)
            return {ast.Lt: za < zb, ast.LtE: za <= zb, ast.Gt: za > zb, ast.GtE: za >= zb}[type(op)]
        r = self.model.order_compare(self, op, a, b)
        if r is not NotImplemented:
            return r
        raise Unsupported(f"ordering comparison on {type(a).__name__},{type(b).__name__}")

    def contains(self, coll, x, node=None):
        p = self.path
        coll = self.deref(coll)
        if isinstance(coll, (tuple, ConcreteSeq)):
            items = coll if isinstance(coll, tuple) else coll.items
            return _zor([self.eq_or_same(x, y) for y in items])
        if isinstance(coll, SV):
            ty = coll.ty
            if isinstance(ty, TOpt):
                coll = p.project(ty, coll.z)
                if coll is None:
                    self.raise_("TypeError", "argument of type 'NoneType' is not iterable", node=node)
                ty = coll.ty
            if x is None and isinstance(ty, (TDict, TSet)) and not isinstance(ty.k, TOpt):
                return False      # `None in c` for a container whose keys are never None (typing invariant of c)
            if isinstance(ty, TDict):
                os_ = option_sort(ty.v.sort())
                return z3.Not(os_.is_none(z3.Select(p.content(coll), self.key_inject(ty.k, x))))
            if isinstance(ty, TSet):
                return z3.Select(p.content(coll), self.key_inject(ty.k, x))
            if isinstance(ty, TList):
                return z3.Contains(p.content(coll), z3.Unit(p.inject(ty.v, x)))
            if isinstance(ty, _TStr):
                return z3.Contains(coll.z, p.inject(STR, x))
        if isinstance(coll, str):
            if isinstance(x, str):
                return x in coll
            return z3.Contains(z3.StringVal(coll), p.inject(STR, x))
        if isinstance(coll, Snapshot):
            return coll.member(p.inject(coll.elem_ty, x))
        if isinstance(coll, LiveView):
            s = self.view_snapshot(coll)
            return s.member(p.inject(s.elem_ty, x))
        if coll is None:
            self.raise_("TypeError", "argument of type 'NoneType' is not iterable", node=node)
        r = self.model.contains(self, coll, x, node)
        if r is not NotImplemented:
            return r
        raise Unsupported(f"'in' on {type(coll).__name__}")

    def eq_or_same(self, x, y):
        # list/tuple containment uses `is` or `==`
        return self.eq(x, y)

    def key_inject(self, kty, x):
        try:
            return self.path.inject(kty, x)
        except Unsupported:
            raise Unsupported(f"key of wrong type for {kty!r}: {x!r}")

    # ---- subscripts -------------------------------------------------------
    def e_Subscript(self, e, env):
        obj = self.eval(e.value, env)
        if isinstance(e.slice, ast.Slice):
            lo = self.eval(e.slice.lower, env) if e.slice.lower else None
            hi = self.eval(e.slice.upper, env) if e.slice.upper else None
            if e.slice.step is not None:
                raise Unsupported("slice step")
            return self.getslice(obj, lo, hi, e)
        key = self.eval(e.slice, env)
        return self.getitem(obj, key, e)

    def getitem(self, obj, key, node=None):
        p = self.path
        obj = self.deref(obj)
        if isinstance(obj, SV) and isinstance(obj.ty, TOpt):
            obj = p.project(obj.ty, obj.z)
        if obj is None:
            self.raise_("TypeError", "'NoneType' object is not subscriptable", node=node)
        if isinstance(obj, SV) and isinstance(obj.ty, TDict):
            ty = obj.ty
            os_ = option_sort(ty.v.sort())
            ent = z3.Select(p.content(obj), self.key_inject(ty.k, key))
            if p.choose(os_.is_none(ent)):
                self.raise_("KeyError", key, node=node)
            return p.project(ty.v, z3.simplify(os_.get(ent)))
        if isinstance(obj, (tuple, ConcreteSeq)):
            items = obj if isinstance(obj, tuple) else obj.items
            if isinstance(key, int):
                if -len(items) <= key < len(items):
                    return items[key]
                self.raise_("IndexError", key, node=node)
            raise Unsupported("symbolic index into concrete sequence")
        if isinstance(obj, SV) and isinstance(obj.ty, TList):
            seq = p.content(obj)
            kz = p.inject(INT, key)
            n = z3.Length(seq)
            if isinstance(key, int) and key < 0:
                kz = n + key
            if not p.choose(z3.And(kz >= 0, kz < n)):
                self.raise_("IndexError", key, node=node)
            return p.project(obj.ty.v, seq[kz])
        if isinstance(obj, Snapshot):
            ne, w1, w2, n = self.snap_info(obj)
            if isinstance(key, int) and key == 0:
                if not p.choose(ne):
                    self.raise_("IndexError", key, node=node)
                return p.project(obj.elem_ty, w1)
            raise Unsupported("index into symbolic list other than [0]")
        if isinstance(obj, str) and isinstance(key, int):
            if -len(obj) <= key < len(obj):
                return obj[key]
            self.raise_("IndexError", key, node=node)
        if isinstance(obj, SV) and isinstance(obj.ty, _TStr):
            kz = p.inject(INT, key)
            n = z3.Length(obj.z)
            if isinstance(key, int) and key < 0:
                kz = n + key
            if not p.choose(z3.And(kz >= 0, kz < n)):
                self.raise_("IndexError", key, node=node)
            return SV(STR, z3.SubString(obj.z, kz, 1))
        r = self.model.getitem(self, obj, key, node)
        if r is not NotImplemented:
            return r
        raise Unsupported(f"subscript on {type(obj).__name__}")

    def getslice(self, obj, lo, hi, node=None):
        p = self.path
        if isinstance(obj, (str, tuple)) and all(x is None or isinstance(x, int) for x in (lo, hi)):
            return obj[lo:hi]
        if isinstance(obj, ConcreteSeq) and all(x is None or isinstance(x, int) for x in (lo, hi)):
            return ConcreteSeq(obj.items[lo:hi])
        if isinstance(obj, str):
            obj = SV(STR, z3.StringVal(obj))
        if isinstance(obj, SV) and isinstance(obj.ty, _TStr):
            n = z3.Length(obj.z)

            def norm(x, default):
                if x is None:
                    return default
                xz = p.inject(INT, x)
                if isinstance(x, int):
                    if x < 0:
                        return z3.If(n + x < 0, 0, n + x)
                    return z3.If(xz > n, n, xz)
                return z3.If(xz < 0, z3.If(n + xz < 0, 0, n + xz), z3.If(xz > n, n, xz))
            l, h = norm(lo, z3.IntVal(0)), norm(hi, n)
            return SV(STR, z3.SubString(obj.z, l, z3.If(h - l < 0, 0, h - l)))
        raise Unsupported("slice")

    def setitem(self, obj, key, v, node=None):
        p = self.path
        obj = self.deref(obj)
        if isinstance(obj, SV) and isinstance(obj.ty, TOpt):
            obj = p.project(obj.ty, obj.z)
        if obj is None:
            self.raise_("TypeError", "'NoneType' object does not support item assignment", node=node)
        if isinstance(obj, SV) and isinstance(obj.ty, TDict):
            ty = obj.ty
            os_ = option_sort(ty.v.sort())
            self.heap_writes += 1
            self.model.on_heap_write(self, obj)
            vz = p.inject(ty.v, v)
            p.note_escape(v)
            p.set_content(obj, z3.Store(p.content(obj), self.key_inject(ty.k, key), os_.some(vz)))
            return
        r = self.model.setitem(self, obj, key, v, node)
        if r is not NotImplemented:
            return
        raise Unsupported(f"item assignment on {type(obj).__name__}")

    def delitem(self, obj, key, node=None):
        p = self.path
        obj = self.deref(obj)
        if isinstance(obj, SV) and isinstance(obj.ty, TOpt):
            obj = p.project(obj.ty, obj.z)
        if obj is None:
            self.raise_("TypeError", "'NoneType' object does not support item deletion", node=node)
        if isinstance(obj, SV) and isinstance(obj.ty, TDict):
            ty = obj.ty
            os_ = option_sort(ty.v.sort())
            kz = self.key_inject(ty.k, key)
            if p.choose(os_.is_none(z3.Select(p.content(obj), kz))):
                self.raise_("KeyError", key, node=node)
            self.heap_writes += 1
            self.model.on_heap_write(self, obj)
            p.set_content(obj, z3.Store(p.content(obj), kz, os_.none))
            return
        r = self.model.delitem(self, obj, key, node)
        if r is not NotImplemented:
            return
        raise Unsupported(f"del item on {type(obj).__name__}")

    # ---- attributes ---------------------------------------------------------
    def e_Attribute(self, e, env):
        obj = self.eval(e.value, env)
        name = mangle(self.cur_cls, e.attr)
        return self.getattr(obj, name, e)

    def getattr(self, obj, name, node=None):
        p = self.path
        obj = self.deref(obj)
        if isinstance(obj, ModuleNS):
            if name in obj.attrs:
                v = obj.attrs[name]
                return v(self) if callable(v) and getattr(v, "_lazy", False) else v
            raise Unsupported(f"{obj.name}.{name} not modelled")
        if isinstance(obj, SV) and isinstance(obj.ty, TOpt):
            obj = p.project(obj.ty, obj.z)
        if obj is None:
            self.raise_("AttributeError", f"'NoneType' object has no attribute '{name}'", node=node)
        if isinstance(obj, SV) and isinstance(obj.ty, (TDict, TSet, TList, TAList)):
            return BoundMethod(obj, name, self.container_method(obj, name))
        if isinstance(obj, ClassRef):
            c = self.model.find_method_contract(obj.name, name)
            if c is not None:
                return Builtin(f"{obj.name}.{name}", lambda it, a, k, c=c: it.model.call_contract(it, c, a[0], a[1:], k))
        r = self.model.getattr(self, obj, name, node)
        if r is not NotImplemented:
            return r
        if isinstance(obj, SV) and isinstance(obj.ty, TObj):
            owner, fty = field_type(obj.ty.cls, name)
            if owner is not None:
                return p.get_field(obj, name)
            m = self.model.method(self, obj, name)
            if m is not None:
                return BoundMethod(obj, name, m)
            raise Unsupported(f"attribute {obj.ty.cls}.{name} not modelled")
        raise Unsupported(f"attribute .{name} on {type(obj).__name__}")

    def setattr(self, obj, name, v, node=None):
        p = self.path
        if isinstance(obj, SV) and isinstance(obj.ty, TObj):
            owner, fty = field_type(obj.ty.cls, name)
            if owner is None:
                r = self.model.setattr(self, obj, name, v, node)
                if r is not NotImplemented:
                    return
                raise Unsupported(f"store to undeclared field {obj.ty.cls}.{name}")
            self.heap_writes += 1
            v = self.model.coerce_field(self, obj, name, fty, v)
            p.set_field(obj, name, v)
            p.note_escape(v)
            return
        raise Unsupported(f"attribute store on {type(obj).__name__}")

    # ---- container methods ---------------------------------------------------
    def container_method(self, obj: SV, name):
        ty = obj.ty
        p = self.path

        def dict_get(it, o, args, kw):
            os_ = option_sort(ty.v.sort())
            default = args[1] if len(args) > 1 else kw.get("default")
            if args[0] is None and not isinstance(ty.k, TOpt):
                # a None key cannot be present in a dict whose declared key type excludes None
                p.notes.append("dict.get(None) on a dict with non-optional key type: absent (typing invariant)")
                return default
            ent = z3.Select(p.content(o), self.key_inject_opt(ty.k, args[0]))
            if p.choose(os_.is_none(ent)):
                return default
            return p.project(ty.v, z3.simplify(os_.get(ent)))

        def dict_keys(it, o, args, kw):
            return LiveView(o, "keys")

        def dict_items(it, o, args, kw):
            return LiveView(o, "items")

        def dict_values(it, o, args, kw):
            return LiveView(o, "values")

        def copy(it, o, args, kw):
            return p.new_ref(ty, p.content(o))

        def set_add(it, o, args, kw):
            self.heap_writes += 1
            self.model.on_heap_write(self, o)
            p.set_content(o, z3.Store(p.content(o), self.key_inject(ty.k, args[0]), True))
            if hasattr(self.model, "after_set_add"):
                self.model.after_set_add(self, o, args[0])      # ghost code a contract attaches to set.add

        def set_remove(it, o, args, kw):
            kz = self.key_inject(ty.k, args[0])
            if not p.choose(z3.Select(p.content(o), kz)):
                self.raise_("KeyError", args[0])
            self.heap_writes += 1
            self.model.on_heap_write(self, o)
            p.set_content(o, z3.Store(p.content(o), kz, False))

        def set_discard(it, o, args, kw):
            kz = self.key_inject(ty.k, args[0])
            self.heap_writes += 1
            self.model.on_heap_write(self, o)
            p.set_content(o, z3.Store(p.content(o), kz, False))

        def dict_pop(it, o, args, kw):
            os_ = option_sort(ty.v.sort())
            kz = self.key_inject(ty.k, args[0])
            ent = z3.Select(p.content(o), kz)
            if p.choose(os_.is_none(ent)):
                if len(args) > 1:
                    return args[1]
                self.raise_("KeyError", args[0])
            self.heap_writes += 1
            self.model.on_heap_write(self, o)
            p.set_content(o, z3.Store(p.content(o), kz, os_.none))
            return p.project(ty.v, z3.simplify(os_.get(ent)))

        def clear(it, o, args, kw):
            self.heap_writes += 1
            self.model.on_heap_write(self, o)
            p.set_content(o, ty.empty())

        def list_append(it, o, args, kw):
            self.heap_writes += 1
            p.set_content(o, z3.Concat(p.content(o), z3.Unit(p.inject(ty.v, args[0]))))
            p.note_escape(args[0])

        def list_remove(it, o, args, kw):
            seq = p.content(o)
            x = z3.Unit(p.inject(ty.v, args[0]))
            i = z3.IndexOf(seq, x, 0)
            if p.choose(i < 0):
                self.raise_("ValueError", "list.remove(x): x not in list")
            self.heap_writes += 1
            p.set_content(o, z3.Concat(z3.SubSeq(seq, 0, i), z3.SubSeq(seq, i + 1, z3.Length(seq) - i - 1)))

        def alist_append(it, o, args, kw):
            self.heap_writes += 1
            c = p.content(o)
            n, arr = ty.length(c), ty.elems(c)
            p.set_content(o, ty.mk(n + 1, z3.Store(arr, n, p.inject(ty.v, args[0]))))
            p.note_escape(args[0])

        def alist_remove(it, o, args, kw):
            """list.remove(x): removes the first occurrence, ValueError when absent"""
            c = p.content(o)
            n, arr = ty.length(c), ty.elems(c)
            xz = p.inject(ty.v, args[0])
            j = z3.Int(p.fresh_name("rj"))
            present = z3.Exists([j], z3.And(j >= 0, j < n, arr[j] == xz))
            if not p.choose(present):
                self.raise_("ValueError", "list.remove(x): x not in list")
            i = z3.Int(p.fresh_name("ri"))
            p.assume(z3.And(i >= 0, i < n, arr[i] == xz))
            p.assume(z3.ForAll([j], z3.Implies(z3.And(j >= 0, j < i), arr[j] != xz)))
            k = z3.Int(p.fresh_name("rk"))
            narr = z3.Array(p.fresh_name("removed"), z3.IntSort(), ty.v.sort())
            # definition of the shifted array, stated in both directions (helps E-matching; consequences of
            # narr = lambda k. k < i ? arr[k] : arr[k+1])
            p.assume(z3.ForAll([k], narr[k] == z3.If(k < i, arr[k], arr[k + 1]), patterns=[narr[k]]))
            p.assume(z3.ForAll([k], z3.Implies(z3.And(k >= 0, k < n, k != i),
                                               narr[z3.If(k < i, k, k - 1)] == arr[k]), patterns=[arr[k]]))
            self.heap_writes += 1
            p.set_content(o, ty.mk(n - 1, narr))

        table = {}
        if isinstance(ty, TAList):
            table = {"append": alist_append, "remove": alist_remove, "copy": copy}
        elif isinstance(ty, TDict):
            table = {"get": dict_get, "keys": dict_keys, "items": dict_items, "values": dict_values,
                     "copy": copy, "pop": dict_pop, "clear": clear}
        elif isinstance(ty, TSet):
            table = {"add": set_add, "remove": set_remove, "discard": set_discard, "copy": copy, "clear": clear}
        elif isinstance(ty, TList):
            table = {"append": list_append, "remove": list_remove, "copy": copy, "clear": clear}
        if name not in table:
            raise Unsupported(f"method {name} on {ty!r}")
        return table[name]

    def key_inject_opt(self, kty, x):
        """dict.get(None) on a non-optional key type is simply 'absent'."""
        return self.key_inject(kty, x)

    # ---- calls ---------------------------------------------------------------
    def e_Call(self, e, env):
        if self.is_dropped_call(e):
            return None
        # super(...).method(...) and super().method(...)
        f = self.eval_callee(e.func, env)
        args = []
        for a in e.args:
            if isinstance(a, ast.Starred):
                c = self.concrete_items(self.eval(a.value, env))
                if c is None:
                    raise Unsupported("starred symbolic argument")
                args.extend(c)
            else:
                args.append(self.eval(a, env))
        kwargs = {}
        for k in e.keywords:
            if k.arg is None:
                kv = self.eval(k.value, env)
                if not isinstance(kv, dict):
                    raise Unsupported("**kwargs call with a symbolic mapping")
                kwargs.update(kv)
                continue
            kwargs[k.arg] = self.eval(k.value, env)
        return self.call(f, args, kwargs, e)

    def eval_callee(self, fe, env):
        if isinstance(fe, ast.Attribute) and isinstance(fe.value, ast.Call) and \
                isinstance(fe.value.func, ast.Name) and fe.value.func.id == "super":
            selfv = self.lookup("self", env, fe)
            m = self.model.super_method(self, selfv, self.cur_cls, fe.attr)
            return BoundMethod(selfv, fe.attr, m)
        return self.eval(fe, env)

    def e_Lambda(self, e, env):
        fd = ast.FunctionDef(name="<lambda>", args=e.args, body=[ast.Return(value=e.body)],
                             decorator_list=[], returns=None, type_comment=None)
        ast.copy_location(fd, e)
        ast.fix_missing_locations(fd)
        return PyFunc(fd, env, self.cur_cls, "<lambda>")

    def e_Yield(self, e, env):
        v = self.eval(e.value, env) if e.value is not None else None
        if self.on_yield is None:
            raise Unsupported("yield outside a generator under verification")
        self.on_yield(self, v, e)
        return None

    def e_YieldFrom(self, e, env):
        v = self.eval(e.value, env)
        if self.on_yield is None:
            raise Unsupported("yield from outside a generator under verification")
        self.model.yield_from(self, v, e)
        return None

    def e_NamedExpr(self, e, env):
        v = self.eval(e.value, env)
        self.assign(e.target, v, env)
        return v

    # ---- comprehensions --------------------------------------------------------
    def e_ListComp(self, e, env):
        return self.comprehension(e, env, "list")

    def e_GeneratorExp(self, e, env):
        return self.comprehension(e, env, "gen")

    def e_SetComp(self, e, env):
        return self.comprehension(e, env, "set")

    def comprehension(self, e, env, kind):
        if len(e.generators) != 1:
            raise Unsupported("nested comprehension")
        g = e.generators[0]
        itv = self.eval(g.iter, env)
        conc = self.concrete_items(itv)
        if conc is not None:
            out = []
            for x in conc:
                env2 = {"__parent__": env}
                self.assign(g.target, x, env2)
                if all(self.test(self.eval(c, env2)) for c in g.ifs):
                    out.append(self.eval(e.elt, env2))
            if kind == "gen":
                return GenObj(out)
            if kind == "set":
                return self.model.new_set(self, out, e)
            return self.model.new_list(self, out, e)
        it = self.iter_descr(itv, e)
        r = self.model.symbolic_comprehension(self, e, g, it, env, kind)
        if r is not NotImplemented:
            return r
        raise Unsupported("comprehension over symbolic collection")

    def pure_eval(self, e, env):
        """Evaluate an expression in 'pure' mode: no path forks; optionals stay symbolic.
        Used under binders (comprehension element variables)."""
        return PureEval(self).ev(e, env)


class PureEval:
    """Fork-free evaluator producing z3 terms; raises Unsupported for anything that would fork."""

    def __init__(self, it: Interp):
        self.it = it

    def cond(self, e, env):
        v = self.ev(e, env)
        t = self.it.truthy(v)
        return _zb(t)

    def ev(self, e, env):
        it = self.it
        if isinstance(e, ast.Constant):
            return e.value
        if isinstance(e, ast.Name):
            return it.lookup(e.id, env, e)
        if isinstance(e, ast.Tuple):
            return tuple(self.ev(x, env) for x in e.elts)
        if isinstance(e, ast.UnaryOp) and isinstance(e.op, ast.Not):
            return SV(BOOL, z3.Not(self.cond(e.operand, env)))
        if isinstance(e, ast.BoolOp):
            cs = [self.cond(x, env) for x in e.values]
            return SV(BOOL, z3.And(*cs) if isinstance(e.op, ast.And) else z3.Or(*cs))
        if isinstance(e, ast.Compare) and len(e.ops) == 1:
            a, b = self.ev(e.left, env), self.ev(e.comparators[0], env)
            return SV(BOOL, _zb(it.compare(e.ops[0], a, b, e)))
        if isinstance(e, ast.Attribute):
            obj = self.ev(e.value, env)
            return it.model.pure_getattr(it, obj, mangle(it.cur_cls, e.attr), e)
        if isinstance(e, ast.Call):
            return it.model.pure_call(it, self, e, env)
        if isinstance(e, ast.Subscript):
            return it.model.pure_subscript(it, self, e, env)
        raise Unsupported(f"pure evaluation of {type(e).__name__}")


def _conj(f):
    if z3.is_and(f):
        out = []
        for c in f.children():
            out.extend(_conj(c))
        return out
    return [f]


def _zb(x):
    if isinstance(x, bool):
        return z3.BoolVal(x)
    if isinstance(x, SV):
        return x.z
    return x


def _zand(xs):
    xs = [x for x in xs]
    if any(x is False for x in xs):
        return False
    xs = [x for x in xs if x is not True]
    if not xs:
        return True
    return z3.And(*[_zb(x) for x in xs]) if len(xs) > 1 else _zb(xs[0])


def _zor(xs):
    xs = [x for x in xs]
    if any(x is True for x in xs):
        return True
    xs = [x for x in xs if x is not False]
    if not xs:
        return False
    return z3.Or(*[_zb(x) for x in xs]) if len(xs) > 1 else _zb(xs[0])
