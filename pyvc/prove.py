"""Verification harness: run the real function symbolically against its contract,
collect obligations, discharge them with z3 (API) and cvc5 (CLI) and report."""
from __future__ import annotations

import json
import os
import subprocess
import tempfile
import time
import traceback
import z3

from .core import (TList, Infeasible, Obligation, Path, PathEnd, PathResult, PyExc, SV, Unsupported, explore,
                   TObj, TOpt, Snapshot, SymIter)
from .interp import Interp, PyFunc, _zb
from .model import CallCtx, Contract, Model
from .source import find_function

QUICK_TIMEOUT_MS = int(os.environ.get("PYVC_TIMEOUT_MS", "10000"))
Z3_SEED = int(os.environ.get("PYVC_Z3_SEED", "0"))        # only the confirmation pass uses other seeds


class FunctionReport:
    def __init__(self, contract: Contract):
        self.contract = contract
        self.name = contract.name
        self.where = ""
        self.sha = ""
        self.paths = 0
        self.obligations: list[dict] = []
        self.status = "proved"  # proved / failed / undecided / error
        self.reason = ""
        self.seconds = 0.0
        self.dropped: list[str] = []
        self.assumed: list[str] = []
        self.vacuity = None
        self.models: list[dict] = []
        self.loop_events = []
        self.suspicious = []

    def to_json(self):
        return {
            "function": self.name, "where": self.where, "sha": self.sha, "paths": self.paths,
            "status": self.status, "reason": self.reason, "seconds": round(self.seconds, 3),
            "obligations": self.obligations, "dropped": sorted(set(self.dropped))[:20],
            "assumed": sorted(set(self.assumed))[:40], "vacuity": self.vacuity,
            "models": self.models[:5], "suspicious": sorted(set(self.suspicious))[:10],
        }


def conjuncts(f):
    if z3.is_and(f):
        out = []
        for c in f.children():
            out.extend(conjuncts(c))
        return out
    return [f]


def solve(pc, goal, timeout_ms=None, want_model=True):
    """Is pc => goal valid?  -> (status, model|None, backend, seconds, reason)
    status: proved | failed (genuine model) | candidate (E-matching saturated without refutation:
    the model satisfies the ground part and the instances tried, needs replay) | unknown"""
    timeout_ms = timeout_ms or QUICK_TIMEOUT_MS
    t0 = time.time()
    # 1. E-matching only (fast; refutations are sound, candidate models are not)
    s1 = z3.SimpleSolver()
    s1.set("timeout", min(timeout_ms, 1500))
    s1.set("mbqi", False)
    if Z3_SEED:
        s1.set("random_seed", Z3_SEED)
    for f in pc:
        s1.add(f)
    s1.add(z3.Not(goal))
    r1 = s1.check()
    if r1 == z3.unsat:
        return "proved", None, "z3-ematch", time.time() - t0, ""
    cand = None
    if r1 == z3.sat:
        return "failed", s1.model(), "z3-ematch", time.time() - t0, ""
    try:
        cand = s1.model()
    except z3.Z3Exception:
        cand = None
    # 2. full z3 (MBQI)
    s = z3.Solver()
    s.set("timeout", timeout_ms)
    if Z3_SEED:
        s.set("random_seed", Z3_SEED)
    for f in pc:
        s.add(f)
    s.add(z3.Not(goal))
    r = s.check()
    if r == z3.unsat:
        return "proved", None, "z3", time.time() - t0, ""
    if r == z3.sat:
        return "failed", s.model(), "z3", time.time() - t0, ""
    reason = s.reason_unknown()
    # 3. cvc5 on the same query text
    st2, dt2 = cvc5_check(s, timeout_ms)
    if st2 == "unsat":
        return "proved", None, "cvc5", time.time() - t0, ""
    if st2 == "sat":
        return "failed", cand, "cvc5", time.time() - t0, "cvc5 sat (model taken from z3 candidate)"
    if cand is not None:
        return "candidate", cand, "z3-ematch", time.time() - t0, f"z3: {reason}; cvc5: {st2}"
    return "unknown", None, "z3+cvc5", time.time() - t0, f"z3: {reason}; cvc5: {st2}"


_PC_CACHE = {}


def pc_refuted(pc, timeout_ms=1500):
    key = tuple(f.get_id() for f in pc)
    if key in _PC_CACHE:
        return _PC_CACHE[key]
    t0 = time.time()
    s1 = z3.SimpleSolver()
    s1.set("timeout", timeout_ms)
    s1.set("mbqi", False)
    for f in pc:
        s1.add(f)
    r1 = s1.check()
    res = ("proved" if r1 == z3.unsat else "unknown", None, "z3-ematch", time.time() - t0, "")
    if len(_PC_CACHE) > 5000:
        _PC_CACHE.clear()
    _PC_CACHE[key] = res
    return res


def quick_refute(pc, goal, timeout_ms=3000):
    t0 = time.time()
    s1 = z3.SimpleSolver()
    s1.set("timeout", timeout_ms)
    s1.set("mbqi", False)
    for f in pc:
        s1.add(f)
    s1.add(z3.Not(goal))
    r1 = s1.check()
    if r1 == z3.unsat:
        return "proved", None, "z3-ematch", time.time() - t0, ""
    return "unknown", None, "z3-ematch", time.time() - t0, ""


def cvc5_check(solver: z3.Solver, timeout_ms):
    t0 = time.time()
    try:
        txt = solver.to_smt2()
        if "(declare-datatypes" in txt and "Seq" in txt and False:
            return "skipped", 0.0
        txt = "(set-logic ALL)\n" + txt
        with tempfile.NamedTemporaryFile("w", suffix=".smt2", delete=False, dir=_workdir()) as f:
            f.write(txt)
            fn = f.name
        try:
            out = subprocess.run(["/usr/bin/cvc5", "--strings-exp", f"--tlimit={timeout_ms}", fn],
                                 capture_output=True, text=True, timeout=timeout_ms / 1000 + 5)
            first = (out.stdout.strip().splitlines() or ["error"])[0].strip()
            if first in ("sat", "unsat", "unknown"):
                return first, time.time() - t0
            return "error:" + (out.stderr.strip().splitlines() or [first])[0][:80], time.time() - t0
        finally:
            os.unlink(fn)
    except Exception as e:  # noqa
        return f"error:{type(e).__name__}", time.time() - t0


def _workdir():
    d = os.environ.get("VERIF_WORK", os.path.join(os.path.dirname(os.path.dirname(__file__)), "work"))
    os.makedirs(d, exist_ok=True)
    return d


def oblige_named(path, base, spec, where, kind):
    """spec: z3 Bool, or list of (name, z3 Bool) / z3 Bool"""
    if isinstance(spec, (list, tuple)):
        named = []
        for i, x in enumerate(spec):
            if isinstance(x, tuple):
                named.append((f"{base}:{x[0]}", _zb(x[1])))
            else:
                named.append((f"{base}[{i}]", _zb(x)))
        grp = Obligation(base, path.pc, z3.And(*[f for _, f in named]) if len(named) > 1 else named[0][1],
                         where, kind)
        grp.parts = named
        path.obligations.append(grp)
        for _, f in named:
            path.pc.append(f)
            path.pc_tags[f.get_id()] = "oblige"
            path.sadd(f)
        return grp
    return path.oblige(base, _zb(spec), where, kind)


class YieldEvent:
    def __init__(self, pc, value_z, loopvars, path_id, index, where):
        self.pc, self.value_z, self.loopvars, self.path_id, self.index, self.where = \
            pc, value_z, loopvars, path_id, index, where


def make_args(model: Model, contract: Contract, path: Path, interp, pure=False):
    """pure=True: no forking; optionals stay symbolic (used to phrase generator-level VCs once for
    all argument shapes)."""
    args = {}
    selfv = None
    for prm in contract.params:
        if prm.make is not None:
            v = prm.make(path, interp)
        elif prm.ty is None:
            v = None
        elif pure:
            v = model.pure_project(interp, prm.ty, z3.Const("arg_" + prm.name, prm.ty.sort()))
        else:
            v = path.project(prm.ty, z3.Const("arg_" + prm.name, prm.ty.sort()))
        args[prm.name] = v
    if contract.self_ty is not None:
        selfv = SV(contract.self_ty, z3.Int("self"))
        path.assume(z3.And(selfv.z > 0, selfv.z < path.alloc0))
    return selfv, args


def verify_function(model: Model, contract: Contract, timeout_ms=None, max_paths=4000,
                    interference=None, forced=(), phase="all", vectors=None) -> FunctionReport:
    """phase 'all': explore + solve; 'enumerate': explore only, solve only the generator-level
    obligations, return the decision vectors in rep.vectors; 'solve': re-execute the given decision
    vectors (no exploration) and solve their obligations."""
    rep = FunctionReport(contract)
    t0 = time.time()
    try:
        fs = find_function(contract.relpath, contract.qualname)
    except KeyError as e:
        rep.status, rep.reason = "undecided", f"function not found: {e}"
        return rep
    rep.where, rep.sha = fs.where(), fs.sha
    events: list[YieldEvent] = []
    finals = []
    state = {"pid": 0}

    def run_one(path: Path):
        pid = state["pid"]
        state["pid"] += 1
        yl = []

        def on_yield(it, v, node):
            g = contract.gen
            if g is None:
                raise Unsupported("yield in function without generator contract")
            cc = it.callctx
            z = g.abstract(it, v) if g.abstract else path.inject(g.elem_ty, v)
            if interference is None:
                path.oblige(f"yield@{node.lineno}.sound", _zb(g.member(cc, z)), it.where(node), "yield-sound")
            else:
                interference.on_yield(it, cc, v, z, node)
            if g.extra:
                cc.new = path.snapshot_state()
                for nm, f in g.extra(cc, v):
                    path.oblige(f"yield@{node.lineno}.{nm}", _zb(f), it.where(node), "yield-extra")
            lv = list(path.ghost.get("__loopvars__", []))
            yl.append(YieldEvent(list(path.pc), z, lv, pid, len(yl), it.where(node)))
            yl[-1].args_end = path.ghost.get("__args_end__", 0)
            yl[-1].tags = dict(path.pc_tags)
            events.append(yl[-1])
            if interference is not None:
                interference.after_yield(it, cc, node)

        interp = Interp(path, model, fs, contract.loops, on_yield if True else None, fs.cls)
        interp.interference = interference
        selfv, args = make_args(model, contract, path, interp)
        path.ghost["__args_end__"] = len(path.pc)
        model.setup_path(path, interp, contract, selfv, args)
        old = path.snapshot_state()
        cc = CallCtx(path, interp, args, old, None, None, selfv, model)
        interp.callctx = cc
        if contract.pre is not None:
            path.assume(_zb(contract.pre(cc)), "precondition")
        f = PyFunc(fs.node, {"__parent__": None}, fs.cls, contract.qualname, contract.relpath)
        call_args = ([selfv] if selfv is not None else []) + [args[p.name] for p in contract.params]
        try:
            res = interp.run_function(f, call_args, {})
        except PyExc as e:
            cond = contract.raises.get(e.etype)
            if cond is None:
                for et, c2 in contract.raises.items():
                    from .core import exc_isinstance
                    if exc_isinstance(e.etype, et):
                        cond = c2
            cc.new = path.snapshot_state()
            cc.exc = e
            if cond is None:
                path.oblige(f"no-unexpected-exception:{e.etype}", z3.BoolVal(False), e.where or "", "exception",
                            {"exc": e.etype})
            else:
                path.oblige(f"exception-allowed:{e.etype}", _zb(cond(cc)), e.where or "", "exception",
                            {"exc": e.etype})
                if contract.on_raise_state is not None:
                    path.oblige(f"state-on-exception:{e.etype}", _zb(contract.on_raise_state(cc)),
                                e.where or "", "exception-state")
            rep.loop_events.extend(interp.loop_events)
            finals.append((path, "raise"))
            return ("raise", e)
        except PathEnd as pe:
            rep.loop_events.extend(interp.loop_events)
            finals.append((path, "end"))
            raise
        cc.new = path.snapshot_state()
        cc.result = res
        cc.yields = yl
        if contract.gen is None or contract.post is not None:
            if contract.ret is None and res is not None and contract.post is None and contract.gen is None \
                    and contract.ret_make is None:
                pass
            if contract.post is not None:
                oblige_named(path, "post", contract.post(cc), fs.where(), "post")
        if contract.gen is not None and not f.is_gen:
            # a plain function returning an iterable (generator expression / list): compare its
            # membership predicate with the specification
            g = contract.gen
            r2 = interp.deref(res)
            if isinstance(r2, (Snapshot, SymIter)):
                zz = z3.Const("ret_elem", g.elem_ty.sort())
                if r2.elem_ty.sort() != g.elem_ty.sort():
                    path.oblige("returned-iterable.element-type", z3.BoolVal(False), fs.where(), "post")
                else:
                    path.oblige("returned-iterable.members", z3.ForAll([zz], r2.member(zz) == _zb(g.member(cc, zz))),
                                fs.where(), "post")
                    if g.distinct:
                        dz = r2.distinct if z3.is_expr(r2.distinct) else z3.BoolVal(bool(r2.distinct))
                        path.oblige("returned-iterable.no-duplicates", dz, fs.where(), "post")
            elif isinstance(r2, SV) and isinstance(r2.ty, TList):
                # a list built by the function: membership in the final sequence
                zz = z3.Const("ret_elem", g.elem_ty.sort())
                seq = path.content(r2)
                path.oblige("returned-iterable.members",
                            z3.ForAll([zz], z3.Contains(seq, z3.Unit(zz)) == _zb(g.member(cc, zz))), fs.where(), "post")
                if g.distinct:
                    path.oblige("returned-iterable.no-duplicates", z3.BoolVal(False), fs.where(), "post")
            else:
                from .interp import GenObj
                from .core import ConcreteSeq
                items = interp.concrete_items(r2)
                if items is None:
                    raise Unsupported(f"function with generator contract returned {type(r2).__name__}")
                zz = z3.Const("ret_elem", g.elem_ty.sort())
                mem = z3.Or(*[zz == path.inject(g.elem_ty, x) for x in items]) if items else z3.BoolVal(False)
                path.oblige("returned-iterable.members", z3.ForAll([zz], mem == _zb(g.member(cc, zz))),
                            fs.where(), "post")
                if g.distinct and len(items) > 1:
                    path.oblige("returned-iterable.no-duplicates",
                                z3.Distinct(*[path.inject(g.elem_ty, x) for x in items]), fs.where(), "post")
        if contract.frame is not None:
            path.oblige("frame", _zb(contract.frame(cc)), fs.where(), "frame")
        rep.loop_events.extend(interp.loop_events)
        finals.append((path, "return"))
        return ("return", res)

    try:
        if phase == "solve":
            results = []
            for vec in vectors:
                p = Path(vec, model.axioms)
                try:
                    out = run_one(p)
                    results.append(PathResult(p, out[0], out[1]))
                except Infeasible:
                    pass
                except PathEnd as e:
                    results.append(PathResult(p, "end", e.why))
                except PyExc as e:
                    results.append(PathResult(p, "raise", None, e))
            forced = forced or (True,)
        else:
            results = explore(run_one, model.axioms, max_paths=max_paths, forced=forced)
    except Unsupported as e:
        rep.status, rep.reason = "undecided", f"outside supported subset: {e}"
        rep.seconds = time.time() - t0
        return rep
    except Exception as e:  # engine bug
        rep.status, rep.reason = "error", f"{type(e).__name__}: {e}\n{traceback.format_exc()[-1500:]}"
        rep.seconds = time.time() - t0
        return rep
    rep.paths = len(results)
    if not results:
        if forced:
            rep.status, rep.reason = "proved", "no path in this slice"
            rep.vacuity = "empty-slice"
        else:
            rep.status, rep.reason = "error", "vacuous: no feasible path (precondition unsatisfiable?)"
        rep.seconds = time.time() - t0
        return rep
    # vacuity: at least one complete path must be satisfiable
    vac_ok = False
    for r in results:
        s = z3.SimpleSolver()
        s.set("timeout", 1000)
        s.set("mbqi", False)
        # the path condition proper: what was assumed/branched on before the first obligation
        pc0 = r.path.obligations[0].pc if r.path.obligations else r.path.pc
        for f in pc0[:400]:
            s.add(f)
        if s.check() != z3.unsat:
            vac_ok = True
            break
    rep.vacuity = "ok" if vac_ok else "FAILED"
    if not vac_ok and not forced:
        rep.status, rep.reason = "error", "vacuous: every path condition is unsatisfiable"
        rep.seconds = time.time() - t0
        return rep
    all_obs = []
    rep.vectors = [list(r.path.taken) for r in results]
    # contract-consistency guard: an assumed callee postcondition must not refute a path that was
    # not refuted before it (contradictory contract => everything after it would be vacuous)
    if phase != "enumerate":
        for r in results:
            for mk in r.path.call_marks:
                name, n0, n1 = mk[0], mk[1], mk[2]
                nres = mk[3] if len(mk) > 3 else n0
                if n1 is None or n1 == n0 or nres != n0:
                    continue   # (a case split on the result's shape is baked into the postcondition: not checkable)
                # the postcondition alone (without the case split on the result's shape) must not refute the path
                pcs = r.path.pc[:n0] + r.path.pc[nres:n1]
                if pc_refuted(pcs)[0] == "proved" and pc_refuted(r.path.pc[:n0])[0] != "proved":
                    rep.suspicious.append(f"assumed postcondition of {name} refutes the path condition")
    for r in results:
        rep.dropped.extend(r.path.dropped)
        rep.assumed.extend(r.path.assumed)
        if phase == "enumerate":
            continue
        for ob in r.path.obligations:
            all_obs.append(ob)
    # generator-level obligations (completeness, no duplicates)
    is_generator = PyFunc(fs.node, {}, fs.cls).is_gen
    if contract.gen is not None and interference is None and is_generator and phase != "solve":
        all_obs.extend(gen_obligations(model, contract, events, results, fs))
    split_obs = []
    for ob in all_obs:
        parts = getattr(ob, "parts", None)
        if parts is None:
            cj = conjuncts(ob.formula)
            parts = [(f"{ob.name}[{i}]", cf) for i, cf in enumerate(cj)] if len(cj) > 1 else None
        if parts is None:
            split_obs.append(ob)
            continue
        # an infeasible path (pc refuted by E-matching) discharges all its clauses at once
        st, mdl, be, dt, why = pc_refuted(ob.pc)
        if st == "proved":
            for nm, cf in parts:
                o2 = Obligation(nm, [], cf, ob.where, ob.kind, ob.ctx)
                o2.presolved = ("proved", None, be + "(infeasible path)", dt / len(parts), "")
                split_obs.append(o2)
        else:
            for nm, cf in parts:
                split_obs.append(Obligation(nm, ob.pc, cf, ob.where, ob.kind, ob.ctx))
    all_obs = split_obs
    only_names = os.environ.get("PYVC_ONLY_OBLIGATIONS")
    only_names = set(json.loads(only_names)) if only_names else None
    for ob in all_obs:
        if only_names is not None and ob.name not in only_names:
            continue          # confirmation pass: only the named obligations are solved again
        if getattr(ob, "presolved", None):
            st, mdl, be, dt, why = ob.presolved
        elif ob.kind in ("gen-complete", "gen-distinct") and (timeout_ms or QUICK_TIMEOUT_MS) <= 30000:
            # generator-level VCs are solved in the (sequential) enumeration phase: smaller budget in the quick tier
            st, mdl, be, dt, why = solve(ob.pc, ob.formula, int(os.environ.get("PYVC_GEN_CAP_MS", "6000")))
        else:
            st, mdl, be, dt, why = solve(ob.pc, ob.formula, timeout_ms)
        ob.status, ob.model, ob.backend, ob.seconds, ob.reason = st, mdl, be, dt, why
        rec = {"name": ob.name, "kind": ob.kind, "where": ob.where, "status": st, "backend": be,
               "seconds": round(dt, 4)}
        if why:
            rec["reason"] = why[:200]
        rep.obligations.append(rec)
        if st in ("failed", "candidate"):
            if rep.status != "error":
                rep.status = "failed"
            if mdl is not None and len(rep.models) < 5:
                rep.models.append({"obligation": ob.name, "where": ob.where,
                                   "model": model.describe_model(mdl, contract, ob)})
        elif st == "unknown" and rep.status == "proved":
            rep.status = "undecided"
            rep.reason = f"solver unknown on {ob.name}: {why[:120]}"
    if not all_obs and not forced and phase != "enumerate":
        rep.status, rep.reason = "error", "no obligations generated"
    rep.seconds = time.time() - t0
    return rep


def gen_obligations(model, contract, events, results, fs):
    """Completeness and duplicate-freedom of a generator from its yield events (foreach rule)."""
    g = contract.gen
    obs = []
    if not g.complete and not g.distinct:
        return obs
    # a path with fresh inputs to phrase the VC over the shared input names
    path = Path([], model.axioms)
    nbase = len(path.pc)
    interp = Interp(path, model, fs, contract.loops, None, fs.cls)
    selfv, args = make_args(model, contract, path, interp, pure=True)
    model.setup_path(path, interp, contract, selfv, args)
    old = path.snapshot_state()
    cc = CallCtx(path, interp, args, old, None, None, selfv, model)
    if contract.pre is not None:
        path.assume(_zb(contract.pre(cc)), "precondition")
    base_pc = list(path.pc)
    t = z3.Const("t_any", g.elem_ty.sort())

    def strip_nd(pc):
        out = []
        for f in pc:
            g_ = f
            if z3.is_not(g_):
                g_ = g_.arg(0)
            if z3.is_const(g_) and g_.decl().kind() == z3.Z3_OP_UNINTERPRETED and \
                    (str(g_).startswith("iter!") or str(g_).startswith("nd!") or str(g_).startswith("more!")):
                continue
            out.append(f)
        return out

    def locals_of(formulas, keep):
        seen = {}
        todo = list(formulas)
        visited = set()
        while todo:
            f = todo.pop()
            if f.get_id() in visited:
                continue
            visited.add(f.get_id())
            if z3.is_quantifier(f):
                todo.append(f.body())
                continue
            if z3.is_const(f) and f.decl().kind() == z3.Z3_OP_UNINTERPRETED and "!" in str(f):
                seen[str(f)] = f
            if z3.is_app(f):
                todo.extend(f.children())
        return [v for k, v in seen.items() if k not in keep]

    def eliminate_defined(conj, protect=()):
        """One-point rule: a local constant v with a conjunct  v == term  (v not in term) is replaced
        by term everywhere.  Returns the simplified conjunct list."""
        conj = list(conj)
        changed = True
        rounds = 0
        while changed and rounds < 50:
            changed = False
            rounds += 1
            for idx, f in enumerate(conj):
                if not (z3.is_eq(f) and f.num_args() == 2):
                    continue
                for a, b in ((f.arg(0), f.arg(1)), (f.arg(1), f.arg(0))):
                    if z3.is_const(a) and a.decl().kind() == z3.Z3_OP_UNINTERPRETED and "!" in str(a) \
                            and str(a) not in protect and not _occurs(a, b):
                        rest = conj[:idx] + conj[idx + 1:]
                        conj = [z3.substitute(g_, (a, b)) for g_ in rest]
                        changed = True
                        break
                if changed:
                    break
        return conj

    if g.complete:
        # one completeness VC per argument shape (the decisions taken while projecting the arguments)
        shapes = {}
        for r in results:
            ae = r.path.ghost.get("__args_end__", nbase)
            conds = r.path.pc[nbase:ae]
            key = tuple(sorted(f.get_id() for f in conds))
            shapes.setdefault(key, (conds, []))
        for ev in events:
            conds = ev.pc[nbase:ev.args_end]
            key = tuple(sorted(f.get_id() for f in conds))
            shapes.setdefault(key, (conds, []))[1].append(ev)
        for si, (key, (conds, evs)) in enumerate(sorted(shapes.items(), key=lambda kv: str(kv[0]))):
            disj = []
            extra_hyps = []
            cond_ids = set(key)
            for ev in evs:
                pc = strip_nd(ev.pc[nbase:])
                # (formula, tag) pairs; tags: 'assume'/'oblige' = facts given by callees/axioms, 'member' and
                # untagged = conditions of the event
                pairs = []
                for f0 in pc:
                    t0 = ev.tags.get(f0.get_id())
                    for cj in conjuncts(f0):
                        pairs.append((cj, ev.tags.get(cj.get_id()) or t0))
                pairs.append((ev.value_z == t, "value"))
                subs = []
                for (x, itd) in ev.loopvars:
                    comp = find_component(ev.value_z, x, t)
                    if comp is not None:
                        subs.append((x, comp))
                if subs:
                    pairs = [(z3.substitute(f, *subs), tg) for f, tg in pairs]
                # one-point rule for locals defined by an equation (keeps the tags of the other formulas)
                changed, rounds = True, 0
                while changed and rounds < 50:
                    changed = False
                    rounds += 1
                    for idx, (f, tg) in enumerate(pairs):
                        if not (z3.is_eq(f) and f.num_args() == 2):
                            continue
                        for a_, b_ in ((f.arg(0), f.arg(1)), (f.arg(1), f.arg(0))):
                            if z3.is_const(a_) and a_.decl().kind() == z3.Z3_OP_UNINTERPRETED and "!" in str(a_) \
                                    and str(a_) != str(t) and not _occurs(a_, b_):
                                rest = pairs[:idx] + pairs[idx + 1:]
                                pairs = [(z3.substitute(g_, (a_, b_)), tg_) for g_, tg_ in rest]
                                changed = True
                                break
                        if changed:
                            break
                base_ids = {f.get_id() for f in base_pc} | cond_ids
                pairs = [(f, tg) for f, tg in pairs if f.get_id() not in base_ids]
                # 'assume' = facts about callee results (their contracts); 'oblige' = formulas PROVED on this path under its
                # path condition (e.g. the soundness of the yield): those are consequences of the conditions, not facts -
                # assuming them under the existential over the loop element would make the disjunct vacuously true for an
                # element that violates them, so they are left out
                facts = [f for f, tg in pairs if tg == "assume"]
                ev_conds = [f for f, tg in pairs if tg not in ("assume", "oblige")]
                sub_names = {str(x) for x, _ in subs}
                xs = [x for (x, itd) in ev.loopvars if str(x) not in sub_names]
                xnames = {str(x) for x in xs}
                rs = [v for v in locals_of(facts + ev_conds, {str(t)}) if str(v) not in xnames]
                cbody = z3.And(*ev_conds) if len(ev_conds) > 1 else (ev_conds[0] if ev_conds else z3.BoolVal(True))
                if not xs:
                    # hoist the universally quantified callee results: fresh names per event
                    # a callee result created on a common execution prefix is the same value in every event
                    # that shares that prefix: events may share a local iff they assume exactly the same facts
                    # about it; otherwise it is renamed apart
                    def sig(v):
                        ids = sorted(f.get_id() for f in facts if _occurs(v, f))
                        return abs(hash(tuple(ids))) % (10 ** 10)
                    ren = [(v, z3.Const(f"{v}@{sig(v)}", v.sort())) for v in rs]
                    if ren:
                        facts = [z3.substitute(f, *ren) for f in facts]
                        cbody = z3.substitute(cbody, *ren)
                    seen_h = {h.get_id() for h in extra_hyps}
                    extra_hyps.extend(f for f in facts if f.get_id() not in seen_h)
                    body = cbody
                else:
                    inner = z3.Implies(z3.And(*facts), cbody) if facts else cbody
                    if rs:
                        inner = z3.ForAll(rs, inner)
                    body = z3.Exists(xs, inner)
                disj.append(body)
            goal = z3.Implies(_zb(g.member(cc, t)), z3.Or(*disj) if disj else z3.BoolVal(False))
            obs.append(Obligation(f"generator.complete[shape{si}]", base_pc + list(conds) + extra_hyps, goal,
                                  fs.where(), "gen-complete"))
    if g.distinct:
        # pairwise: two yield events with equal values must be the same event & same loop elements
        def shape_key(ev):
            return tuple(sorted(f.get_id() for f in ev.pc[nbase:ev.args_end]))
        for i, a in enumerate(events):
            for j, b in enumerate(events):
                if j < i:
                    continue
                if shape_key(a) != shape_key(b):
                    continue  # different argument shapes never occur in the same call
                pa = strip_nd(a.pc[nbase:])
                pb = strip_nd(b.pc[nbase:])
                # rename b's locals apart
                lb = locals_of(pb + [b.value_z], set())
                ren = [(v, z3.Const(str(v) + "'", v.sort())) for v in lb]
                pb2 = [z3.substitute(f, *ren) for f in pb] if ren else pb
                vb2 = z3.substitute(b.value_z, *ren) if ren else b.value_z
                hyp = pa + pb2 + [a.value_z == vb2]
                if i == j:
                    if not a.loopvars:
                        continue  # a single non-loop yield event is trivially unique
                    same = z3.And(*[x == z3.substitute(x, *ren) for (x, _) in a.loopvars]) if ren else z3.BoolVal(True)
                    goal = z3.Implies(z3.And(*hyp), same)
                    # plus: loop collections must have distinct elements
                    for (x, itd) in a.loopvars:
                        if not itd.distinct:
                            goal = z3.BoolVal(False)
                else:
                    goal = z3.Not(z3.And(*hyp))
                obs.append(Obligation(f"generator.no-duplicates[{i},{j}]", base_pc, goal,
                                      f"{a.where} / {b.where}", "gen-distinct"))
    return obs


def _occurs(a, term):
    todo = [term]
    seen = set()
    while todo:
        x = todo.pop()
        if x.get_id() in seen:
            continue
        seen.add(x.get_id())
        if x.eq(a):
            return True
        if z3.is_quantifier(x):
            todo.append(x.body())
        elif z3.is_app(x):
            todo.extend(x.children())
    return False


def find_component(value_z, x, t):
    """If value_z is a (nested) tuple constructor application with x as a direct component,
    return the corresponding accessor applied to t."""
    if not z3.is_app(value_z):
        return None
    d = value_z.decl()
    if d.kind() != z3.Z3_OP_DT_CONSTRUCTOR:
        return None
    sort = value_z.sort()
    ci = None
    for k in range(sort.num_constructors()):
        if sort.constructor(k).eq(d):
            ci = k
    if ci is None:
        return None
    for i in range(value_z.num_args()):
        a = value_z.arg(i)
        acc = sort.accessor(ci, i)
        if z3.is_const(a) and a.eq(x):
            return acc(t)
        sub = find_component(a, x, acc(t))
        if sub is not None:
            return sub
    return None
