"""Base modelling environment: builtins, contracts registry, method resolution.

A property's contract module subclasses Model, declares classes/fields/contracts and
the global names the verified functions may see.
"""
from __future__ import annotations

import ast
import z3

from .core import (BOOL, INT, STR, CLASSES, ConcreteSeq, LazyContainer, LiveView, Path, PyExc, Snapshot, SV, SymIter,
                   StateView, TAList, TDict, TList, TObj, TOpt, TRefBase, TSet, TTuple, TUn, Ty, Unsupported,
                   _TBool, _TInt, _TStr, class_mro, declare_exception, option_sort, EXC_PARENTS)
from .interp import (BoundMethod, Builtin, ClassRef, ExcValue, GenObj, Interp, LoopSpec, ModuleNS,
                     PyFunc, _zb, _zand, _zor)
from .source import find_function, mangle


class CallCtx:
    """What a specification sees: old/new states, arguments, result."""

    def __init__(self, path: Path, interp, args: dict, old: StateView, new: StateView = None,
                 result=None, self_=None, model=None):
        self.path, self.interp, self.args, self.old, self.new, self.result, self.self = \
            path, interp, args, old, new, result, self_
        self.model = model
        self.exc = None
        self.extra = {}

    def __getattr__(self, name):
        a = self.__dict__.get("args", {})
        if name in a:
            return a[name]
        raise AttributeError(name)


class Param:
    def __init__(self, name, ty, default=NotImplemented, make=None):
        """ty: a Ty, or None for 'python None only'; make(path)->runtime value overrides."""
        self.name, self.ty, self.default, self.make = name, ty, default, make


class GenSpec:
    """Specification of a generator: the set (or multiset) of yielded elements.

    elem_ty: type the yielded value is abstracted to; abstract(interp, value)->z3 of elem_ty;
    member(c, z)->z3 Bool: z is yielded (c.old is the state at the first next());
    distinct: no element is yielded twice; wrap(interp, c, runtime elem)->value seen by callers;
    extra(c, value)-> list[(name, z3 Bool)] further obligations on each yielded value."""

    def __init__(self, elem_ty, member, distinct=True, abstract=None, wrap=None, extra=None,
                 complete=True):
        self.elem_ty, self.member, self.distinct = elem_ty, member, distinct
        self.abstract, self.wrap, self.extra, self.complete = abstract, wrap, extra, complete


class Contract:
    def __init__(self, prop, relpath, qualname, params, ret=None, pre=None, post=None, raises=None,
                 modifies=None, loops=None, gen=None, inline=False, cls=None, self_ty=None,
                 pure=False, note="", name=None, trusted=False, ret_make=None, frame=None,
                 variant=None, replay=None, interference=None, on_raise_state=None, allocates=False):
        self.prop, self.relpath, self.qualname = prop, relpath, qualname
        self.params: list[Param] = params
        self.ret, self.pre, self.post = ret, pre, post
        self.raises = raises or {}  # etype -> cond(c)->z3 Bool  (when may it be raised)
        self.modifies = modifies  # callable(c)->list of Ty/(cls,field)/ghost-name, or list
        self.loops = loops or {}
        self.gen = gen
        self.inline = inline
        self.cls = cls if cls is not None else (qualname.split(".")[0] if "." in qualname else None)
        self.method_name = qualname.split(".")[-1]
        self.self_ty = self_ty
        self.pure = pure
        self.note = note
        self.name = name or qualname
        self.trusted = trusted  # contract assumed, body not verified (external/unsupported)
        self.ret_make = ret_make
        self.frame = frame  # callable(c)->z3 Bool relating old/new outside modifies (optional)
        self.variant = variant
        self.replay = replay
        self.interference = interference
        self.on_raise_state = on_raise_state  # cond(c) on state when an allowed exception leaves
        self.allocates = allocates  # the callee may create objects: the allocation counter moves up

    def key(self):
        return (self.relpath, self.qualname)


class Model:
    """Modelling environment shared by the contracts of one property group."""

    name = "base"

    def __init__(self):
        self.contracts: dict[tuple, Contract] = {}  # (cls, method) -> Contract
        self.func_contracts: dict[str, Contract] = {}  # global function name -> Contract
        self.globals: dict[str, object] = {}
        self.axioms: list = []
        self.assumptions: list[str] = []
        self.inline_sources: dict[str, tuple] = {}  # global name -> (relpath, qualname)
        self.install_builtins()

    # ---------------------------------------------------------------- registry
    def add(self, c: Contract, variant=None):
        if variant:
            # a second verification mode of the same function (never used to resolve calls)
            self.contracts[(c.cls or "", mangle(c.cls, c.method_name) + "#" + variant)] = c
            c.name = c.name + "[" + variant + "]"
            return c
        if c.cls:
            self.contracts[(c.cls, mangle(c.cls, c.method_name))] = c
        else:
            self.func_contracts[c.method_name] = c
        return c

    def find_method_contract(self, cls, name):
        for k in class_mro(cls):
            c = self.contracts.get((k, name))
            if c is not None:
                return c
        return None

    # ---------------------------------------------------------------- builtins
    def install_builtins(self):
        g = self.globals
        for en in EXC_PARENTS:
            g[en] = ClassRef(en, construct=(lambda it, a, k, en=en: ExcValue(en, tuple(a))))
        g["len"] = Builtin("len", self.b_len)
        g["list"] = Builtin("list", self.b_list)
        g["tuple"] = Builtin("tuple", self.b_tuple)
        g["set"] = Builtin("set", self.b_set)
        g["dict"] = Builtin("dict", self.b_dict)
        g["bool"] = Builtin("bool", self.b_bool)
        g["isinstance"] = Builtin("isinstance", self.b_isinstance)
        g["cast"] = Builtin("cast", lambda it, a, k: a[1])
        g["str"] = ClassRef("str", construct=lambda it, a, k: self.to_str(it, a[0]) if a else "")
        g["int"] = ClassRef("int", construct=self.b_int)
        g["range"] = Builtin("range", self.b_range)
        g["iter"] = Builtin("iter", lambda it, a, k: a[0])
        g["sorted"] = Builtin("sorted", self.b_sorted)
        g["all"] = Builtin("all", self.b_all)
        g["any"] = Builtin("any", self.b_any)
        g["id"] = Builtin("id", self.b_id)
        g["hasattr"] = Builtin("hasattr", self.b_hasattr)
        g["TYPE_CHECKING"] = False
        g["True"], g["False"], g["None"] = True, False, None

    def b_len(self, it: Interp, args, kw):
        v = args[0]
        p = it.path
        if isinstance(v, LazyContainer) and v.resolved is None:
            return len(v.items)
        v = it.deref(v)
        if isinstance(v, SV) and isinstance(v.ty, TOpt):
            v = p.project(v.ty, v.z)
        if v is None:
            raise PyExc("TypeError", ("object of type 'NoneType' has no len()",))
        if isinstance(v, (str, tuple)):
            return len(v)
        if isinstance(v, ConcreteSeq):
            return len(v.items)
        if isinstance(v, GenObj):
            raise PyExc("TypeError", ("object of type 'generator' has no len()",))
        if isinstance(v, Snapshot):
            return it.snapshot_len(v)
        if isinstance(v, LiveView):
            return it.snapshot_len(self.cached_snapshot(it, v))
        if isinstance(v, SV):
            if isinstance(v.ty, _TStr):
                return SV(INT, z3.Length(v.z))
            if isinstance(v.ty, TList):
                return SV(INT, z3.Length(p.content(v)))
            if isinstance(v.ty, TAList):
                return SV(INT, v.ty.length(p.content(v)))
            if isinstance(v.ty, (TDict, TSet)):
                return it.snapshot_len(self.cached_snapshot(it, LiveView(v, "keys")))
            if isinstance(v.ty, TObj):
                m = self.method(it, v, "__len__")
                if m is not None:
                    return m(it, v, [], {})
        raise Unsupported(f"len of {type(v).__name__}")

    def cached_snapshot(self, it, lv: LiveView):
        """Snapshots of the same container content share witnesses/len (so len(x)==len(x))."""
        p = it.path
        c = p.content(lv.ref)
        cache = p.ghost.setdefault("__snapcache__", {})
        key = (lv.what, c.get_id(), repr(lv.ref.ty))
        if key not in cache:
            cache[key] = it.view_snapshot(lv)
        return cache[key]

    def b_list(self, it: Interp, args, kw):
        if not args:
            return self.new_list(it, [], None)
        v = args[0]
        c = it.concrete_items(v)
        if c is not None:
            return self.new_list(it, c, None)
        if isinstance(v, Snapshot):
            return v
        if isinstance(v, LiveView):
            return it.view_snapshot(v)
        if isinstance(v, SymIter):
            return self.consume_symiter(it, v)
        if isinstance(v, SV) and isinstance(v.ty, (TDict, TSet)):
            return it.view_snapshot(LiveView(v, "keys"))
        if isinstance(v, SV) and isinstance(v.ty, TList):
            return it.path.new_ref(v.ty, it.path.content(v))
        raise Unsupported(f"list() of {type(v).__name__}")

    def consume_symiter(self, it, v: SymIter):
        s = Snapshot(v.elem_ty, v.member, v.distinct, v.count, origin=("symiter", v))
        s.wrap = v.extra.get("wrap")
        return s

    def b_tuple(self, it, args, kw):
        if not args:
            return ()
        c = it.concrete_items(args[0])
        if c is not None:
            return tuple(c)
        raise Unsupported("tuple() of symbolic collection")

    def b_set(self, it, args, kw):
        if not args:
            return self.new_set(it, [], None)
        v = args[0]
        c = it.concrete_items(v)
        if c is not None:
            return self.new_set(it, c, None)
        if isinstance(v, (Snapshot, SymIter)):
            return Snapshot(v.elem_ty, v.member, True, None, kind="set")
        raise Unsupported("set() of symbolic collection")

    def b_dict(self, it, args, kw):
        if not args and not kw:
            return self.new_dict(it, [], None)
        raise Unsupported("dict(...)")

    def b_bool(self, it, args, kw):
        if not args:
            return False
        t = it.truthy(args[0])
        return t if isinstance(t, bool) else SV(BOOL, t)

    def b_int(self, it, args, kw):
        v = args[0]
        if isinstance(v, bool):
            return int(v)
        if isinstance(v, int):
            return v
        if isinstance(v, SV) and isinstance(v.ty, _TInt):
            return v
        if isinstance(v, SV) and isinstance(v.ty, _TBool):
            return SV(INT, z3.If(v.z, 1, 0))
        raise Unsupported("int() of non-int")

    def b_range(self, it, args, kw):
        if all(isinstance(a, int) for a in args):
            return range(*args)
        raise Unsupported("symbolic range")

    def b_all(self, it, args, kw):
        """all(<generator expression over a symbolic collection>) = forall x in S. cond(x)"""
        v = args[0]
        c = it.concrete_items(v)
        if c is not None:
            return _wrapb(_zand([_zb(it.truthy(x)) for x in c]))
        if isinstance(v, (SymIter, Snapshot)) and v.elem_ty.sort() == z3.BoolSort():
            return SV(BOOL, z3.Not(v.member(z3.BoolVal(False))))
        raise Unsupported("all() of a symbolic collection of non-booleans")

    def b_any(self, it, args, kw):
        v = args[0]
        c = it.concrete_items(v)
        if c is not None:
            return _wrapb(_zor([_zb(it.truthy(x)) for x in c]))
        if isinstance(v, (SymIter, Snapshot)) and v.elem_ty.sort() == z3.BoolSort():
            return SV(BOOL, v.member(z3.BoolVal(True)))
        raise Unsupported("any() of a symbolic collection of non-booleans")

    def b_sorted(self, it, args, kw):
        raise Unsupported("sorted()")

    def b_id(self, it, args, kw):
        raise Unsupported("id()")

    def b_hasattr(self, it, args, kw):
        raise Unsupported("hasattr()")

    def b_isinstance(self, it: Interp, args, kw):
        v, c = args
        cs = c if isinstance(c, tuple) else (c,)
        return _wrapb(_zor([self.isinstance1(it, v, k) for k in cs]))

    def isinstance1(self, it, v, c):
        if isinstance(c, Builtin) and c.name in ("list", "tuple", "set", "dict", "bool"):
            c = ClassRef(c.name)
        if not isinstance(c, ClassRef):
            raise Unsupported("isinstance with non-class")
        n = c.name
        if isinstance(v, SV) and isinstance(v.ty, TOpt):
            v = it.path.project(v.ty, v.z)
        if v is None:
            return n == "NoneType"
        if isinstance(v, bool):
            return n in ("bool", "int", "object")
        if isinstance(v, int):
            return n in ("int", "object")
        if isinstance(v, str):
            return n in ("str", "object")
        if isinstance(v, tuple):
            return n in ("tuple", "object")
        if isinstance(v, SV):
            if isinstance(v.ty, _TInt):
                return n in ("int", "object")
            if isinstance(v.ty, _TBool):
                return n in ("bool", "int", "object")
            if isinstance(v.ty, _TStr):
                return n in ("str", "object")
            if isinstance(v.ty, TDict):
                return n in ("dict", "object")
            if isinstance(v.ty, TSet):
                return n in ("set", "object")
            if isinstance(v.ty, TList):
                return n in ("list", "object")
            if isinstance(v.ty, TObj):
                r = self.obj_isinstance(it, v, n)
                if r is not NotImplemented:
                    return r
                return n in class_mro(v.ty.cls) or n == "object"
            if c.isinstance_fn is not None:
                return c.isinstance_fn(it, v)
            if isinstance(v.ty, TUn):
                r = self.un_isinstance(it, v, n)
                if r is not NotImplemented:
                    return r
        if isinstance(v, (ConcreteSeq, Snapshot)):
            return n in ("list", "object")
        raise Unsupported(f"isinstance({type(v).__name__}, {n})")

    def obj_isinstance(self, it, v, n):
        return NotImplemented

    def un_isinstance(self, it, v, n):
        return NotImplemented

    # ---------------------------------------------------------------- hooks (defaults)
    def setup_path(self, path, interp, contract, selfv, args):
        pass

    def describe_model(self, mdl, contract, ob):
        out = {}
        for d in mdl.decls():
            n = d.name()
            if n.startswith("arg_") or n in ("self",):
                out[n] = str(mdl[d])[:200]
        return out

    def global_name(self, it, name, node=None):
        if name in self.globals:
            v = self.globals[name]
            return v
        if name in self.func_contracts:
            # a module-level function under contract: calls go through its contract, never its body
            c = self.func_contracts[name]
            return Builtin(name, lambda it2, a, k, c=c: it2.model.call_contract(it2, c, None, a, k))
        if name in self.inline_sources:
            rel, q = self.inline_sources[name]
            fs = find_function(rel, q)
            f = PyFunc(fs.node, {"__parent__": None}, fs.cls, q, rel)
            return f
        raise Unsupported(f"global name '{name}' not modelled")

    def nonempty_dict(self, it, v):
        return it.snapshot_nonempty(self.cached_snapshot(it, LiveView(v, "keys")))

    def nonempty_set(self, it, v):
        return it.snapshot_nonempty(self.cached_snapshot(it, LiveView(v, "keys")))

    def obj_eq(self, it, a, b):
        return None

    def cross_eq(self, it, a, b):
        return False

    def inplace_op(self, it, op, cur, rhs):
        return NotImplemented

    def value_identity(self, it, a, b):
        return NotImplemented

    def unpack(self, it, v, n):
        return None

    def is_lock(self, it, v):
        return False

    def nested_function(self, it, f: PyFunc):
        return f

    def havoc_ghost(self, it, name):
        raise Unsupported(f"havoc of ghost {name}")

    def foreach_writes_ok(self, it, s):
        return False

    def iter_descr(self, it, v):
        return None

    def new_list(self, it, items, node):
        return ConcreteSeq(items, "list")

    def new_set(self, it, items, node):
        return LazyContainer("set", items)

    def new_dict(self, it, items, node):
        return LazyContainer("dict", items)

    def to_str(self, it, v):
        if isinstance(v, str):
            return v
        if isinstance(v, bool):
            return "True" if v else "False"
        if isinstance(v, int):
            return str(v)
        if isinstance(v, SV) and isinstance(v.ty, _TStr):
            return v
        raise Unsupported(f"str() of {v!r}")

    def binop(self, it, op, a, b):
        return NotImplemented

    def order_compare(self, it, op, a, b):
        return NotImplemented

    def contains(self, it, coll, x, node):
        return NotImplemented

    def getitem(self, it, obj, key, node):
        return NotImplemented

    def setitem(self, it, obj, key, v, node):
        return NotImplemented

    def delitem(self, it, obj, key, node):
        return NotImplemented

    def getattr(self, it, obj, name, node):
        return NotImplemented

    def setattr(self, it, obj, name, v, node):
        return NotImplemented

    def coerce_field(self, it, obj, name, fty, v):
        return v

    def on_heap_write(self, it, ref):
        pass

    def yield_from(self, it, v, node):
        """`yield from coll` == `for x in coll: yield x` (foreach rule: an arbitrary element is yielded on one path, the
        other path continues after the statement; under interference the heap is havocked as after any yield)"""
        from .core import PathEnd
        from .interp import _conj
        p = it.path
        conc = it.concrete_items(v)
        if conc is not None:
            for x in conc:
                it.on_yield(it, x, node)
            return
        itd = it.iter_descr(v, node)
        if p.choose(z3.Bool(p.fresh_name("iter"))):
            x = z3.Const(p.fresh_name("x"), itd.elem_ty.sort())
            mx = itd.member(x)
            p.assume(mx)
            for cj in _conj(mx):
                p.pc_tags[z3.simplify(cj).get_id()] = "member"
                p.pc_tags[cj.get_id()] = "member"
            if it.interference is not None:
                it.interference.after_yield(it, it.callctx, node)     # earlier elements were yielded already
            p.ghost["__loopvars__"] = p.ghost.get("__loopvars__", []) + [(x, itd)]
            it.on_yield(it, itd.elem(it, x), node)
            raise PathEnd("yield-from-iteration")
        if it.interference is not None:
            it.interference.after_yield(it, it.callctx, node)

    def symbolic_comprehension(self, it, e, g, itd, env, kind):
        """[f(x) for x in S if c(x)] over a symbolic collection -> Snapshot with
        member'(y) = exists x. member(x) and c(x) and y = f(x); identity maps avoid the quantifier."""
        p = it.path
        x = z3.Const(p.fresh_name("cx"), itd.elem_ty.sort())
        env2 = {"__parent__": env}
        p.ghost["__pure__"] = p.ghost.get("__pure__", 0) + 1
        saved_b = p.ghost.get("__binders__", [])
        try:
            xv = self.pure_project(it, itd.elem_ty, x)
            it.assign(g.target, xv, env2)
            conds = [it.pure_eval(c, env2) for c in g.ifs]
            condz = _zb(_zand([_zb(it.truthy(c)) for c in conds])) if conds else z3.BoolVal(True)
            p.ghost["__binders__"] = saved_b + [(x, z3.And(itd.member(x), condz))]
            val = it.pure_eval(e.elt, env2)
        finally:
            p.ghost["__pure__"] -= 1
            p.ghost["__binders__"] = saved_b
        out_ty, valz = self.type_of_value(it, val)
        member = itd.member

        # [k for k, v in d.items() if c(k, v)]: the element is the key of an items() pair, so
        #   y in result  <=>  y is a key of d and c(y, d[y])      (quantifier-free, exact; keys are unique)
        key_of_items = None
        org = getattr(itd, "origin", None)
        if org is not None and org[0] == "items" and isinstance(itd.elem_ty, TTuple):
            if z3.simplify(valz).eq(z3.simplify(itd.elem_ty.proj(0, x))):
                dref, dcont = org[1], org[2]
                os_ = option_sort(dref.ty.v.sort())
                key_of_items = (dcont, os_, itd.elem_ty)

        def mem(y, x=x, condz=condz, valz=valz, member=member):
            if key_of_items is not None:
                dcont, os_, tt = key_of_items
                ent = z3.Select(dcont, y)
                pair = tt.mk(y, os_.get(ent))
                return z3.And(os_.is_some(ent), z3.substitute(condz, (x, pair)))
            body = z3.And(member(x), condz, y == valz)
            if z3.is_const(valz) and valz.eq(x):
                return z3.substitute(z3.And(member(x), condz), (x, y))
            return z3.Exists([x], body)
        ident = z3.is_const(valz) and valz.eq(x)
        if key_of_items is not None:
            distinct = True
        elif ident:
            distinct = itd.distinct
        elif itd.distinct is True or z3.is_expr(itd.distinct):
            # injectivity of the element map on the (distinct) source: a formula to be proved by whoever
            # relies on duplicate-freedom
            x2 = z3.Const(p.fresh_name("cx2"), itd.elem_ty.sort())
            g1 = z3.And(member(x), condz)
            g2 = z3.substitute(g1, (x, x2))
            v2 = z3.substitute(valz, (x, x2))
            distinct = z3.ForAll([x, x2], z3.Implies(z3.And(g1, g2, x != x2), valz != v2))
            if z3.is_expr(itd.distinct):
                distinct = z3.And(itd.distinct, distinct)
        else:
            distinct = False
        s = Snapshot(out_ty, mem, distinct, None, kind="list" if kind != "set" else "set")
        if kind == "gen":
            return SymIter(out_ty, mem, distinct, label="genexpr")
        return s

    def pure_project(self, it, ty, z):
        """Projection without forking: tuples are opened, optionals stay symbolic."""
        if isinstance(ty, TTuple):
            return tuple(self.pure_project(it, t, ty.proj(i, z)) for i, t in enumerate(ty.items))
        return SV(ty, z)

    def type_of_value(self, it, v):
        if isinstance(v, SV):
            return v.ty, v.z
        if isinstance(v, tuple):
            parts = [self.type_of_value(it, x) for x in v]
            tt = TTuple(*[t for t, _ in parts])
            return tt, tt.mk(*[z for _, z in parts])
        if isinstance(v, bool):
            return BOOL, z3.BoolVal(v)
        if isinstance(v, int):
            return INT, z3.IntVal(v)
        if isinstance(v, str):
            return STR, z3.StringVal(v)
        raise Unsupported(f"type of {v!r}")

    def pure_getattr(self, it, obj, name, node):
        if isinstance(obj, SV) and isinstance(obj.ty, TObj):
            from .core import field_type
            owner, fty = field_type(obj.ty.cls, name)
            if owner is not None:
                key, fty, arr = it.path.field_arr(obj.ty.cls, name)
                return SV(fty, z3.Select(arr, obj.z))
        raise Unsupported(f"pure attribute .{name}")

    def pure_call(self, it, pe, e, env):
        """Fork-free calls under a binder: dict.get(k[, default]) only."""
        p = it.path
        if isinstance(e.func, ast.Attribute) and e.func.attr == "get" and not e.keywords:
            obj = it.deref(pe.ev(e.func.value, env))
            if isinstance(obj, SV) and isinstance(obj.ty, TDict):
                ty = obj.ty
                os_ = option_sort(ty.v.sort())
                k = pe.ev(e.args[0], env)
                ent = z3.Select(p.content(obj), it.key_inject(ty.k, k))
                present = z3.Not(os_.is_none(ent))
                default = pe.ev(e.args[1], env) if len(e.args) > 1 else None
                try:
                    dz = p.inject(ty.v, default)
                    return SV(ty.v, z3.If(present, os_.get(ent), dz))
                except (Unsupported, PyExc):
                    # default of another type: the key must be present for every element considered
                    binders = p.ghost.get("__binders__", [])
                    guard = z3.And(*[g for _, g in binders]) if binders else z3.BoolVal(True)
                    xs = [x for x, _ in binders]
                    f = z3.Implies(guard, present)
                    p.oblige(f"dict.get-default-unused@{getattr(e, 'lineno', '?')}",
                             z3.ForAll(xs, f) if xs else f, it.where(e), "typing")
                    return SV(ty.v, os_.get(ent))
        if isinstance(e.func, ast.Attribute) and not e.keywords:
            obj = it.deref(pe.ev(e.func.value, env))
            if isinstance(obj, SV) and isinstance(obj.ty, TObj):
                from .source import mangle as _m
                c = self.find_method_contract(obj.ty.cls, _m(it.cur_cls, e.func.attr))
                if c is not None and getattr(c, "pure_value", None) is not None:
                    # a side-effect free method whose contract gives its value as a term: usable under a binder
                    args = [pe.ev(a, env) for a in e.args]
                    a = self.bind_args(it, c, args, {})
                    cc = CallCtx(p, it, a, p.snapshot_state(), None, None, obj, self)
                    return SV(c.ret, _zb(c.pure_value(cc)))
        if isinstance(e.func, ast.Name) and not e.keywords and e.func.id in self.func_contracts \
                and getattr(self.func_contracts[e.func.id], "pure_value", None) is not None:
            # a side-effect free module-level function whose contract gives its value as a term
            c = self.func_contracts[e.func.id]
            args = [pe.ev(a, env) for a in e.args]
            a = self.bind_args(it, c, args, {})
            cc = CallCtx(p, it, a, p.snapshot_state(), None, None, None, self)
            v = c.pure_value(cc)
            return SV(c.ret, v if not isinstance(v, bool) else z3.BoolVal(v))
        if isinstance(e.func, ast.Name) and not e.keywords:
            f = it.lookup(e.func.id, env, e)
            if isinstance(f, Builtin) and f.name in ("isinstance", "_assertnode", "len", "bool"):
                args = [pe.ev(a, env) for a in e.args]
                return f.fn(it, args, {})
        raise Unsupported("pure call")

    def pure_subscript(self, it, pe, e, env):
        raise Unsupported("pure subscript")

    def str_format_percent(self, it, fmt, arg):
        raise Unsupported("% formatting")

    def super_method(self, it, selfv, cur_cls, name):
        raise Unsupported("super()")

    # ---------------------------------------------------------------- method resolution
    def method(self, it, obj: SV, name):
        """Resolve obj.name to a callable(it, obj, args, kwargs) via the contract registry."""
        if not (isinstance(obj, SV) and isinstance(obj.ty, TObj)):
            return None
        c = self.find_method_contract(obj.ty.cls, name)
        if c is None:
            return None
        return lambda it2, o, args, kw, c=c: self.call_contract(it2, c, o, args, kw)

    def bind_args(self, it, c: Contract, args, kw):
        out = {}
        args = list(args)
        kw = dict(kw)
        for i, prm in enumerate(c.params):
            if i < len(args):
                out[prm.name] = args[i]
            elif prm.name in kw:
                out[prm.name] = kw.pop(prm.name)
            elif prm.default is not NotImplemented:
                out[prm.name] = prm.default
            else:
                raise PyExc("TypeError", (f"{c.name}: missing argument {prm.name}",))
        if len(args) > len(c.params) or kw:
            raise PyExc("TypeError", (f"{c.name}: unexpected arguments",))
        return out

    def call_contract(self, it: Interp, c: Contract, selfv, args, kw):
        """Modular call: assert pre, havoc frame, assume post."""
        p = it.path
        if c.inline:
            fs = find_function(c.relpath, c.qualname)
            f = PyFunc(fs.node, {"__parent__": None}, fs.cls, c.qualname, c.relpath)
            f.loops = c.loops
            saved = it.fsrc
            it.fsrc = fs
            try:
                return it.call_pyfunc(f, ([selfv] if selfv is not None else []) + list(args), kw)
            finally:
                it.fsrc = saved
        a = self.bind_args(it, c, args, kw)
        old = p.snapshot_state()
        cc = CallCtx(p, it, a, old, None, None, selfv, self)
        if c.pre is not None:
            pre = c.pre(cc)
            p.oblige(f"call:{c.name}.pre", _zb(pre), "", "call-pre")
        # exceptional outcomes
        for etype, cond in c.raises.items():
            cz = _zb(cond(cc))
            if z3.is_false(z3.simplify(cz)):
                continue
            if p.choose(cz if c.raises_exact(etype) else z3.And(cz, z3.Bool(p.fresh_name("mayraise")))):
                raise PyExc(etype, (f"raised by {c.name} (contract)",))
        mods = c.modifies(cc) if callable(c.modifies) else (c.modifies or [])
        if mods:
            it.heap_writes += 1
        for m in mods:
            if isinstance(m, tuple) and isinstance(m[0], TRefBase):
                # (Ty, ref_z): only that object's content changes
                ty, rz = m
                fresh = z3.Const(p.fresh_name("cont"), ty.content_sort())
                p.heap[ty.key()] = z3.Store(p.heap_arr(ty), rz, fresh)
            elif isinstance(m, tuple) and len(m) == 3:
                key, fty, arr = p.field_arr(m[0], m[1])
                p.fields[key] = z3.Store(arr, m[2], z3.Const(p.fresh_name("fld"), fty.sort()))
            elif isinstance(m, tuple):
                p.havoc_field(m[0], m[1], "call")
            elif isinstance(m, str):
                p.ghost[m] = self.havoc_ghost(it, m)
            else:
                p.havoc_heap_type(m, "call")
        if c.allocates:
            a0 = p.alloc
            p.alloc = z3.Int(p.fresh_name("alloc"))
            p.assume(p.alloc >= a0)
        cc.new = p.snapshot_state()
        n0 = len(p.pc)
        p.call_marks.append([c.name, n0, None])
        if c.gen is not None:
            g = c.gen
            cc.result = None
            member = lambda z, cc=cc, g=g: _zb(g.member(cc, z))
            extra = {}
            if g.wrap is not None:
                extra["wrap"] = lambda it2, x, cc=cc, g=g: g.wrap(it2, cc, x)
            res = SymIter(g.elem_ty, member, g.distinct, label=c.name, extra=extra)
            if c.post is not None:
                p.assume(_zb(c.post(cc)), f"postcondition of {c.name}")
            p.call_marks[-1][2] = len(p.pc)
            return res
        if c.ret_make is not None:
            res = c.ret_make(cc)
        elif c.ret is None:
            res = None
        else:
            res = p.fresh_sv(c.ret, "r_" + c.method_name)
        cc.result = res
        p.call_marks[-1].append(len(p.pc))   # [name, before-result, after-post, after-result]
        if c.post is not None:
            ps = c.post(cc)
            if isinstance(ps, (list, tuple)):
                for x in ps:
                    p.assume(_zb(x[1] if isinstance(x, tuple) else x), f"postcondition of {c.name}")
            else:
                p.assume(_zb(ps), f"postcondition of {c.name}")
        if c.frame is not None:
            p.assume(_zb(c.frame(cc)), f"frame of {c.name}")
        p.call_marks[-1][2] = len(p.pc)
        return res


def _raises_exact(self, etype):
    return getattr(self, "exact_raises", True)


Contract.raises_exact = _raises_exact


def _wrapb(x):
    if isinstance(x, bool):
        return x
    return SV(BOOL, x)
