"""PyVC core: types, symbolic values, path state, path explorer.

Runs under python3-vt (z3).  Nothing here knows about rdflib.
"""
from __future__ import annotations

import itertools
import os
import time
import z3

# --------------------------------------------------------------------------
# Types
# --------------------------------------------------------------------------

_OPTION_CACHE: dict[str, tuple] = {}


def option_sort(inner: z3.SortRef):
    """Option datatype over a z3 sort (cached by sort name)."""
    key = str(inner)
    if key not in _OPTION_CACHE:
        suf = "".join(ch if ch.isalnum() else "_" for ch in key)
        name = "Opt_" + suf
        dt = z3.Datatype(name)
        dt.declare("none_" + suf)
        dt.declare("some_" + suf, ("get_" + suf, inner))
        dt = dt.create()
        # uniform python-level accessors whatever the z3-level names are
        dt.none = dt.constructor(0)()
        dt.some = dt.constructor(1)
        dt.get = dt.accessor(1, 0)
        dt.is_none = dt.recognizer(0)
        dt.is_some = dt.recognizer(1)
        _OPTION_CACHE[key] = dt
    return _OPTION_CACHE[key]


class Ty:
    is_ref = False

    def sort(self) -> z3.SortRef:
        raise NotImplementedError

    def key(self) -> str:
        return repr(self)

    def __repr__(self):
        return self.__class__.__name__

    def __eq__(self, o):
        return isinstance(o, Ty) and self.key() == o.key()

    def __hash__(self):
        return hash(self.key())


class _TInt(Ty):
    def sort(self):
        return z3.IntSort()

    def __repr__(self):
        return "Int"


class _TBool(Ty):
    def sort(self):
        return z3.BoolSort()

    def __repr__(self):
        return "Bool"


class _TStr(Ty):
    def sort(self):
        return z3.StringSort()

    def __repr__(self):
        return "Str"


INT, BOOL, STR = _TInt(), _TBool(), _TStr()

_UNSORTS: dict[str, z3.SortRef] = {}


class TUn(Ty):
    """Uninterpreted sort (RDF terms, abstract string keys, ...)."""

    def __init__(self, name: str, truthy=None, pyclass=None):
        self.name = name
        self.truthy_fn = truthy  # z3 function Sort->Bool or None (always truthy)
        self.pyclass = pyclass

    def sort(self):
        if self.name not in _UNSORTS:
            _UNSORTS[self.name] = z3.DeclareSort(self.name)
        return _UNSORTS[self.name]

    def __repr__(self):
        return self.name


class TOpt(Ty):
    def __init__(self, inner: Ty):
        assert not isinstance(inner, TOpt)
        self.inner = inner

    def sort(self):
        if self.inner.is_ref:
            return z3.IntSort()
        return option_sort(self.inner.sort())

    def __repr__(self):
        return f"Opt[{self.inner!r}]"


_TUPLE_CACHE: dict[str, tuple] = {}


class TTuple(Ty):
    _CANON: dict = {}

    def __init__(self, *items: Ty, name: str | None = None):
        self.items = items
        key = tuple(repr(i) for i in items)
        if name is None:
            # structurally equal tuple types share one datatype (first registered name wins)
            name = TTuple._CANON.get(key) or ("Tup_" + "_".join(
                "".join(c if c.isalnum() else "" for c in repr(i)) for i in items))
        TTuple._CANON.setdefault(key, name)
        self.name = name

    def _dt(self):
        if self.name not in _TUPLE_CACHE:
            _TUPLE_CACHE[self.name] = z3.TupleSort(self.name, [i.sort() for i in self.items])
        return _TUPLE_CACHE[self.name]

    def sort(self):
        return self._dt()[0]

    def mk(self, *zs):
        return self._dt()[1](*zs)

    def proj(self, i, z):
        return self._dt()[2][i](z)

    def __repr__(self):
        return self.name


class TRefBase(Ty):
    is_ref = True

    def sort(self):
        return z3.IntSort()


class TDict(TRefBase):
    def __init__(self, k: Ty, v: Ty):
        self.k, self.v = k, v

    def content_sort(self):
        return z3.ArraySort(self.k.sort(), option_sort(self.v.sort()))

    def empty(self):
        return z3.K(self.k.sort(), option_sort(self.v.sort()).none)

    def __repr__(self):
        return f"Dict[{self.k!r},{self.v!r}]"


class TSet(TRefBase):
    def __init__(self, k: Ty):
        self.k = k

    def content_sort(self):
        return z3.ArraySort(self.k.sort(), z3.BoolSort())

    def empty(self):
        return z3.K(self.k.sort(), z3.BoolVal(False))

    def __repr__(self):
        return f"Set[{self.k!r}]"


class TList(TRefBase):
    """Mutable list object: content is a z3 sequence of the element sort."""

    def __init__(self, v: Ty):
        self.v = v

    def content_sort(self):
        return z3.SeqSort(self.v.sort())

    def empty(self):
        return z3.Empty(z3.SeqSort(self.v.sort()))

    def __repr__(self):
        return f"List[{self.v!r}]"


class TAList(TRefBase):
    """Mutable list modelled as (length, array index -> element): friendlier to E-matching than z3
    sequences when invariants quantify over positions."""
    _DT: dict = {}

    def __init__(self, v: Ty):
        self.v = v

    def _dt(self):
        k = str(self.v.sort())
        if k not in TAList._DT:
            nm = "AList_" + "".join(c if c.isalnum() else "_" for c in k)
            TAList._DT[k] = z3.TupleSort(nm, [z3.IntSort(), z3.ArraySort(z3.IntSort(), self.v.sort())])
        return TAList._DT[k]

    def content_sort(self):
        return self._dt()[0]

    def mk(self, n, arr):
        return self._dt()[1](n, arr)

    def length(self, c):
        return self._dt()[2][0](c)

    def elems(self, c):
        return self._dt()[2][1](c)

    def empty(self):
        return self.mk(z3.IntVal(0), z3.K(z3.IntSort(), z3.Const("alist_dflt_" + str(self.v.sort()), self.v.sort())))

    def __repr__(self):
        return f"AList[{self.v!r}]"


class TObj(TRefBase):
    """Reference to an instance of a class; fields are declared in CLASSES."""

    def __init__(self, cls: str):
        self.cls = cls

    def __repr__(self):
        return f"Obj[{self.cls}]"


_CARD = {}


def card_fn(content_sort):
    """Uninterpreted cardinality of a set/dict content (axioms are added where len() is used)."""
    k = str(content_sort)
    if k not in _CARD:
        _CARD[k] = z3.Function("card_" + "".join(c if c.isalnum() else "_" for c in k), content_sort, z3.IntSort())
    return _CARD[k]


class ClassInfo:
    def __init__(self, name, bases=(), fields=None, truthy=None):
        self.name = name
        self.bases = tuple(bases)
        self.fields: dict[str, Ty] = dict(fields or {})
        self.truthy = truthy  # callable(path, ref)->z3 Bool, for classes defining __len__/__bool__


CLASSES: dict[str, ClassInfo] = {}


def declare_class(name, bases=(), fields=None, truthy=None):
    """(Re)declaring a class merges field declarations: several models live in one process."""
    old = CLASSES.get(name)
    if old is not None:
        merged = dict(old.fields)
        merged.update(fields or {})
        CLASSES[name] = ClassInfo(name, bases or old.bases, merged, truthy or old.truthy)
    else:
        CLASSES[name] = ClassInfo(name, bases, fields, truthy)
    return CLASSES[name]


def class_mro(name):
    out, todo = [], [name]
    while todo:
        n = todo.pop(0)
        if n in out:
            continue
        out.append(n)
        if n in CLASSES:
            todo.extend(CLASSES[n].bases)
    return out


def field_type(cls, fname):
    for c in class_mro(cls):
        ci = CLASSES.get(c)
        if ci and fname in ci.fields:
            return c, ci.fields[fname]
    return None, None


# --------------------------------------------------------------------------
# Runtime values
# --------------------------------------------------------------------------


class SV:
    """Symbolic value of a non-optional type."""
    __slots__ = ("ty", "z")

    def __init__(self, ty: Ty, z):
        self.ty, self.z = ty, z

    def __repr__(self):
        return f"SV({self.ty!r},{self.z})"


class Snapshot:
    """An immutable finite collection described by a membership predicate.

    elem_ty: element type; member(zexpr)->z3 Bool; distinct: elements pairwise distinct
    (True for key/set snapshots). `count` optional z3 Int for len()."""

    def __init__(self, elem_ty, member, distinct=True, count=None, kind="list", origin=None):
        self.elem_ty, self.member, self.distinct, self.count = elem_ty, member, distinct, count
        self.kind = kind
        self.origin = origin


class LiveView:
    """dict.keys()/items()/values() view or direct iteration over a heap container."""

    def __init__(self, ref: SV, what: str):
        self.ref, self.what = ref, what


class ConcreteSeq:
    """A python-level list/tuple literal of runtime values that is immutable in our model."""

    def __init__(self, items, kind="list"):
        self.items = list(items)
        self.kind = kind


class SymIter:
    """Result of a generator call specified by contract: a lazily consumed iterable.

    elem_ty, member(z)->Bool, distinct flag.  `live` tells the loop rule whether the callee's
    contract allows interference between yields and what it then guarantees."""

    def __init__(self, elem_ty, member, distinct=True, label="", count=None, extra=None):
        self.elem_ty, self.member, self.distinct, self.label = elem_ty, member, distinct, label
        self.count = count
        self.extra = extra or {}


class LazyContainer:
    """A dict/set literal whose element types are not known until it is first stored into a typed
    slot (field, container entry, parameter).  Resolution allocates one heap object; identity is kept."""

    def __init__(self, kind, items=()):
        self.kind, self.items, self.resolved = kind, list(items), None


class PyExc(Exception):
    """A Python exception raised by the interpreted program."""

    def __init__(self, etype: str, args=(), where=None):
        super().__init__(etype)
        self.etype, self.eargs, self.where = etype, args, where


class Infeasible(Exception):
    pass


class Unsupported(Exception):
    """Construct outside the supported subset: the function is 'undecided'."""


class PathEnd(Exception):
    """Terminates the current path normally (e.g. end of an arbitrary loop iteration)."""

    def __init__(self, why=""):
        super().__init__(why)
        self.why = why


EXC_PARENTS = {
    "BaseException": None,
    "Exception": "BaseException",
    "LookupError": "Exception",
    "KeyError": "LookupError",
    "IndexError": "LookupError",
    "ValueError": "Exception",
    "TypeError": "Exception",
    "AttributeError": "Exception",
    "RuntimeError": "Exception",
    "RecursionError": "RuntimeError",
    "NotImplementedError": "RuntimeError",
    "StopIteration": "Exception",
    "AssertionError": "Exception",
    "ArithmeticError": "Exception",
    "ZeroDivisionError": "ArithmeticError",
    "OverflowError": "ArithmeticError",
    "UnicodeError": "ValueError",
    "UnicodeDecodeError": "UnicodeError",
    "UnicodeEncodeError": "UnicodeError",
    "OSError": "Exception",
    "GeneratorExit": "BaseException",
}


def declare_exception(name, parent="Exception"):
    EXC_PARENTS[name] = parent


def exc_isinstance(etype, cls):
    while etype is not None:
        if etype == cls:
            return True
        etype = EXC_PARENTS.get(etype, "Exception" if etype != "BaseException" else None)
    return False


# --------------------------------------------------------------------------
# Obligations
# --------------------------------------------------------------------------


class Obligation:
    def __init__(self, name, pc, formula, where="", kind="assert", ctx=None):
        self.name, self.pc, self.formula, self.where, self.kind = name, list(pc), formula, where, kind
        self.ctx = ctx or {}
        self.status = None  # proved / failed / unknown
        self.model = None
        self.backend = None
        self.seconds = 0.0
        self.reason = ""


# --------------------------------------------------------------------------
# Path: the mutable state of one symbolic execution
# --------------------------------------------------------------------------

FEAS_TIMEOUT_MS = 400


def has_quantifier(f, _cache={}):
    if not z3.is_expr(f):
        return False
    i = f.get_id()
    if i in _cache:
        return _cache[i]
    todo = [f]
    seen = set()
    r = False
    while todo:
        x = todo.pop()
        xi = x.get_id()
        if xi in seen:
            continue
        seen.add(xi)
        if z3.is_quantifier(x):
            r = True
            break
        todo.extend(x.children())
    if len(_cache) > 200000:
        _cache.clear()
    _cache[i] = r
    return r


class Path:
    def __init__(self, prefix, axioms=(), feas_timeout=FEAS_TIMEOUT_MS, forced=()):
        self.prefix = list(prefix)
        self.forced = list(forced)
        self.taken: list[bool] = []
        self.alternatives: list[list[bool]] = []
        self.pc: list = []
        self.pc_tags: dict = {}   # formula id -> 'assume' | 'oblige' (everything else is a branch decision)
        self.solver = z3.SimpleSolver()
        self.solver.set("timeout", feas_timeout)
        self.solver.set("mbqi", False)
        for a in axioms:
            self.sadd(a)
            self.pc.append(a)
            self.pc_tags[a.get_id()] = "assume"
        self.heap: dict[str, object] = {}  # ty.key() -> z3 array Int -> content
        self.heap_ty: dict[str, Ty] = {}
        self.fields: dict[tuple, object] = {}  # (cls, fname) -> z3 array Int -> sort
        self.field_ty: dict[tuple, Ty] = {}
        self.ghost: dict[str, object] = {}
        self.counter = itertools.count()
        self.obligations: list[Obligation] = []
        self.assumed: list[str] = []
        self.trace: list = []  # yields
        self.alloc = z3.Int("alloc0")
        self.alloc0 = self.alloc
        self.notes: list[str] = []
        self.dropped: list[str] = []
        self.feas_unknown = 0
        self.terms_created: list = []
        self.local_refs: list = []
        self.escaped: set = set()
        self.call_marks: list = []

    def sadd(self, f):
        """Feasibility solver sees only the quantifier-free part of the path condition
        (over-approximates feasibility: sound, and keeps branch checks in milliseconds)."""
        if not has_quantifier(f):
            self.solver.add(f)

    def hint(self, term):
        """Make a ground term visible to E-matching (witness hints); logically a tautology."""
        srt = term.sort()
        h = z3.Function("hint_" + "".join(c if c.isalnum() else "_" for c in str(srt)), srt, z3.BoolSort())
        f = z3.Or(h(term), z3.Not(h(term)))
        f = h(term) == h(term)
        # keep it from being simplified away: assert h(term) for an uninterpreted h (h is otherwise free)
        self.pc.append(h(term))
        self.solver.add(h(term))

    # ---- fresh names -----------------------------------------------------
    def fresh_name(self, base):
        return f"{base}!{next(self.counter)}"

    def fresh(self, ty: Ty, base="v"):
        return z3.Const(self.fresh_name(base), ty.sort())

    def fresh_sv(self, ty: Ty, base="v"):
        return self.project(ty, self.fresh(ty, base))

    # ---- path condition ---------------------------------------------------
    def assume(self, f, why=None):
        if isinstance(f, bool):
            if not f:
                raise Infeasible()
            return
        if z3.is_expr(f) and z3.is_and(f):
            for ch in f.children():
                self.assume(ch)
            if why:
                self.assumed.append(why)
            return
        f = z3.simplify(f) if z3.is_expr(f) else f
        if z3.is_false(f):
            raise Infeasible()
        if z3.is_true(f):
            return
        self.pc.append(f)
        self.pc_tags[f.get_id()] = "assume"
        self.sadd(f)
        if why:
            self.assumed.append(why)

    def condition(self, f):
        """add a path condition that is NOT a fact about callee results: it says which executions take this path
        (generator completeness VCs must establish it, not assume it)"""
        f = z3.simplify(f) if z3.is_expr(f) else f
        if isinstance(f, bool) or z3.is_true(f) or z3.is_false(f):
            if f is False or (z3.is_expr(f) and z3.is_false(f)):
                raise Infeasible()
            return
        self.pc.append(f)
        self.sadd(f)

    def oblige(self, name, f, where="", kind="assert", ctx=None):
        """Record a proof obligation pc => f and assume it afterwards."""
        if isinstance(f, bool):
            f = z3.BoolVal(f)
        ob = Obligation(name, self.pc, f, where, kind, ctx)
        self.obligations.append(ob)
        # assumed afterwards (standard assert-then-assume)
        self.pc.append(f)
        self.pc_tags[f.get_id()] = "oblige"
        self.sadd(f)
        return ob

    def check_sat(self, extra):
        self.solver.push()
        try:
            self.solver.add(extra)
            r = self.solver.check()
        finally:
            self.solver.pop()
        return r

    def choose(self, cond) -> bool:
        """Branch on a z3 Bool (or python bool)."""
        if isinstance(cond, bool):
            return cond
        cond = z3.simplify(cond)
        if z3.is_true(cond):
            return True
        if z3.is_false(cond):
            return False
        i = len(self.taken)
        if i < len(self.prefix):
            d = self.prefix[i]
        elif i < len(self.forced):
            d = self.forced[i]
            if self.check_sat(cond if d else z3.Not(cond)) == z3.unsat:
                raise Infeasible()
        else:
            rt = self.check_sat(cond)
            rf = self.check_sat(z3.Not(cond))
            if rt == z3.unknown or rf == z3.unknown:
                self.feas_unknown += 1
            t_ok, f_ok = rt != z3.unsat, rf != z3.unsat
            if t_ok and f_ok:
                d = True
                self.alternatives.append(self.taken + [False])
            elif t_ok:
                d = True
            elif f_ok:
                d = False
            else:
                raise Infeasible()
        self.taken.append(d)
        c = cond if d else z3.Not(cond)
        self.pc.append(c)
        self.sadd(c)
        return d

    def choose_n(self, n: int) -> int:
        """Non-deterministic choice among n alternatives (no condition)."""
        k = 0
        while k < n - 1:
            b = z3.Bool(self.fresh_name("nd"))
            if self.choose(b):
                return k
            k += 1
        return n - 1

    # ---- type injection / projection --------------------------------------
    def resolve_lazy(self, lz, ty):
        if lz.resolved is None:
            if isinstance(ty, TDict) and lz.kind == "dict":
                c = ty.empty()
                os_ = option_sort(ty.v.sort())
                for k, v in lz.items:
                    c = z3.Store(c, self.inject(ty.k, k), os_.some(self.inject(ty.v, v)))
                lz.resolved = self.new_ref(ty, c)
            elif isinstance(ty, TSet) and lz.kind == "set":
                c = ty.empty()
                for k in lz.items:
                    c = z3.Store(c, self.inject(ty.k, k), True)
                lz.resolved = self.new_ref(ty, c)
            else:
                raise Unsupported(f"{lz.kind} literal stored where {ty!r} is expected")
        elif lz.resolved.ty != ty:
            raise Unsupported(f"container literal used at two types {lz.resolved.ty!r} / {ty!r}")
        return lz.resolved

    def inject(self, ty: Ty, v):
        """Runtime value -> z3 expression of ty.sort()."""
        if isinstance(v, LazyContainer):
            t2 = ty.inner if isinstance(ty, TOpt) else ty
            return self.resolve_lazy(v, t2).z
        if isinstance(v, ConcreteSeq) and isinstance(ty.inner if isinstance(ty, TOpt) else ty, TAList):
            t2 = ty.inner if isinstance(ty, TOpt) else ty
            c = t2.empty()
            arr, n = t2.elems(c), 0
            for x in v.items:
                arr = z3.Store(arr, n, self.inject(t2.v, x))
                n += 1
            return self.new_ref(t2, t2.mk(z3.IntVal(n), arr)).z
        if isinstance(v, ConcreteSeq) and isinstance(ty.inner if isinstance(ty, TOpt) else ty, TList):
            t2 = ty.inner if isinstance(ty, TOpt) else ty
            zs = [z3.Unit(self.inject(t2.v, x)) for x in v.items]
            c = t2.empty() if not zs else (zs[0] if len(zs) == 1 else z3.Concat(*zs))
            return self.new_ref(t2, c).z
        if isinstance(ty, TOpt):
            if isinstance(v, SV) and isinstance(v.ty, TOpt) and v.ty.sort() == ty.sort():
                return v.z
            if ty.inner.is_ref:
                if v is None:
                    return z3.IntVal(0)
                return self.inject(ty.inner, v)
            os_ = option_sort(ty.inner.sort())
            if v is None:
                return os_.none
            return os_.some(self.inject(ty.inner, v))
        if v is None:
            raise PyExc("TypeError", ("None where %r expected" % (ty,),))
        if isinstance(v, SV) and isinstance(v.ty, TOpt) and not isinstance(ty, TOpt):
            # an optional value used where a value is required
            if self.ghost.get("__pure__", 0) > 0:
                binders = self.ghost.get("__binders__", [])
                guard = z3.And(*[g for _, g in binders]) if binders else z3.BoolVal(True)
                xs = [x for x, _ in binders]
                if v.ty.inner.is_ref:
                    notnone, inner = v.z != 0, v.z
                else:
                    os_ = option_sort(v.ty.inner.sort())
                    notnone, inner = z3.Not(os_.is_none(v.z)), os_.get(v.z)
                f = z3.Implies(guard, notnone)
                self.oblige("optional-not-none-under-binder", z3.ForAll(xs, f) if xs else f, "", "typing")
                return self.inject(ty, SV(v.ty.inner, inner))
            pv = self.project(v.ty, v.z)
            return self.inject(ty, pv)
        if ty is INT or isinstance(ty, _TInt):
            if isinstance(v, bool):
                return z3.IntVal(int(v))
            if isinstance(v, int):
                return z3.IntVal(v)
            if isinstance(v, SV) and isinstance(v.ty, _TBool):
                return z3.If(v.z, 1, 0)
            if isinstance(v, SV) and isinstance(v.ty, _TInt):
                return v.z
        elif isinstance(ty, _TBool):
            if isinstance(v, bool):
                return z3.BoolVal(v)
            if isinstance(v, SV) and isinstance(v.ty, _TBool):
                return v.z
        elif isinstance(ty, _TStr):
            if isinstance(v, str):
                return z3.StringVal(v)
            if isinstance(v, SV) and isinstance(v.ty, _TStr):
                return v.z
        elif isinstance(ty, TTuple):
            if isinstance(v, tuple) and len(v) == len(ty.items):
                return ty.mk(*[self.inject(t, x) for t, x in zip(ty.items, v)])
            if isinstance(v, SV) and v.ty == ty:
                return v.z
        elif isinstance(v, SV):
            if v.ty == ty:
                return v.z
            if isinstance(ty, TUn) and isinstance(v.ty, TUn) and ty.sort() == v.ty.sort():
                return v.z
            if ty.is_ref and v.ty.is_ref and isinstance(ty, TObj) and isinstance(v.ty, TObj):
                return v.z
        raise Unsupported(f"cannot inject {v!r} into {ty!r}")

    def project(self, ty: Ty, z):
        """z3 expression -> runtime value (forks on optionals; tuples become python tuples)."""
        if isinstance(ty, TOpt):
            if ty.inner.is_ref:
                if self.choose(z == 0):
                    return None
                return self.project(ty.inner, z)
            os_ = option_sort(ty.inner.sort())
            if self.choose(os_.is_none(z)):
                return None
            return self.project(ty.inner, z3.simplify(os_.get(z)))
        if isinstance(ty, TTuple):
            return tuple(self.project(t, z3.simplify(ty.proj(i, z))) for i, t in enumerate(ty.items))
        if isinstance(ty, (_TInt,)):
            z = z3.simplify(z)
            if z3.is_int_value(z):
                return z.as_long()
        if isinstance(ty, _TBool):
            z = z3.simplify(z)
            if z3.is_true(z):
                return True
            if z3.is_false(z):
                return False
        if isinstance(ty, _TStr):
            z = z3.simplify(z)
            if z3.is_string_value(z):
                return z.as_string()
        return SV(ty, z)

    # ---- heap ---------------------------------------------------------------
    def heap_arr(self, ty: TRefBase):
        k = ty.key()
        if k not in self.heap:
            self.heap[k] = z3.Array("H0_" + "".join(c if c.isalnum() else "_" for c in k),
                                    z3.IntSort(), ty.content_sort())
            self.heap_ty[k] = ty
        return self.heap[k]

    def content(self, ref: SV):
        return z3.Select(self.heap_arr(ref.ty), ref.z)

    def set_content(self, ref: SV, c):
        self.heap[ref.ty.key()] = z3.Store(self.heap_arr(ref.ty), ref.z, c)

    def new_ref(self, ty: TRefBase, content=None) -> SV:
        r = self.alloc
        self.alloc = z3.simplify(self.alloc + 1)
        ref = SV(ty, z3.simplify(r))
        if not isinstance(ty, TObj):
            self.set_content(ref, content if content is not None else ty.empty())
        self.local_refs.append(ref)
        return ref

    def note_escape(self, v):
        """A reference stored into the heap may be reached by other code from then on."""
        if isinstance(v, SV) and v.ty.is_ref:
            self.escaped.add(v.z.get_id())
        elif isinstance(v, tuple):
            for x in v:
                self.note_escape(x)
        elif isinstance(v, LazyContainer) and v.resolved is not None:
            self.note_escape(v.resolved)

    def unescaped_locals(self):
        return [r for r in self.local_refs if r.z.get_id() not in self.escaped and not isinstance(r.ty, TObj)]

    def field_arr(self, cls, fname):
        owner, fty = field_type(cls, fname)
        if owner is None:
            raise PyExc("AttributeError", (f"{cls}.{fname}",))
        key = (owner, fname)
        if key not in self.fields:
            self.fields[key] = z3.Array(f"F0_{owner}_{fname}", z3.IntSort(), fty.sort())
            self.field_ty[key] = fty
        return key, fty, self.fields[key]

    def get_field(self, obj: SV, fname):
        key, fty, arr = self.field_arr(obj.ty.cls, fname)
        return self.project(fty, z3.Select(arr, obj.z))

    def get_field_z(self, obj_z, cls, fname):
        key, fty, arr = self.field_arr(cls, fname)
        return z3.Select(arr, obj_z)

    def set_field(self, obj: SV, fname, v):
        key, fty, arr = self.field_arr(obj.ty.cls, fname)
        self.fields[key] = z3.Store(arr, obj.z, self.inject(fty, v))

    def snapshot_state(self):
        """Immutable copy of heap/fields/ghost (z3 terms are immutable)."""
        return StateView(dict(self.heap), dict(self.heap_ty), dict(self.fields), dict(self.field_ty),
                         dict(self.ghost), self.alloc)

    def havoc_heap_type(self, ty: TRefBase, tag="hv"):
        k = ty.key()
        self.heap_arr(ty)
        self.heap[k] = z3.Array(self.fresh_name("H_" + tag), z3.IntSort(), ty.content_sort())

    def havoc_field(self, cls, fname, tag="hv"):
        key, fty, arr = self.field_arr(cls, fname)
        self.fields[key] = z3.Array(self.fresh_name(f"F_{tag}_{fname}"), z3.IntSort(), fty.sort())


class StateView:
    """Read-only view of a heap state, used by specifications (old/new states)."""

    def __init__(self, heap, heap_ty, fields, field_ty, ghost, alloc):
        self.heap, self.heap_ty, self.fields, self.field_ty, self.ghost, self.alloc = \
            heap, heap_ty, fields, field_ty, ghost, alloc

    def content(self, ty: TRefBase, ref_z):
        k = ty.key()
        if k not in self.heap:
            # not yet touched on this path: the initial array
            self.heap[k] = z3.Array("H0_" + "".join(c if c.isalnum() else "_" for c in k),
                                    z3.IntSort(), ty.content_sort())
        return z3.Select(self.heap[k], ref_z)

    def field(self, cls, fname, obj_z):
        owner, fty = field_type(cls, fname)
        key = (owner, fname)
        if key not in self.fields:
            self.fields[key] = z3.Array(f"F0_{owner}_{fname}", z3.IntSort(), fty.sort())
        return z3.Select(self.fields[key], obj_z)


# --------------------------------------------------------------------------
# Explorer: enumerate all paths by re-execution with a decision prefix
# --------------------------------------------------------------------------


class PathResult:
    def __init__(self, path: Path, outcome, value=None, exc=None):
        self.path, self.outcome, self.value, self.exc = path, outcome, value, exc


def explore(run_one, axioms=(), max_paths=4000, deadline=None, forced=()):
    """run_one(path) executes one path and returns (outcome, value).

    Returns list[PathResult].  outcome in {'return','raise','end','unsupported'}"""
    results = []
    work = [[]]
    n = 0
    while work:
        prefix = work.pop()
        n += 1
        if n > max_paths:
            raise Unsupported(f"more than {max_paths} paths")
        if deadline and time.time() > deadline:
            raise Unsupported("path exploration deadline")
        p = Path(prefix, axioms, forced=forced)
        res = None
        _t0 = time.time()
        try:
            out = run_one(p)
            res = PathResult(p, out[0], out[1])
        except Infeasible:
            pass
        except PathEnd as e:
            res = PathResult(p, "end", e.why)
        except PyExc as e:
            res = PathResult(p, "raise", None, e)
        if os.environ.get("PYVC_TRACE"):
            print(f"[path {len(results)} work={len(work)}] decisions={len(p.taken)} "
                  f"outcome={res.outcome if res else 'infeasible'} {getattr(res, 'value', '')!s:.60} "
                  f"{time.time() - _t0:.1f}s", flush=True)
        if res is not None:
            # a path shorter than the forced prefix belongs to the all-True completion only
            nt = len(p.taken)
            if nt >= len(forced) or all(forced[nt:]):
                results.append(res)
        work.extend(p.alternatives)
    return results
