"""C08 (DISTINCT and projection): evalDistinct returns each solution of its operand exactly once; evalProject returns
the projections of the operand's solutions and nothing else.

Solutions are values (FrozenBindings compare and hash by content); evalPart(ctx, p) is the operand's solution
collection sols(ctx, p) (an external function here: C04).  project(row, PV) is an uninterpreted function (its
definition - keep exactly the named variables - is FrozenBindings.project, bounded in the modifiers suite).
ORDER BY, LIMIT/OFFSET and REDUCED are sequence-level and stay bounded.
"""
from __future__ import annotations

import z3

from pyvc.core import INT, SV, TObj, TSet, Snapshot, declare_class
from pyvc.interp import LoopSpec, Builtin, BoundMethod
from pyvc.model import Contract, GenSpec, Model, Param

REL = "rdflib/plugins/sparql/evaluate.py"
CTX, CV = TObj("QueryContext"), TObj("CompValue")
SOLS = z3.Function("solutions_of_operand", z3.IntSort(), z3.IntSort(), z3.ArraySort(z3.IntSort(), z3.BoolSort()))
proj = z3.Function("row_project", z3.IntSort(), z3.IntSort(), z3.IntSort())
DONE = TSet(INT)


class ModifierModel(Model):
    name = "c08_modifiers"

    def __init__(self):
        super().__init__()
        declare_class("QueryContext", fields={})
        declare_class("CompValue", fields={"p": INT, "PV": INT})
        g = self.globals
        g["evalPart"] = Builtin("evalPart", self.b_evalpart)
        g["set"] = Builtin("set", lambda it, a, k: it.path.new_ref(DONE))
        self.assumptions += ["evalPart(ctx, p) returns the operand's solutions (C04); solutions compare by content; "
                             "row.project(PV) is a function of the row and the variable list"]
        self.declare()

    def setup_path(self, path, interp, contract, selfv, args):
        super().setup_path(path, interp, contract, selfv, args)
        path.ghost["yielded"] = z3.K(z3.IntSort(), z3.BoolVal(False))

    def havoc_ghost(self, it, name):
        return z3.Const(it.path.fresh_name("yielded"), z3.ArraySort(z3.IntSort(), z3.BoolSort()))

    def b_evalpart(self, it, a, k):
        arr = SOLS(a[0].z, it.path.inject(INT, a[1]))
        return Snapshot(INT, lambda z: arr[z], False)

    def getattr(self, it, obj, name, node):
        if isinstance(obj, SV) and obj.ty.sort() == z3.IntSort() and name == "project":
            return BoundMethod(obj, name, lambda it2, o, a, k: SV(INT, proj(o.z, it2.path.inject(INT, a[0]))))
        return NotImplemented

    def pure_call(self, it, pe, e, env):
        import ast
        if isinstance(e.func, ast.Attribute) and e.func.attr == "project":
            o = pe.ev(e.func.value, env)
            a = pe.ev(e.args[0], env)
            return SV(INT, proj(o.z, it.path.inject(INT, a)))
        return super().pure_call(it, pe, e, env)

    def declare(self):
        def operand(c, name):
            return SOLS(c.args["ctx"].z, c.old.field("CompValue", "p", c.args[name].z))

        def d_member(c, z):
            return operand(c, "part")[z]

        # the set of yielded solutions is ghost state: it is extended at every yield (GenSpec.extra) and related to the
        # processed elements by the loop invariant; the built-in per-shape completeness VC does not apply to a loop whose
        # yield depends on carried state
        def d_extra(c, v):
            p = c.path
            before = p.ghost["yielded"]
            p.ghost["yielded"] = z3.Store(before, v.z, True)
            return [("never-yielded-before", z3.Not(before[v.z]))]

        def d_inv(lc):
            x = z3.Int("dx")
            sets = [v for v in lc.env.values() if isinstance(v, SV) and v.ty == DONE]
            y = lc.path.ghost["yielded"]
            base = z3.ForAll([x], y[x] == lc.done[x])
            if not sets:
                return base
            done = lc.path.content(sets[0])
            return z3.And(base, z3.ForAll([x], done[x] == lc.done[x]))

        def d_post(c):
            x = z3.Int("dpx")
            return [("every-solution-of-the-operand-was-yielded", z3.ForAll([x], c.path.ghost["yielded"][x] == operand(c, "part")[x]))]
        self.add(Contract("C08", REL, "evalDistinct", [Param("ctx", CTX), Param("part", CV)],
                          pre=lambda c: z3.And(c.args["ctx"].z > 0, c.args["part"].z > 0),
                          gen=GenSpec(INT, d_member, distinct=False, complete=False, extra=d_extra), post=d_post,
                          modifies=[DONE], allocates=True,
                          loops={0: LoopSpec(d_inv, modifies=[DONE, "yielded"], var_types={"x": INT})},
                          note="DISTINCT: every solution of the operand (completeness at loop exit), each exactly once "
                               "(never yielded before), nothing else (soundness per yield)"))

        def p_member(c, z):
            r = z3.Int("pr")
            pv = c.old.field("CompValue", "PV", c.args["project"].z)
            return z3.Exists([r], z3.And(operand(c, "project")[r], z == proj(r, pv)))
        self.add(Contract("C08", REL, "evalProject", [Param("ctx", CTX), Param("project", CV)],
                          pre=lambda c: z3.And(c.args["ctx"].z > 0, c.args["project"].z > 0),
                          gen=GenSpec(INT, p_member, distinct=False, complete=True), modifies=[],
                          note="projection: exactly the rows row.project(PV) for the operand's solutions"))


def build():
    return ModifierModel()
