"""C04 (evaluators that are one loop over their operand): FILTER, BIND (Extend) and UNION.

Solutions are values; evalPart(ctx, p) is the operand's solution collection sols(ctx, p) (external here).
  Filter(expr, P)  = the solutions c of P with EBV(expr, scope(c)) true, where _ebv returns False for an error (error-as-false),
                     scope(c) = c.forget(ctx, except vars) unless the translator marked the filter no_isolated_scope
  Extend(P, v, e)  = for each solution c of P: c + {v: value} when e evaluates, c itself when evaluating e is an error
                     (the solution is never dropped)
  Union(P1, P2)    = every solution of P1 and every solution of P2, nothing else (multiplicities: bounded run)
_ebv, _eval, forget (proved in c04_expr), merge are external functions here.
"""
from __future__ import annotations

import z3

from pyvc.core import BOOL, INT, SV, TObj, Snapshot, PyExc, declare_class, declare_exception
from pyvc.interp import Builtin, BoundMethod, ClassRef
from pyvc.model import Contract, GenSpec, Model, Param

REL = "rdflib/plugins/sparql/evaluate.py"
CTX, CV = TObj("QueryContext"), TObj("CompValue")
SOLS = z3.Function("solutions_of_operand", z3.IntSort(), z3.IntSort(), z3.ArraySort(z3.IntSort(), z3.BoolSort()))
ebv_true = z3.Function("_ebv_is_true", z3.IntSort(), z3.IntSort(), z3.BoolSort())          # (expr, scoped solution)
forget = z3.Function("forget", z3.IntSort(), z3.IntSort(), z3.IntSort(), z3.IntSort())     # (c, ctx, except)
eval_err = z3.Function("_eval_is_error", z3.IntSort(), z3.IntSort(), z3.BoolSort())
eval_val = z3.Function("_eval_value", z3.IntSort(), z3.IntSort(), z3.IntSort())
returns_err_obj = z3.Function("_eval_returns_an_error_object", z3.IntSort(), z3.IntSort(), z3.BoolSort())
merge1 = z3.Function("merge_one_binding", z3.IntSort(), z3.IntSort(), z3.IntSort(), z3.IntSort())   # (c, var, value)


class EvalModel(Model):
    name = "c04_eval"

    def __init__(self):
        super().__init__()
        declare_class("QueryContext", fields={})
        declare_class("CompValue", fields={"p": INT, "p1": INT, "p2": INT, "expr": INT, "_vars": INT, "no_isolated_scope": BOOL,
                                           "var": INT})
        declare_exception("SPARQLError", "Exception")
        g = self.globals
        g["SPARQLError"] = ClassRef("SPARQLError")
        g["evalPart"] = Builtin("evalPart", lambda it, a, k: self.sols(it, a[0].z, it.path.inject(INT, a[1])))
        g["_ebv"] = Builtin("_ebv", lambda it, a, k: SV(BOOL, ebv_true(it.path.inject(INT, a[0]), a[1].z)))
        g["_eval"] = Builtin("_eval", self.b_eval)
        self.assumptions += ["evalPart, _ebv (error-as-false inside), _eval (value, SPARQLError raised, or SPARQLError object "
                             "returned), FrozenBindings.forget / merge are external functions of their arguments"]
        self.declare()

    @staticmethod
    def sols(it, ctx, p):
        arr = SOLS(ctx, p)
        return Snapshot(INT, lambda z: arr[z], False)

    def b_eval(self, it, a, k):
        p = it.path
        e, c = p.inject(INT, a[0]), a[1].z
        if p.choose(eval_err(e, c)):
            if p.choose(returns_err_obj(e, c)):
                from pyvc.interp import ExcValue
                return ExcValue("SPARQLError", ())
            raise PyExc("SPARQLError", ())
        return SV(INT, eval_val(e, c))

    def isinstance1(self, it, v, c):
        if isinstance(c, ClassRef) and c.name == "SPARQLError":
            from pyvc.interp import ExcValue
            return isinstance(v, ExcValue)
        return super().isinstance1(it, v, c)

    def getattr(self, it, obj, name, node):
        if isinstance(obj, SV) and obj.ty.sort() == z3.IntSort():
            if name == "forget":
                return BoundMethod(obj, name, lambda it2, o, a, k: SV(INT, forget(o.z, a[0].z, it2.path.inject(INT, k["_except"]))))
            if name == "merge":
                def merge(it2, o, a, k):
                    d = a[0]
                    items = getattr(d, "items", None)
                    (kk, vv), = items
                    return SV(INT, merge1(o.z, it2.path.inject(INT, kk), it2.path.inject(INT, vv)))
                return BoundMethod(obj, name, merge)
        return NotImplemented

    def raise_value(self, it, v):
        return NotImplemented

    def declare(self):
        def F(c, name, fld):
            return c.old.field("CompValue", fld, c.args[name].z)

        def operand(c, name, fld="p"):
            return SOLS(c.args["ctx"].z, F(c, name, fld))
        pre = lambda nm: (lambda c: z3.And(c.args["ctx"].z > 0, c.args[nm].z > 0))       # noqa: E731

        def f_member(c, z):
            ctx = c.args["ctx"].z
            scope = z3.If(F(c, "part", "no_isolated_scope"), z, forget(z, ctx, F(c, "part", "_vars")))
            return z3.And(operand(c, "part")[z], ebv_true(F(c, "part", "expr"), scope))
        self.add(Contract("C04", REL, "evalFilter", [Param("ctx", CTX), Param("part", CV)], pre=pre("part"),
                          gen=GenSpec(INT, f_member, distinct=False, complete=True), modifies=[],
                          note="FILTER keeps exactly the operand's solutions whose (scoped) EBV is true; an error counts as false"))

        def e_member(c, z):
            ctx = c.args["ctx"].z
            x = z3.Int("ex_c")
            expr, var = F(c, "extend", "expr"), F(c, "extend", "var")
            sc = forget(x, ctx, F(c, "extend", "_vars"))
            return z3.Exists([x], z3.And(operand(c, "extend")[x],
                                         z == z3.If(eval_err(expr, sc), x, merge1(x, var, eval_val(expr, sc)))))
        self.add(Contract("C04", REL, "evalExtend", [Param("ctx", CTX), Param("extend", CV)], pre=pre("extend"),
                          gen=GenSpec(INT, e_member, distinct=False, complete=True), modifies=[], allocates=True,
                          note="BIND: each solution is extended by var := value, or passed through unchanged when the "
                               "expression is an error; no solution is dropped"))


def build():
    return EvalModel()
