"""C04 (evaluators that are one loop over their operand): FILTER, BIND (Extend) and UNION.

Solutions are values; evalPart(ctx, p) is the operand's solution collection sols(ctx, p) (external here).
  Filter(expr, P)  = the solutions c of P with EBV(expr, scope(c)) true, where _ebv returns False for an error (error-as-false),
                     scope(c) = c.forget(ctx, except vars) unless the translator marked the filter no_isolated_scope
  Extend(P, v, e)  = for each solution c of P: c + {v: value} when e evaluates, c itself when evaluating e is an error
                     (the solution is never dropped)
  Union(P1, P2)    = every solution of P1 and every solution of P2, nothing else (multiplicities: bounded run)
_ebv, _eval, forget (proved in c04_expr), merge are external functions here.
"""
from __future__ import annotations

import z3

from pyvc.core import BOOL, INT, SV, TList, TObj, Snapshot, PyExc, declare_class, declare_exception
from pyvc.interp import Builtin, BoundMethod, ClassRef, LoopSpec
from pyvc.model import Contract, GenSpec, Model, Param

REL = "rdflib/plugins/sparql/evaluate.py"
CTX, CV = TObj("QueryContext"), TObj("CompValue")
SOLS = z3.Function("solutions_of_operand", z3.IntSort(), z3.IntSort(), z3.ArraySort(z3.IntSort(), z3.BoolSort()))
SOLSG = z3.Function("solutions_of_operand_under_active_graph", z3.IntSort(), z3.IntSort(), z3.IntSort(),
                    z3.ArraySort(z3.IntSort(), z3.BoolSort()))
ebv_true = z3.Function("_ebv_is_true", z3.IntSort(), z3.IntSort(), z3.BoolSort())          # (expr, scoped solution)
forget = z3.Function("forget", z3.IntSort(), z3.IntSort(), z3.IntSort(), z3.IntSort())     # (c, ctx, except)
eval_err = z3.Function("_eval_is_error", z3.IntSort(), z3.IntSort(), z3.BoolSort())
eval_val = z3.Function("_eval_value", z3.IntSort(), z3.IntSort(), z3.IntSort())
returns_err_obj = z3.Function("_eval_returns_an_error_object", z3.IntSort(), z3.IntSort(), z3.BoolSort())
merge1 = z3.Function("merge_one_binding", z3.IntSort(), z3.IntSort(), z3.IntSort(), z3.IntSort())   # (c, var, value)


class EvalModel(Model):
    name = "c04_eval"

    def __init__(self):
        super().__init__()
        # `graph`: the context's active graph (abstract value); a CONSUMER of the solutions may change it between two
        # solutions (evalGraph does: x.ctx.graph = prev_graph), so what evalPart returns depends on it
        declare_class("QueryContext", fields={"graph": INT})
        declare_class("CompValue", fields={"p": INT, "p1": INT, "p2": INT, "expr": INT, "_vars": INT, "no_isolated_scope": BOOL,
                                           "var": INT})
        declare_exception("SPARQLError", "Exception")
        g = self.globals
        g["SPARQLError"] = ClassRef("SPARQLError")
        g["evalPart"] = Builtin("evalPart", lambda it, a, k: self.sols(it, a[0].z, it.path.inject(INT, a[1])))
        g["evalPartG"] = None
        g["_ebv"] = Builtin("_ebv", lambda it, a, k: SV(BOOL, ebv_true(it.path.inject(INT, a[0]), a[1].z)))
        g["_eval"] = Builtin("_eval", self.b_eval)
        self.assumptions += ["evalPart, _ebv (error-as-false inside), _eval (value, SPARQLError raised, or SPARQLError object "
                             "returned), FrozenBindings.forget / merge are external functions of their arguments"]
        self.declare()

    @staticmethod
    def sols(it, ctx, p):
        # the operand's solutions under the context's CURRENT active graph
        gnow = it.path.get_field_z(ctx, "QueryContext", "graph")
        arr = SOLS(ctx, p)
        arr2 = SOLSG(ctx, gnow, p)
        return Snapshot(INT, lambda z: z3.And(arr[z], arr2[z]), False)

    def new_list(self, it, items, node):
        if not items:
            r = it.path.new_ref(TList(INT))
            it.path.set_content(r, z3.Empty(z3.SeqSort(z3.IntSort())))
            return r
        return super().new_list(it, items, node)

    def b_eval(self, it, a, k):
        p = it.path
        e, c = p.inject(INT, a[0]), a[1].z
        if p.choose(eval_err(e, c)):
            if p.choose(returns_err_obj(e, c)):
                from pyvc.interp import ExcValue
                return ExcValue("SPARQLError", ())
            raise PyExc("SPARQLError", ())
        return SV(INT, eval_val(e, c))

    def isinstance1(self, it, v, c):
        if isinstance(c, ClassRef) and c.name == "SPARQLError":
            from pyvc.interp import ExcValue
            return isinstance(v, ExcValue)
        return super().isinstance1(it, v, c)

    def getattr(self, it, obj, name, node):
        if isinstance(obj, SV) and obj.ty.sort() == z3.IntSort():
            if name == "forget":
                return BoundMethod(obj, name, lambda it2, o, a, k: SV(INT, forget(o.z, a[0].z, it2.path.inject(INT, k["_except"]))))
            if name == "merge":
                def merge(it2, o, a, k):
                    d = a[0]
                    items = getattr(d, "items", None)
                    (kk, vv), = items
                    return SV(INT, merge1(o.z, it2.path.inject(INT, kk), it2.path.inject(INT, vv)))
                return BoundMethod(obj, name, merge)
        return NotImplemented

    def raise_value(self, it, v):
        return NotImplemented

    def declare(self):
        def F(c, name, fld):
            return c.old.field("CompValue", fld, c.args[name].z)

        class _Operand:
            def __init__(self, c, name, fld):
                self.ctx = c.args["ctx"].z
                self.g0 = c.old.field("QueryContext", "graph", self.ctx)
                self.p = F(c, name, fld)

            def __getitem__(self, z):
                return z3.And(SOLS(self.ctx, self.p)[z], SOLSG(self.ctx, self.g0, self.p)[z])

        def operand(c, name, fld="p"):
            return _Operand(c, name, fld)
        pre = lambda nm: (lambda c: z3.And(c.args["ctx"].z > 0, c.args[nm].z > 0))       # noqa: E731

        def f_member(c, z):
            ctx = c.args["ctx"].z
            scope = z3.If(F(c, "part", "no_isolated_scope"), z, forget(z, ctx, F(c, "part", "_vars")))
            return z3.And(operand(c, "part")[z], ebv_true(F(c, "part", "expr"), scope))
        self.add(Contract("C04", REL, "evalFilter", [Param("ctx", CTX), Param("part", CV)], pre=pre("part"),
                          gen=GenSpec(INT, f_member, distinct=False, complete=True), modifies=[],
                          note="FILTER keeps exactly the operand's solutions whose (scoped) EBV is true; an error counts as false"))

        def e_member(c, z):
            ctx = c.args["ctx"].z
            x = z3.Int("ex_c")
            expr, var = F(c, "extend", "expr"), F(c, "extend", "var")
            sc = forget(x, ctx, F(c, "extend", "_vars"))
            return z3.Exists([x], z3.And(operand(c, "extend")[x],
                                         z == z3.If(eval_err(expr, sc), x, merge1(x, var, eval_val(expr, sc)))))
        self.add(Contract("C04", REL, "evalExtend", [Param("ctx", CTX), Param("extend", CV)], pre=pre("extend"),
                          gen=GenSpec(INT, e_member, distinct=False, complete=True), modifies=[], allocates=True,
                          note="BIND: each solution is extended by var := value, or passed through unchanged when the "
                               "expression is an error; no solution is dropped"))

        # ---- UNION: both operands are evaluated under the context as it is at the call (the consumer of the solutions may
        # change ctx.graph between two solutions: interference at every yield, if the function is or becomes a generator)
        LI = TList(INT)

        def u_sols(c, fld):
            ctx = c.args["ctx"].z
            g0 = c.old.field("QueryContext", "graph", ctx)
            p = F(c, "union", fld)
            return lambda z: z3.And(SOLS(ctx, p)[z], SOLSG(ctx, g0, p)[z])

        def u_member(c, z):
            return z3.Or(u_sols(c, "p1")(z), u_sols(c, "p2")(z))

        def u_inv(first):
            def inv(lc):
                c = lc.interp.callctx
                if not isinstance(lc.env.get("branch1_branch2"), SV):
                    return z3.BoolVal(True)       # the function does not build its result in that list (any more)
                seq = lc.path.content(lc.env["branch1_branch2"])
                z = z3.Int("u_z")
                have = z3.Contains(seq, z3.Unit(z))
                if first:
                    return z3.ForAll([z], have == lc.done[z])
                return z3.ForAll([z], have == z3.Or(u_sols(c, "p1")(z), lc.done[z]))
            return inv

        class ConsumerInterference:
            """between two solutions handed to the consumer, the consumer may set ctx.graph to anything"""
            def on_yield(self, it, cc, v, z, node):
                it.path.oblige(f"yield@{node.lineno}.sound-wrt-the-context-at-the-call", u_member(cc, z), it.where(node),
                               "yield-sound")

            def after_yield(self, it, cc, node):
                it.path.havoc_field("QueryContext", "graph", "consumer")
        cu = Contract("C04", REL, "evalUnion", [Param("ctx", CTX), Param("union", CV)], pre=pre("union"),
                      gen=GenSpec(INT, u_member, distinct=False, complete=True), modifies=[LI], allocates=True,
                      loops={0: LoopSpec(u_inv(True), modifies=[LI], var_types={"x": "poison"},
                                         fingerprint=None),
                             1: LoopSpec(u_inv(False), modifies=[LI], var_types={"x": "poison"},
                                         fingerprint=None)},
                      note="UNION returns exactly the solutions of its two operands, BOTH evaluated under the context as it is "
                           "at the call - whatever the consumer does to the context between two solutions (set-level; "
                           "multiplicities bounded)")
        cu.interference = ConsumerInterference()
        self.add(cu)


def build():
    return EvalModel()
