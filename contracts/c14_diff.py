"""C14 (graph_diff laws): graph_diff(g1, g2) partitions the two canonical graphs.

graph_diff computes cg1 = to_canonical_graph(g1), cg2 = to_canonical_graph(g2) and returns (cg1 * cg2, cg1 - cg2,
cg2 - cg1).  With the proved contracts of Graph.__mul__ / __sub__ (C01: intersection and difference of the triple
sets, results on fresh stores) the partition laws follow for whatever the canonical graphs are:
   both | first = C1,  both | second = C2,  first & second = {},  both = C1 & C2
to_canonical_graph itself (C1 isomorphic to g1, equal for isomorphic inputs) is the search-based canonicalisation -
not under contract (bounded stand-in only).
"""
from __future__ import annotations

import z3

from pyvc.core import SV, TObj, TTuple
from pyvc.interp import Builtin
from pyvc.model import Contract, Param
from contracts.graphmodel import GRAPH, STORE, STORE_G, STORE_K, G_of, TripleSort, DYN_GRAPH
from contracts import c01_graph

REL = "rdflib/compare.py"
canon = z3.Function("canonical_graph_has", z3.IntSort(), TripleSort, z3.BoolSort())     # (input graph object, triple)


def build():
    M = c01_graph.build()
    M.name = "c14_diff"

    def view_of(st, gz, t):
        return G_of(st, st.field("Graph", "_Graph__store", gz))[t][st.field("Graph", "_Graph__identifier", gz)]

    def b_canonical(it, a, k):
        """to_canonical_graph(g): a new plain Graph on a new store whose triples are canon(g, .) - trusted"""
        p = it.path
        g = M.construct_graph(it, "Graph", [], {})
        s = p.get_field(g, "_Graph__store")
        n = p.get_field_z(g.z, "Graph", "_Graph__identifier")
        t = z3.Const("cg_t", TripleSort)
        m = z3.Const("cg_n", n.sort())
        Gs = z3.Const(p.fresh_name("canonG"), STORE_G.content_sort())
        p.assume(z3.ForAll([t, m], Gs[t][m] == z3.And(m == n, canon(a[0].z, t))))
        p.set_content(SV(STORE_G, s.z), Gs)
        return g
    M.globals["to_canonical_graph"] = Builtin("to_canonical_graph", b_canonical)
    M.assumptions.append("to_canonical_graph(g) returns a new graph on a new store; its content canon(g, .) is unspecified here")

    def pre(c):
        p = c.path
        cs = []
        for nm in ("g1", "g2"):
            g = c.args[nm].z
            s = p.get_field_z(g, "Graph", "_Graph__store")
            cs += [g > 0, g < c.old.alloc, s > 0, s < c.old.alloc, p.get_field_z(g, "Graph", "__dyn__") == DYN_GRAPH]
        return z3.And(*cs)

    def post(c):
        both, first, second = c.result
        st = c.new
        t = z3.Const("d_t", TripleSort)
        c1, c2 = canon(c.args["g1"].z, t), canon(c.args["g2"].z, t)
        vb, vf, vs_ = view_of(st, both.z, t), view_of(st, first.z, t), view_of(st, second.z, t)
        return [("both-is-the-intersection", z3.ForAll([t], vb == z3.And(c1, c2))),
                ("both+first-is-the-first-canonical-graph", z3.ForAll([t], z3.Or(vb, vf) == c1)),
                ("both+second-is-the-second-canonical-graph", z3.ForAll([t], z3.Or(vb, vs_) == c2)),
                ("first-and-second-share-no-triple", z3.ForAll([t], z3.Not(z3.And(vf, vs_)))),
                ("first-and-both-share-no-triple", z3.ForAll([t], z3.Not(z3.And(vf, vb))))]
    M.add(Contract("C14", REL, "graph_diff", [Param("g1", GRAPH), Param("g2", GRAPH)], pre=pre, post=post,
                   modifies=[STORE_G, STORE_K, ("Graph", "_Graph__store"), ("Graph", "_Graph__identifier"),
                             ("Graph", "__dyn__"), ("Graph", "default_union"), ("Graph", "context_aware"),
                             ("Store", "context_aware"), ("Store", "graph_aware")], allocates=True,
                   note="graph_diff = (C1 & C2, C1 - C2, C2 - C1): the three results partition the canonical graphs"))
    # only graph_diff is this module's obligation; the Graph operators are proved in C01
    for key, c in list(M.contracts.items()):
        if c.qualname != "graph_diff":
            c.trusted = True
    return M
