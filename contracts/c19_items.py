"""C19 (traversal used by Collection.__iter__ / __len__): Graph.items terminates on every finite graph and yields only
members of the list.

Same ghost chain as contracts/c03_lists.py: nth(0) = the list head, nth(k+1) = rest(nth(k)), R = first stop index (chain
ended, or a cell seen before; exists in a finite graph - assumed).
   every yielded item is first(nth(k)) for some cell k < R                       (soundness per yield)
   the loop index is bounded by R                                                 (termination, variant R - i)
   ValueError is raised only if the chain revisits a cell (nth(R) is not None)    (cycle detection; no other exception)
   on normal exhaustion the chain ended at None
That EVERY member is yielded, in order, is not stated by this set-based generator contract: the ordered clause of C19
stays with the bounded list-history run.
"""
from __future__ import annotations

import z3

from pyvc.core import BOOL, INT, SV, TObj, TOpt, TSet, declare_class, declare_exception
from pyvc.interp import LoopSpec, Builtin, ClassRef, ExcValue
from pyvc.model import Contract, GenSpec, Param
from contracts.c03_lists import ListModel, NODE, ONODE, R, nth, first_of

SEEN = TSet(ONODE)      # the chain set also receives None at the end of the list

REL = "rdflib/graph.py"


class ItemsModel(ListModel):
    name = "c19_items"
    stop_at_nil = False

    def __init__(self):
        super().__init__()
        g = self.globals
        declare_exception("ValueError", "Exception")
        g["ValueError"] = ClassRef("ValueError", construct=lambda it, a, k: ExcValue("ValueError", tuple(a)))
        g["set"] = Builtin("set", self.b_set)

    def declare(self):
        pass

    def b_set(self, it, a, k):
        p = it.path
        s = p.new_ref(SEEN)
        items = it.concrete_items(a[0]) if a else []
        c = p.content(s)
        for x in items or []:
            e = p.inject(ONODE, x)
            c = z3.Store(c, e, True)
            p.ghost["w"] = z3.Store(p.ghost["w"], e, p.ghost["i"])       # the head is cell 0
        p.set_content(s, c)
        return s

    def after_set_add(self, it, setv, elem):
        """ghost code at `chain.add(list)`: the traversal has moved on to the next cell"""
        p = it.path
        e = p.inject(ONODE, elem)
        p.ghost["w"] = z3.Store(p.ghost["w"], e, p.ghost["i"] + 1)
        p.ghost["i"] = p.ghost["i"] + 1

    def setup_path(self, path, interp, contract, selfv, args):
        from pyvc.model import Model
        Model.setup_path(self, path, interp, contract, selfv, args)
        path.ghost["i"] = z3.IntVal(0)
        path.ghost["w"] = z3.K(z3.IntSort(), z3.IntVal(-1))
        path.assume(nth(0) == args["list"].z)

    def declare_items(self):
        def inv(lc):
            p = lc.path
            i, w = p.ghost["i"], p.ghost["w"]
            l = p.inject(ONODE, lc.env["list"])
            x, j = z3.Ints("it_x it_j")
            sets = [v for v in lc.env.values() if isinstance(v, SV) and v.ty == SEEN]
            base = z3.And(0 <= i, i <= R, l == nth(i), z3.Implies(i == R, nth(i) == 0))
            if not sets:
                return base
            chain = p.content(sets[0])
            return z3.And(base,
                          z3.ForAll([x], z3.Implies(chain[x], z3.And(0 <= w[x], w[x] <= i, nth(w[x]) == x))),
                          z3.ForAll([j], z3.Implies(z3.And(0 <= j, j <= i), chain[nth(j)])))

        def member(c, z):
            k = z3.Int("m_k")
            return z3.And(z != 0, z3.Exists([k], z3.And(0 <= k, k < R, nth(k) != 0, first_of(nth(k)) == z)))
        self.add(Contract("C19", REL, "Graph.items", [Param("list", NODE)], self_ty=TObj("Graph"),
                          pre=lambda c: z3.And(c.self.z > 0, c.args["list"].z > 0),
                          gen=GenSpec(NODE, member, distinct=False, complete=False),
                          post=lambda c: [("exhausted-only-at-the-end-of-the-chain", nth(R) == 0)],
                          raises={"ValueError": lambda c: nth(R) != 0}, modifies=[SEEN], allocates=True,
                          loops={0: LoopSpec(inv, modifies=[SEEN, "i", "w"], var_types={"list": ONODE, "item": "poison"},
                                             variant=lambda lc: R - lc.path.ghost["i"])},
                          note="Graph.items(list): terminates; yields only rdf:first values of cells of the chain; raises "
                               "ValueError only on a cyclic chain"))


def build():
    m = ItemsModel()
    m.declare_items()
    return m
