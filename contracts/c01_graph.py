"""C01 (Graph level): Graph methods against the abstract Store contract.

View of a Graph g:  V(g) = { t | G(store(g))[t][identifier(g)] }.
"""
from __future__ import annotations

import z3

from pyvc.core import (BOOL, INT, SV, TObj, TOpt, TTuple, option_sort, Snapshot, SymIter, ConcreteSeq, PyExc)
from pyvc.interp import LoopSpec, _zb
from pyvc.model import Contract, GenSpec, Param
from contracts.rdfmodel import TERM, TRIPLE, OTERM, TermSort, match_triple, tr_s, tr_p, tr_o
from contracts.graphmodel import (GraphModel, GRAPH, OGRAPH, STORE, STORE_G, STORE_K, PAT, QUAD, G_of, K_of, in_graph,
                                  in_union, TripleSort, DYN_GRAPH, tcard)

REL = "rdflib/graph.py"


def build():
    M = GraphModel()
    M.name = "c01_graph"

    def store_z(c):
        return c.path.get_field_z(c.self.z, "Graph", "_Graph__store")

    def ident_z(c):
        return c.path.get_field_z(c.self.z, "Graph", "_Graph__identifier")

    def in_self(st, c, t):
        s = st.field("Graph", "_Graph__store", c.self.z)
        n = st.field("Graph", "_Graph__identifier", c.self.z)
        return G_of(st, s)[t][n]

    def wf(c):
        """a plain Graph object on a valid store"""
        p = c.path
        s = store_z(c)
        return z3.And(s > 0, s < c.old.alloc, c.self.z > 0, c.self.z < c.old.alloc,
                      p.get_field_z(c.self.z, "Graph", "__dyn__") == DYN_GRAPH)

    def others_unchanged(c):
        """nothing but this graph's triples changes: other graphs of the store, other stores, known names"""
        st0, st1 = c.old, c.new
        s = store_z(c)
        n0 = ident_z(c)
        t = z3.Const("f_t", TripleSort)
        n = z3.Const("f_n", TermSort)
        sr = z3.Const("f_s", z3.IntSort())
        return z3.And(
            z3.ForAll([t, n], z3.Implies(n != n0, G_of(st1, s)[t][n] == G_of(st0, s)[t][n])),
            # the set of known graph names changes at most by gaining this graph's name
            z3.ForAll([n], z3.Implies(n != n0, K_of(st1, s)[n] == K_of(st0, s)[n])),
            z3.Implies(K_of(st0, s)[n0], K_of(st1, s)[n0]),
            z3.ForAll([sr], z3.Implies(sr != s, z3.And(G_of(st1, sr) == G_of(st0, sr), K_of(st1, sr) == K_of(st0, sr)))))

    FRAME = lambda c: [(STORE_G, store_z(c)), (STORE_K, store_z(c))]

    # ---------------------------------------------------------------- add
    def add_post(c):
        t0 = c.path.inject(TRIPLE, c.args["triple"])
        t = z3.Const("q_t", TripleSort)
        return [("view", z3.ForAll([t], in_self(c.new, c, t) == z3.Or(in_self(c.old, c, t), t == t0))),
                ("others-unchanged", others_unchanged(c)),
                ("returns-self", z3.BoolVal(isinstance(c.result, SV)) if c.result is None else c.result.z == c.self.z)]
    M.add(Contract("C01", REL, "Graph.add", [Param("triple", TRIPLE)], ret=GRAPH, self_ty=GRAPH, pre=wf,
                   post=add_post, modifies=FRAME, ret_make=lambda c: c.self,
                   note="V' = V + {t} for every term kind (incl. falsy terms); no other graph changes"))

    # ---------------------------------------------------------------- remove
    def rm_post(c):
        t = z3.Const("q_t", TripleSort)
        return [("view", z3.ForAll([t], in_self(c.new, c, t) == z3.And(
            in_self(c.old, c, t), z3.Not(match_triple(c.args["triple"], t))))),
                ("others-unchanged", others_unchanged(c))]
    M.add(Contract("C01", REL, "Graph.remove", [Param("triple", PAT)], ret=GRAPH, self_ty=GRAPH, pre=wf,
                   post=rm_post, modifies=FRAME, ret_make=lambda c: c.self,
                   note="V' = V minus the triples matching the pattern (None = wildcard)"))

    # ---------------------------------------------------------------- triples (non-path branch)
    def tr_member(c, z):
        return z3.And(match_triple(c.args["triple"], z), in_self(c.old, c, z))
    M.add(Contract("C01", REL, "Graph.triples", [Param("triple", PAT)], self_ty=GRAPH, pre=wf,
                   gen=GenSpec(TRIPLE, tr_member, distinct=True), modifies=[],
                   note="exactly the matching triples of V, each once, all 8 shapes (predicate is a term; the "
                        "property-path branch is covered in C11)"))

    # ---------------------------------------------------------------- __len__, __iter__, __contains__
    def len_post(c):
        t = z3.Const("len_t", TripleSort)
        n = c.path.inject(INT, c.result)
        return n == tcard(z3.Lambda([t], in_self(c.old, c, t)))
    M.add(Contract("C01", REL, "Graph.__len__", [], ret=INT, self_ty=GRAPH, pre=wf, post=len_post, modifies=[],
                   note="len = card(V)"))

    M.add(Contract("C01", REL, "Graph.__iter__", [], self_ty=GRAPH, pre=wf,
                   gen=GenSpec(TRIPLE, lambda c, z: in_self(c.old, c, z), distinct=True), modifies=[],
                   note="iteration yields V, each triple once"))

    def cont_post(c):
        t = z3.Const("c_t", TripleSort)
        r = c.path.inject(BOOL, c.result)
        return r == z3.Exists([t], z3.And(match_triple(c.args["triple"], t), in_self(c.old, c, t)))
    M.add(Contract("C01", REL, "Graph.__contains__", [Param("triple", PAT)], ret=BOOL, self_ty=GRAPH, pre=wf,
                   post=cont_post, modifies=[],
                   note="pattern in graph  <=>  some triple of V matches (membership for a fully bound triple)"))

    # ---------------------------------------------------------------- set
    def set_post(c):
        s0, p0, o0 = c.args["triple"]
        t0 = c.path.inject(TRIPLE, c.args["triple"])
        t = z3.Const("q_t", TripleSort)
        return [("view", z3.ForAll([t], in_self(c.new, c, t) == z3.Or(
            z3.And(in_self(c.old, c, t), z3.Not(z3.And(tr_s(t) == s0.z, tr_p(t) == p0.z))), t == t0))),
                ("others-unchanged", others_unchanged(c))]
    M.add(Contract("C01", REL, "Graph.set", [Param("triple", TRIPLE)], ret=GRAPH, self_ty=GRAPH, pre=wf,
                   post=set_post, modifies=FRAME, ret_make=lambda c: c.self,
                   note="V' = (V minus (s,p,*)) + {(s,p,o)} - also when o is falsy"))

    # ---------------------------------------------------------------- Store.addN (real code in store.py)
    def quads_param(path, interp):
        """an arbitrary finite iterable of quads (s, p, o, graph-object)"""
        arr = z3.Array("arg_quads", QUAD.sort(), z3.BoolSort())
        return SymIter(QUAD, lambda z: arr[z], False, label="quads")

    def addn_inv(lc):
        c = lc.interp.callctx
        st, s = lc.st, c.self.z
        G0, G1 = G_of(c.old, s), G_of(st, s)
        t = z3.Const("inv_t", TripleSort)
        n = z3.Const("inv_n", TermSort)
        q = z3.Const("inv_q", QUAD.sort())
        added = z3.Exists([q], z3.And(lc.done[q], QUAD.mk(tr_s(t), tr_p(t), tr_o(t), QUAD.proj(3, q)) == q,
                                      st.field("Graph", "_Graph__identifier", QUAD.proj(3, q)) == n))
        sr = z3.Const("inv_s", z3.IntSort())
        kn = z3.Exists([q], z3.And(lc.done[q], st.field("Graph", "_Graph__identifier", QUAD.proj(3, q)) == n))
        return z3.And(z3.ForAll([t, n], G1[t][n] == z3.Or(G0[t][n], added)),
                      z3.ForAll([n], K_of(st, s)[n] == z3.Or(K_of(c.old, s)[n], kn)),
                      z3.ForAll([sr], z3.Implies(sr != s, z3.And(G_of(st, sr) == G_of(c.old, sr),
                                                                 K_of(st, sr) == K_of(c.old, sr)))))

    def addn_post(c):
        s = c.self.z
        G0, G1 = G_of(c.old, s), G_of(c.new, s)
        qs = c.args["quads"]
        t = z3.Const("q_t", TripleSort)
        n = z3.Const("q_n", TermSort)
        q = z3.Const("q_q", QUAD.sort())
        added = z3.Exists([q], z3.And(qs.member(q), QUAD.mk(tr_s(t), tr_p(t), tr_o(t), QUAD.proj(3, q)) == q,
                                      c.new.field("Graph", "_Graph__identifier", QUAD.proj(3, q)) == n))
        kn = z3.Exists([q], z3.And(qs.member(q), c.new.field("Graph", "_Graph__identifier", QUAD.proj(3, q)) == n))
        sr = z3.Const("q_s", z3.IntSort())
        return z3.And(z3.ForAll([t, n], G1[t][n] == z3.Or(G0[t][n], added)),
                      z3.ForAll([n], K_of(c.new, s)[n] == z3.Or(K_of(c.old, s)[n], kn)),
                      z3.ForAll([sr], z3.Implies(sr != s, z3.And(G_of(c.new, sr) == G_of(c.old, sr),
                                                                 K_of(c.new, sr) == K_of(c.old, sr)))))

    def addn_pre(c):
        qs = c.args["quads"]
        q = z3.Const("pq", QUAD.sort())
        return z3.ForAll([q], z3.Implies(qs.member(q), QUAD.proj(3, q) != 0))
    M.add(Contract("C01", "rdflib/store.py", "Store.addN", [Param("quads", None, make=quads_param)], cls="Store",
                   self_ty=STORE, pre=addn_pre, post=addn_post,
                   modifies=lambda c: [(STORE_G, c.self.z), (STORE_K, c.self.z)],
                   loops={0: LoopSpec(addn_inv, modifies=[STORE_G, STORE_K],
                                      var_types={"s": TERM, "p": TERM, "o": TERM, "c": GRAPH},
                                      fingerprint="quads")},
                   note="G' = G + {(t, name(c)) | (t, c) in quads}"))
    # ---------------------------------------------------------------- Graph.addN / __iadd__ / __isub__
    def g_addn_post(c):
        qs = c.args["quads"]
        t = z3.Const("q_t", TripleSort)
        q = z3.Const("q_q", QUAD.sort())
        same_obj = z3.Exists([q], z3.And(qs.member(q), QUAD.mk(tr_s(t), tr_p(t), tr_o(t), c.self.z) == q))
        same_name = z3.Exists([q], z3.And(qs.member(q), tr_s(t) == QUAD.proj(0, q), tr_p(t) == QUAD.proj(1, q),
                                          tr_o(t) == QUAD.proj(2, q),
                                          c.old.field("Graph", "_Graph__identifier", QUAD.proj(3, q)) == ident_z(c)))
        return [("adds-quads-whose-context-is-this-graph",
                 z3.ForAll([t], z3.Implies(z3.Or(in_self(c.old, c, t), same_obj), in_self(c.new, c, t)))),
                ("adds-nothing-else",
                 z3.ForAll([t], z3.Implies(in_self(c.new, c, t), z3.Or(in_self(c.old, c, t), same_name)))),
                ("others-unchanged", others_unchanged(c))]

    def g_addn_pre(c):
        qs = c.args["quads"]
        q = z3.Const("pq", QUAD.sort())
        return z3.And(wf(c), z3.ForAll([q], z3.Implies(qs.member(q), QUAD.proj(3, q) != 0)))
    M.add(Contract("C01", REL, "Graph.addN", [Param("quads", None, make=quads_param)], ret=GRAPH, self_ty=GRAPH,
                   pre=g_addn_pre, post=g_addn_post, modifies=FRAME, ret_make=lambda c: c.self,
                   note="adds exactly the triples of the quads whose context is this graph (identity test on the "
                        "identifier object: quads naming the graph by an equal but distinct identifier object may "
                        "be skipped - stated as lower/upper bound)"))

    def other_param(path, interp):
        """`other`: an arbitrary finite iterable of triples (e.g. another Graph)"""
        arr = z3.Array("arg_other", TripleSort, z3.BoolSort())
        return SymIter(TRIPLE, lambda z: arr[z], False, label="other")

    def iadd_post(c):
        t = z3.Const("q_t", TripleSort)
        oth = c.args["other"]
        return [("view", z3.ForAll([t], in_self(c.new, c, t) == z3.Or(in_self(c.old, c, t), oth.member(t)))),
                ("others-unchanged", others_unchanged(c))]
    M.add(Contract("C01", REL, "Graph.__iadd__", [Param("other", None, make=other_param)], ret=GRAPH, self_ty=GRAPH,
                   pre=wf, post=iadd_post, modifies=FRAME, ret_make=lambda c: c.self,
                   note="g += other : V' = V + set(other)"))

    def isub_inv(lc):
        c = lc.interp.callctx
        st = lc.st
        t = z3.Const("inv_t", TripleSort)
        return z3.And(z3.ForAll([t], in_self(st, c, t) == z3.And(in_self(c.old, c, t), z3.Not(lc.done[t]))),
                      others_unchanged_between(c, c.old, st))

    def others_unchanged_between(c, st0, st1):
        s = store_z(c)
        n0 = ident_z(c)
        t = z3.Const("f_t", TripleSort)
        n = z3.Const("f_n", TermSort)
        sr = z3.Const("f_s", z3.IntSort())
        return z3.And(
            z3.ForAll([t, n], z3.Implies(n != n0, G_of(st1, s)[t][n] == G_of(st0, s)[t][n])),
            z3.ForAll([n], z3.Implies(n != n0, K_of(st1, s)[n] == K_of(st0, s)[n])),
            z3.Implies(K_of(st0, s)[n0], K_of(st1, s)[n0]),
            z3.ForAll([sr], z3.Implies(sr != s, z3.And(G_of(st1, sr) == G_of(st0, sr), K_of(st1, sr) == K_of(st0, sr)))))

    def isub_post(c):
        t = z3.Const("q_t", TripleSort)
        oth = c.args["other"]
        return [("view", z3.ForAll([t], in_self(c.new, c, t) == z3.And(in_self(c.old, c, t), z3.Not(oth.member(t))))),
                ("others-unchanged", others_unchanged(c))]
    M.add(Contract("C01", REL, "Graph.__isub__", [Param("other", None, make=other_param)], ret=GRAPH, self_ty=GRAPH,
                   pre=wf, post=isub_post, modifies=FRAME, ret_make=lambda c: c.self,
                   loops={0: LoopSpec(isub_inv, modifies=[STORE_G, STORE_K], var_types={"triple": TRIPLE},
                                      fingerprint="other")},
                   note="g -= other : V' = V minus set(other) (other is a snapshot: for `g -= g` the live-iteration "
                        "case is covered by the store-level interference proof and the bounded layer)"))
    # ---------------------------------------------------------------- binary operators + - * ^
    from pyvc.core import STR
    NSPAIR = TTuple(STR, TERM, name="PrefixNs")
    M.add(Contract("C17", REL, "Graph.namespaces", [], self_ty=GRAPH,
                   gen=GenSpec(NSPAIR, lambda c, z: z3.Array("ns_of_graph", z3.IntSort(), z3.ArraySort(
                       NSPAIR.sort(), z3.BoolSort()))[c.self.z][z], distinct=True), modifies=[], trusted=True,
                   note="some finite set of (prefix, namespace) pairs (namespace state is not part of the triple view)"))
    M.add(Contract("C17", REL, "Graph.bind", [Param("prefix", STR), Param("namespace", TERM),
                                               Param("override", BOOL, default=True), Param("replace", BOOL, default=False)],
                   self_ty=GRAPH, modifies=[], trusted=True,
                   note="changes prefix bindings only; no triple, no graph name changes (C17 covers the binding map)"))

    def view_of(st, gz, t):
        return G_of(st, st.field("Graph", "_Graph__store", gz))[t][st.field("Graph", "_Graph__identifier", gz)]

    def wf2(c):
        o = c.args["other"]
        p = c.path
        so = p.get_field_z(o.z, "Graph", "_Graph__store")
        return z3.And(wf(c), o.z > 0, o.z < c.old.alloc, so > 0, so < c.old.alloc,
                      p.get_field_z(o.z, "Graph", "__dyn__") == DYN_GRAPH)

    def old_untouched(c, st):
        """every store that existed before the call is unchanged (the result lives on a fresh store)"""
        sr = z3.Const("f_s", z3.IntSort())
        return z3.ForAll([sr], z3.Implies(z3.And(sr > 0, sr < c.old.alloc), z3.And(
            G_of(st, sr) == G_of(c.old, sr), K_of(st, sr) == K_of(c.old, sr))))

    GFIELDS = ["_Graph__store", "_Graph__identifier", "__dyn__"]

    def old_objects_unchanged(c, st):
        r = z3.Const("f_r", z3.IntSort())
        return z3.ForAll([r], z3.Implies(z3.And(r > 0, r < c.old.alloc), z3.And(*[
            st.field("Graph", f, r) == c.old.field("Graph", f, r) for f in GFIELDS])))

    def result_fresh(c, st, r):
        s = st.field("Graph", "_Graph__store", r)
        return z3.And(r >= c.old.alloc, s >= c.old.alloc, r < st.alloc, s < st.alloc)

    def binop_contract(name, spec, loops, note):
        def post(c):
            t = z3.Const("q_t", TripleSort)
            r = c.result.z
            return [("result-view", z3.ForAll([t], view_of(c.new, r, t) == spec(c, t))),
                    ("operands-unchanged", old_untouched(c, c.new)),
                    ("result-is-a-new-graph", z3.And(result_fresh(c, c.new, r),
                                                     c.new.field("Graph", "__dyn__", r) == DYN_GRAPH)),
                    ("existing-graph-objects-unchanged", old_objects_unchanged(c, c.new))]
        M.add(Contract("C01", REL, f"Graph.{name}", [Param("other", GRAPH)], ret=GRAPH, self_ty=GRAPH, pre=wf2,
                       post=post, modifies=[STORE_G, STORE_K, ("Graph", "_Graph__store"), ("Graph", "_Graph__identifier"),
                                            ("Graph", "__dyn__"), ("Graph", "default_union"), ("Graph", "context_aware"),
                                            ("Store", "context_aware"), ("Store", "graph_aware")],
                       loops=loops, note=note, allocates=True))

    def mk_inv(spec_done, retname="retval"):
        def inv(lc):
            c = lc.interp.callctx
            st = lc.st
            r = lc.env[retname].z
            t = z3.Const("inv_t", TripleSort)
            return z3.And(z3.ForAll([t], view_of(st, r, t) == spec_done(c, lc, t)), old_untouched(c, st),
                          old_objects_unchanged(c, st),
                          result_fresh(c, st, r), st.alloc == lc.path.alloc,
                          st.field("Graph", "__dyn__", r) == DYN_GRAPH,
                          st.field("Graph", "_Graph__store", c.self.z) == c.old.field("Graph", "_Graph__store", c.self.z),
                          st.field("Graph", "_Graph__identifier", c.self.z) == c.old.field("Graph", "_Graph__identifier", c.self.z),
                          st.field("Graph", "_Graph__store", c.args["other"].z) == c.old.field("Graph", "_Graph__store", c.args["other"].z),
                          st.field("Graph", "_Graph__identifier", c.args["other"].z) == c.old.field("Graph", "_Graph__identifier", c.args["other"].z),
                          st.field("Graph", "__dyn__", c.self.z) == DYN_GRAPH,
                          st.field("Graph", "__dyn__", c.args["other"].z) == DYN_GRAPH)
        return inv
    HEAPMOD = [STORE_G, STORE_K]
    vs = lambda c, t: view_of(c.old, c.self.z, t)
    vo = lambda c, t: view_of(c.old, c.args["other"].z, t)
    binop_contract("__add__", lambda c, t: z3.Or(vs(c, t), vo(c, t)), {
        0: LoopSpec(mk_inv(lambda c, lc, t: z3.BoolVal(False)), modifies=[], var_types={"prefix": STR, "uri": TERM}),
        1: LoopSpec(mk_inv(lambda c, lc, t: lc.done[t]), modifies=HEAPMOD, var_types={"x": TRIPLE}, fingerprint="self"),
        2: LoopSpec(mk_inv(lambda c, lc, t: z3.Or(vs(c, t), lc.done[t])), modifies=HEAPMOD, var_types={"y": TRIPLE},
                    fingerprint="other")},
        "a + b : a new graph holding V(a) | V(b); operands untouched")
    binop_contract("__mul__", lambda c, t: z3.And(vs(c, t), vo(c, t)), {
        0: LoopSpec(mk_inv(lambda c, lc, t: z3.And(lc.done[t], vs(c, t))), modifies=HEAPMOD, var_types={"x": TRIPLE},
                    fingerprint="other")},
        "a * b : a new graph holding V(a) & V(b)")
    binop_contract("__sub__", lambda c, t: z3.And(vs(c, t), z3.Not(vo(c, t))), {
        0: LoopSpec(mk_inv(lambda c, lc, t: z3.And(lc.done[t], z3.Not(vo(c, t)))), modifies=HEAPMOD,
                    var_types={"x": TRIPLE}, fingerprint="self")},
        "a - b : a new graph holding V(a) minus V(b)")
    binop_contract("__xor__", lambda c, t: z3.Xor(vs(c, t), vo(c, t)), {},
                   "a ^ b : a new graph holding the symmetric difference")
    return M
