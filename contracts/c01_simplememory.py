"""C01 (store level): SimpleMemory against its abstract view A(t) (a set of triples, no contexts)."""
from __future__ import annotations

import z3

from pyvc.core import (card_fn, BOOL, INT, SV, StateView, TDict, TObj, TOpt, TSet, TTuple, TUn, declare_class,
                       option_sort, Snapshot, SymIter)
from pyvc.interp import LoopSpec, _zb
from pyvc.model import Contract, GenSpec, Param
from contracts.rdfmodel import (RDFModel, TERM, TRIPLE, OTERM, TermSort, match_triple, tr_s, tr_p, tr_o)

REL = "rdflib/plugins/stores/memory.py"
D3 = TDict(TERM, INT)
D2 = TDict(TERM, D3)
D1 = TDict(TERM, D2)
TripleSort = TRIPLE.sort()
CtxSort = z3.DeclareSort("Ctx")
CTX = TUn("Ctx")
OCTX = TOpt(CTX)
TSETSORT = z3.ArraySort(TripleSort, z3.BoolSort())
tcard = z3.Function("triple_set_card", TSETSORT, z3.IntSort())


class SimpleMemoryModel(RDFModel):
    name = "c01_simplememory"

    def __init__(self):
        super().__init__()
        declare_class("Store", fields={})
        declare_class("SimpleMemory", bases=("Store",), fields={
            "_SimpleMemory__spo": D1, "_SimpleMemory__pos": D1, "_SimpleMemory__osp": D1,
        })
        self.globals["ANY"] = None
        a = z3.Const("card_a", TSETSORT)
        x = z3.Const("card_x", TripleSort)
        self.axioms += [
            tcard(z3.K(TripleSort, z3.BoolVal(False))) == 0,
            z3.ForAll([a, x], z3.Implies(z3.Not(a[x]), tcard(z3.Store(a, x, True)) == tcard(a) + 1)),
            z3.ForAll([a], tcard(a) >= 0),
        ]
        self.assumptions += [
            "cardinality of a finite set of triples is axiomatised (card(empty)=0, card(S+{x})=card(S)+1 for x not in S)",
            "typing invariants of the declared private fields",
        ]
        self.declare()

    @staticmethod
    def F(st, fname, self_z):
        return st.field("SimpleMemory", "_SimpleMemory__" + fname, self_z)

    @classmethod
    def idx_has(cls, st, fname, self_z, a, b, c):
        oi = option_sort(z3.IntSort())
        r1 = cls.F(st, fname, self_z)
        e1 = st.content(D1, r1)[a]
        e2 = st.content(D2, oi.get(e1))[b]
        e3 = st.content(D3, oi.get(e2))[c]
        return z3.And(oi.is_some(e1), oi.is_some(e2), oi.is_some(e3))

    @classmethod
    def A(cls, st, self_z, t):
        return cls.idx_has(st, "spo", self_z, tr_s(t), tr_p(t), tr_o(t))

    @classmethod
    def RI(cls, st, self_z):
        oi = option_sort(z3.IntSort())
        t = z3.Const("ri_t", TripleSort)
        a, a2, b, b2 = z3.Consts("ri_a ri_a2 ri_b ri_b2", TermSort)
        alloc = st.alloc
        spo, pos, osp = (cls.F(st, n, self_z) for n in ("spo", "pos", "osp"))
        tops = [spo, pos, osp]
        valid = lambda r: z3.And(r > 0, r < alloc)
        cl = [z3.And(*[valid(r) for r in tops]), z3.Distinct(spo, pos, osp)]

        def lvl2(idx, x):
            return oi.get(st.content(D1, idx)[x])

        def has2(idx, x):
            return oi.is_some(st.content(D1, idx)[x])

        def lvl3(idx, x, y):
            return oi.get(st.content(D2, lvl2(idx, x))[y])

        def has3(idx, x, y):
            return z3.And(has2(idx, x), oi.is_some(st.content(D2, lvl2(idx, x))[y]))
        for i in tops:
            cl.append(z3.ForAll([a], z3.Implies(has2(i, a), z3.And(valid(lvl2(i, a)), lvl2(i, a) != spo,
                                                                   lvl2(i, a) != pos, lvl2(i, a) != osp))))
            cl.append(z3.ForAll([a, b], z3.Implies(has3(i, a, b), valid(lvl3(i, a, b)))))
            for j in tops:
                cl.append(z3.ForAll([a, a2], z3.Implies(
                    z3.And(has2(i, a), has2(j, a2), a != a2 if i.eq(j) else z3.BoolVal(True)),
                    lvl2(i, a) != lvl2(j, a2))))
                cl.append(z3.ForAll([a, b, a2, b2], z3.Implies(
                    z3.And(has3(i, a, b), has3(j, a2, b2),
                           z3.Or(a != a2, b != b2) if i.eq(j) else z3.BoolVal(True)),
                    lvl3(i, a, b) != lvl3(j, a2, b2))))
        sh = cls.idx_has(st, "spo", self_z, tr_s(t), tr_p(t), tr_o(t))
        ph = cls.idx_has(st, "pos", self_z, tr_p(t), tr_o(t), tr_s(t))
        oh = cls.idx_has(st, "osp", self_z, tr_o(t), tr_s(t), tr_p(t))
        cl.append(z3.ForAll([t], z3.And(sh == ph, sh == oh)))
        return cl

    @classmethod
    def RIz(cls, st, s):
        return z3.And(*cls.RI(st, s))

    def declare(self):
        M = self
        sm = TObj("SimpleMemory")
        HEAP = [D1, D2, D3]
        PAT = TTuple(OTERM, OTERM, OTERM, name="Pattern")

        def pre(c):
            return M.RIz(c.old, c.self.z)

        def add_post(c):
            st0, st1, s = c.old, c.new, c.self.z
            t0 = c.path.inject(TRIPLE, c.args["triple"])
            t = z3.Const("q_t", TripleSort)
            return [(f"RI[{i}]", f) for i, f in enumerate(M.RI(st1, s))] + [
                ("effect", z3.ForAll([t], M.A(st1, s, t) == z3.Or(M.A(st0, s, t), t == t0)))]
        self.add(Contract("C01", REL, "SimpleMemory.add",
                          [Param("triple", TRIPLE), Param("context", OCTX), Param("quoted", BOOL, default=False)],
                          self_ty=sm, pre=pre, post=add_post, modifies=HEAP,
                          note="A' = A + {t}; the three indexes stay consistent"))

        def tr_member(c, z):
            return z3.And(match_triple(c.args["triple_pattern"], z), M.A(c.old, c.self.z, z))

        def tr_wrap(it2, c, elem):
            return (elem, SymIter(CTX, lambda x: z3.BoolVal(False), True, label="no-contexts"))
        self.add(Contract("C01", REL, "SimpleMemory.triples",
                          [Param("triple_pattern", PAT), Param("context", OCTX, default=None)],
                          self_ty=sm, pre=pre,
                          gen=GenSpec(TRIPLE, tr_member, distinct=True,
                                      abstract=lambda it, v: it.path.inject(TRIPLE, v[0]), wrap=tr_wrap),
                          modifies=[], note="yields exactly the stored triples matching the pattern, each once, "
                                            "for all 8 pattern shapes (no interference between yields)"))

        # __contexts: always the empty generator
        self.add(Contract("C01", REL, "SimpleMemory.__contexts", [], self_ty=sm,
                          gen=GenSpec(CTX, lambda c, z: z3.BoolVal(False), distinct=True), modifies=[],
                          note="empty generator"))

        # remove: loop over a snapshot list, deleting the three leaf entries
        def rm_inv(lc):
            st, s = lc.st, lc.interp.callctx.self.z
            st0 = lc.interp.callctx.old
            t = z3.Const("inv_t", TripleSort)
            return z3.And(M.RIz(st, s),
                          z3.ForAll([t], M.A(st, s, t) == z3.And(M.A(st0, s, t), z3.Not(lc.done[t]))),
                          M.skeleton_kept(st0, st, s))

        def rm_post(c):
            st0, st1, s = c.old, c.new, c.self.z
            t = z3.Const("q_t", TripleSort)
            return [(f"RI[{i}]", f) for i, f in enumerate(M.RI(st1, s))] + [
                ("effect", z3.ForAll([t], M.A(st1, s, t) == z3.And(
                    M.A(st0, s, t), z3.Not(match_triple(c.args["triple_pattern"], t)))))]
        self.add(Contract("C01", REL, "SimpleMemory.remove",
                          [Param("triple_pattern", PAT), Param("context", OCTX, default=None)],
                          self_ty=sm, pre=pre, post=rm_post, modifies=HEAP,
                          loops={0: LoopSpec(rm_inv, modifies=HEAP,
                                             var_types={"subject": TERM, "predicate": TERM, "object": TERM,
                                                        "c": "poison"},
                                             fingerprint="list(self.triples(triple_pattern))")},
                          note="A' = A minus the matching triples"))

        def len_inv(lc):
            i = lc.path.inject(INT, lc.env["i"])
            return i == tcard(lc.done)

        def len_post(c):
            st, s = c.old, c.self.z
            t = z3.Const("len_t", TripleSort)
            allset = z3.Lambda([t], M.A(st, s, t))
            return c.path.inject(INT, c.result) == tcard(allset)
        self.add(Contract("C01", REL, "SimpleMemory.__len__", [Param("context", OCTX, default=None)], ret=INT,
                          self_ty=sm, pre=pre, post=len_post, modifies=[],
                          loops={0: LoopSpec(len_inv, var_types={"triple": "poison"},
                                             fingerprint="self.triples((None, None, None))")},
                          note="len = cardinality of the stored set"))

    @classmethod
    def skeleton_kept(cls, old, new, self_z):
        """level-1/level-2 entries are never deleted and keep their objects (remove deletes leaves only)"""
        oi = option_sort(z3.IntSort())
        a, b = z3.Consts("sk_a sk_b", TermSort)
        cl = []
        for n in ("spo", "pos", "osp"):
            r0, r1 = cls.F(old, n, self_z), cls.F(new, n, self_z)
            cl.append(r0 == r1)
            e0 = old.content(D1, r0)[a]
            e1 = new.content(D1, r1)[a]
            cl.append(z3.ForAll([a], e1 == e0))
            f0 = old.content(D2, oi.get(e0))[b]
            f1 = new.content(D2, oi.get(e0))[b]
            cl.append(z3.ForAll([a, b], z3.Implies(oi.is_some(e0), f1 == f0)))
        cl.append(new.alloc == old.alloc)
        return z3.And(*cl)


def build():
    return SimpleMemoryModel()
