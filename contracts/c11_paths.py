"""C11 (property paths, the non-recursive operators): InvPath and AlternativePath against the relational definition.

rel(p, s, o) is the denotation of path (or IRI) p over the graph at hand - an uninterpreted relation: the operators'
contracts say how a compound path's relation is built from its parts' relations, whatever those are.
eval_path(graph, (s, p, o)) is the single callee: it returns the pairs of rel(p) restricted to the bound ends, where
"bound" means `is not None` (NOT Python truthiness).
  [[~p]]    = converse of [[p]]
  [[p|q|..]] = union of the [[.]] of the alternatives
SequencePath (recursive helper closures over list slices), MulPath (closure) and NegatedPath are bounded only.
"""
from __future__ import annotations

import z3

from pyvc.core import BOOL, INT, SV, TObj, TOpt, TTuple, TList, option_sort, Snapshot, SymIter, declare_class
from pyvc.interp import Builtin
from pyvc.model import Contract, GenSpec, Param
from contracts.rdfmodel import RDFModel, TERM, TermSort

REL = "rdflib/paths.py"
OT = option_sort(TermSort)
OTERM = TOpt(TERM)
PAIR = TTuple(TERM, TERM, name="EndPair")
rel = z3.Function("path_relation", z3.IntSort(), TermSort, TermSort, z3.BoolSort())
alts = z3.Function("alternative_members", z3.IntSort(), z3.ArraySort(z3.IntSort(), z3.BoolSort()))


def restricted(s, o, a, b):
    """(a, b) respects the ends: an end given as None is free"""
    return z3.And(z3.Or(OT.is_none(s), OT.get(s) == a), z3.Or(OT.is_none(o), OT.get(o) == b))


class PathModel(RDFModel):
    name = "c11_paths"

    def __init__(self):
        super().__init__()
        declare_class("InvPath", fields={"arg": INT})
        declare_class("AlternativePath", fields={})
        declare_class("Graph", fields={})
        self.globals["eval_path"] = Builtin("eval_path", self.b_eval_path)
        self.assumptions += ["eval_path(graph, (s, p, o)) returns exactly the pairs of [[p]] whose ends equal the non-None "
                             "s / o (contract of Graph.triples for IRIs - C01 - and of the other operators' eval, "
                             "assumed here; multiplicities unspecified)"]
        self.declare()

    def b_eval_path(self, it, a, k):
        p = it.path
        s, pth, o = a[1]
        sz, oz = p.inject(OTERM, s), p.inject(OTERM, o)
        pz = p.inject(INT, pth)
        return SymIter(PAIR, lambda z: z3.And(rel(pz, PAIR.proj(0, z), PAIR.proj(1, z)),
                                              restricted(sz, oz, PAIR.proj(0, z), PAIR.proj(1, z))), False, label="eval_path")

    def getattr(self, it, obj, name, node):
        if isinstance(obj, SV) and isinstance(obj.ty, TObj) and obj.ty.cls == "AlternativePath" and name == "args":
            arr = alts(obj.z)
            return Snapshot(INT, lambda z: arr[z], False)
        return NotImplemented

    def declare(self):
        G = TObj("Graph")
        ends = [Param("subj", OTERM, default=None), Param("obj", OTERM, default=None)]

        def inv_member(c, z):
            a, b = PAIR.proj(0, z), PAIR.proj(1, z)
            arg = c.old.field("InvPath", "arg", c.self.z)
            s, o = c.path.inject(OTERM, c.args["subj"]), c.path.inject(OTERM, c.args["obj"])
            return z3.And(rel(arg, b, a), restricted(s, o, a, b))
        self.add(Contract("C11", REL, "InvPath.eval", [Param("graph", G)] + ends, self_ty=TObj("InvPath"),
                          pre=lambda c: c.self.z > 0, gen=GenSpec(PAIR, inv_member, distinct=False, complete=True),
                          modifies=[], note="[[~p]] is the converse of [[p]], restricted to the ends that are not None"))

        def alt_member(c, z):
            a, b = PAIR.proj(0, z), PAIR.proj(1, z)
            x = z3.Int("alt_x")
            s, o = c.path.inject(OTERM, c.args["subj"]), c.path.inject(OTERM, c.args["obj"])
            return z3.And(z3.Exists([x], z3.And(alts(c.self.z)[x], rel(x, a, b))), restricted(s, o, a, b))
        self.add(Contract("C11", REL, "AlternativePath.eval", [Param("graph", G)] + ends, self_ty=TObj("AlternativePath"),
                          pre=lambda c: c.self.z > 0, gen=GenSpec(PAIR, alt_member, distinct=False, complete=True),
                          modifies=[], note="[[p|q]] is the union of the alternatives' relations, restricted to the "
                                            "ends that are not None"))


def build():
    return PathModel()
