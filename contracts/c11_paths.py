"""C11 (property paths, the non-recursive operators): InvPath and AlternativePath against the relational definition.

rel(p, s, o) is the denotation of path (or IRI) p over the graph at hand - an uninterpreted relation: the operators'
contracts say how a compound path's relation is built from its parts' relations, whatever those are.
eval_path(graph, (s, p, o)) is the single callee: it returns the pairs of rel(p) restricted to the bound ends, where
"bound" means `is not None` (NOT Python truthiness).
  [[~p]]    = converse of [[p]]
  [[p|q|..]] = union of the [[.]] of the alternatives
  [[!(p1|..|pn)]] = { (s, o) | some triple (s, p, o) of the graph has p not in {p1..pn} }   (forward members only)
SequencePath (recursive helper closures over list slices), MulPath (closure) and negated sets with inverse members
(open finding C11-negated-set-inverse-members) are bounded only.
"""
from __future__ import annotations

import z3

from pyvc.core import BOOL, INT, SV, TObj, TOpt, TTuple, TList, TUn, option_sort, Snapshot, SymIter, declare_class
from pyvc.interp import Builtin, LoopSpec, ClassRef
from pyvc.model import Contract, GenSpec, Param
from contracts.rdfmodel import RDFModel, TERM, TRIPLE, TermSort, tr_s, tr_p, tr_o, kind, K_URIREF

REL = "rdflib/paths.py"
OT = option_sort(TermSort)
OTERM = TOpt(TERM)
PAIR = TTuple(TERM, TERM, name="EndPair")
rel = z3.Function("path_relation", z3.IntSort(), TermSort, TermSort, z3.BoolSort())
alts = z3.Function("alternative_members", z3.IntSort(), z3.ArraySort(z3.IntSort(), z3.BoolSort()))


# members of a negated property set: IRIs or InvPath objects
ArgSort = z3.DeclareSort("NegArg")
NEGARG = TUn("NegArg")
arg_is_uri = z3.Function("negarg_is_uri", ArgSort, z3.BoolSort())
arg_uri = z3.Function("negarg_uri", ArgSort, TermSort)
arg_is_inv = z3.Function("negarg_is_inv", ArgSort, z3.BoolSort())
arg_inv = z3.Function("negarg_inv_arg", ArgSort, TermSort)
neg_args = z3.Function("negated_members", z3.IntSort(), z3.ArraySort(ArgSort, z3.BoolSort()))
holds = z3.Function("graph_holds", z3.IntSort(), TRIPLE.sort(), z3.BoolSort())


def restricted(s, o, a, b):
    """(a, b) respects the ends: an end given as None is free"""
    return z3.And(z3.Or(OT.is_none(s), OT.get(s) == a), z3.Or(OT.is_none(o), OT.get(o) == b))


class PathModel(RDFModel):
    name = "c11_paths"

    def __init__(self):
        super().__init__()
        declare_class("InvPath", fields={"arg": INT})
        declare_class("AlternativePath", fields={})
        declare_class("Graph", fields={})
        declare_class("NegatedPath", fields={})
        self.globals["InvPath"] = ClassRef("InvPath", isinstance_fn=lambda it, v: (
            z3.And(z3.Not(arg_is_uri(v.z)), arg_is_inv(v.z)) if v.ty.sort() == ArgSort else False))
        self.globals["URIRef"] = ClassRef("URIRef", isinstance_fn=lambda it, v: (
            arg_is_uri(v.z) if v.ty.sort() == ArgSort else (kind(v.z) == K_URIREF if v.ty.sort() == TermSort else False)))
        self.globals["eval_path"] = Builtin("eval_path", self.b_eval_path)
        self.assumptions += ["eval_path(graph, (s, p, o)) returns exactly the pairs of [[p]] whose ends equal the non-None "
                             "s / o (contract of Graph.triples for IRIs - C01 - and of the other operators' eval, "
                             "assumed here; multiplicities unspecified)"]
        self.declare()

    def b_eval_path(self, it, a, k):
        p = it.path
        s, pth, o = a[1]
        sz, oz = p.inject(OTERM, s), p.inject(OTERM, o)
        pz = p.inject(INT, pth)
        return SymIter(PAIR, lambda z: z3.And(rel(pz, PAIR.proj(0, z), PAIR.proj(1, z)),
                                              restricted(sz, oz, PAIR.proj(0, z), PAIR.proj(1, z))), False, label="eval_path")

    def getattr(self, it, obj, name, node):
        if isinstance(obj, SV) and isinstance(obj.ty, TObj) and obj.ty.cls == "AlternativePath" and name == "args":
            arr = alts(obj.z)
            return Snapshot(INT, lambda z: arr[z], False)
        if isinstance(obj, SV) and isinstance(obj.ty, TObj) and obj.ty.cls == "NegatedPath" and name == "args":
            arr = neg_args(obj.z)
            return Snapshot(NEGARG, lambda z: arr[z], False)
        if isinstance(obj, SV) and obj.ty.sort() == ArgSort and name == "arg":
            return SV(TERM, arg_inv(obj.z))
        return NotImplemented

    def str_format_percent(self, it, fmt, arg):
        from pyvc.core import STR
        return it.path.fresh_sv(STR, "msg")      # only used for exception messages

    def contains(self, it, coll, x, node):
        if isinstance(coll, SV) and isinstance(coll.ty, TObj) and coll.ty.cls == "Graph":
            m = self.method(it, coll, "__contains__")
            if m is not None:
                if isinstance(x, tuple):
                    # a set member used as a term is its IRI (members that are not IRIs never get here: the real code
                    # tests isinstance(a, URIRef) first, and a.arg of an InvPath is a term already)
                    x = tuple(SV(TERM, arg_uri(v.z)) if isinstance(v, SV) and v.ty.sort() == ArgSort else v for v in x)
                return it.truthy(m(it, coll, [x], {}))
        return NotImplemented

    def un_isinstance(self, it, v, n):
        if v.ty.sort() == ArgSort:
            if n == "URIRef":
                return arg_is_uri(v.z)
            if n == "InvPath":
                return z3.And(z3.Not(arg_is_uri(v.z)), arg_is_inv(v.z))
            return False
        return super().un_isinstance(it, v, n)

    def cross_eq(self, it, a, b):
        # Identifier.__eq__ between a predicate and a member of the set: equal iff the member is that IRI
        for x, y in ((a, b), (b, a)):
            if isinstance(x, SV) and isinstance(y, SV) and x.ty.sort() == TermSort and y.ty.sort() == ArgSort:
                return z3.And(arg_is_uri(y.z), arg_uri(y.z) == x.z)
        return super().cross_eq(it, a, b)

    def declare(self):
        G = TObj("Graph")
        ends = [Param("subj", OTERM, default=None), Param("obj", OTERM, default=None)]

        def inv_member(c, z):
            a, b = PAIR.proj(0, z), PAIR.proj(1, z)
            arg = c.old.field("InvPath", "arg", c.self.z)
            s, o = c.path.inject(OTERM, c.args["subj"]), c.path.inject(OTERM, c.args["obj"])
            return z3.And(rel(arg, b, a), restricted(s, o, a, b))
        self.add(Contract("C11", REL, "InvPath.eval", [Param("graph", G)] + ends, self_ty=TObj("InvPath"),
                          pre=lambda c: c.self.z > 0, gen=GenSpec(PAIR, inv_member, distinct=False, complete=True),
                          modifies=[], note="[[~p]] is the converse of [[p]], restricted to the ends that are not None"))

        def alt_member(c, z):
            a, b = PAIR.proj(0, z), PAIR.proj(1, z)
            x = z3.Int("alt_x")
            s, o = c.path.inject(OTERM, c.args["subj"]), c.path.inject(OTERM, c.args["obj"])
            return z3.And(z3.Exists([x], z3.And(alts(c.self.z)[x], rel(x, a, b))), restricted(s, o, a, b))
        self.add(Contract("C11", REL, "AlternativePath.eval", [Param("graph", G)] + ends, self_ty=TObj("AlternativePath"),
                          pre=lambda c: c.self.z > 0, gen=GenSpec(PAIR, alt_member, distinct=False, complete=True),
                          modifies=[], note="[[p|q]] is the union of the alternatives' relations, restricted to the "
                                            "ends that are not None"))


def declare_negated(M):
    G = TObj("Graph")
    PAT = TTuple(OTERM, OTERM, OTERM, name="Pattern")

    # graph.triples((s, None, o)) on IRIs-as-predicate patterns: the C01 contract, over the uninterpreted `holds`
    def tr_member(c, z):
        sp, pp, op = c.args["triple"]
        def comp(v, x):
            if v is None:
                return z3.BoolVal(True)
            if isinstance(v.ty, TOpt):
                return z3.Or(OT.is_none(v.z), OT.get(v.z) == x)
            return v.z == x
        return z3.And(holds(c.self.z, z), comp(sp, tr_s(z)), comp(pp, tr_p(z)), comp(op, tr_o(z)))
    M.add(Contract("C01", "rdflib/graph.py", "Graph.triples", [Param("triple", PAT)], self_ty=G,
                   gen=GenSpec(TRIPLE, tr_member, distinct=True), modifies=[], trusted=True,
                   note="exactly the matching triples of the graph (C01 contract of Graph.triples, non-path predicate)"))
    M.add(Contract("C01", "rdflib/graph.py", "Graph.__contains__", [Param("triple", TRIPLE)], ret=BOOL, self_ty=G,
                   post=lambda c: c.path.inject(BOOL, c.result) == holds(c.self.z, c.path.inject(TRIPLE, c.args["triple"])),
                   modifies=[], trusted=True, note="membership (C01 contract)"))

    def pre(c):
        a = z3.Const("na", ArgSort)
        # forward members only: a set with inverse members is the open finding C11-negated-set-inverse-members
        return z3.And(c.self.z > 0, z3.ForAll([a], z3.Implies(neg_args(c.self.z)[a], arg_is_uri(a))))

    def member(c, z):
        a_, b_ = PAIR.proj(0, z), PAIR.proj(1, z)
        pz = z3.Const("np", TermSort)
        a = z3.Const("na2", ArgSort)
        s, o = c.path.inject(OTERM, c.args["subj"]), c.path.inject(OTERM, c.args["obj"])
        g = c.args["graph"].z
        return z3.And(restricted(s, o, a_, b_),
                      z3.Exists([pz], z3.And(holds(g, TRIPLE.mk(a_, pz, b_)),
                                             z3.ForAll([a], z3.Implies(neg_args(c.self.z)[a], arg_uri(a) != pz)))))

    def inner_inv(lc):
        # every member seen so far differs from the predicate of the triple at hand
        p = lc.path.inject(TERM, lc.env["p"])
        a = z3.Const("ia", ArgSort)
        return z3.ForAll([a], z3.Implies(lc.done[a], z3.Not(z3.And(arg_is_uri(a), arg_uri(a) == p))))

    def inner_breaks(lc, x):
        p = lc.path.inject(TERM, lc.env["p"])
        return z3.And(arg_is_uri(x), arg_uri(x) == p)
    M.add(Contract("C11", REL, "NegatedPath.eval",
                   [Param("graph", G), Param("subj", OTERM, default=None), Param("obj", OTERM, default=None)],
                   self_ty=TObj("NegatedPath"), pre=pre,
                   gen=GenSpec(PAIR, member, distinct=False, complete=True), modifies=[],
                   loops={1: LoopSpec(inner_inv, breaks=inner_breaks, var_types={"a": "poison"}, fingerprint="self.args")},
                   note="[[!(p1|..|pn)]] (forward members): the pairs (s, o) linked by a triple whose OWN predicate is "
                        "none of p1..pn, restricted to the ends that are not None"))


def build():
    m = PathModel()
    declare_negated(m)
    return m
