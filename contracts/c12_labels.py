"""C12 / C05 (blank-node label scoping, N-Triples and N-Quads parsers): W3CNTriplesParser.nodeid.

The per-parse label map M (label -> node) is a dict; `fresh` is the set of nodes BNode() has handed out so far.
   label in dom(M)      ->  the node M(label) is returned, M unchanged            (one label, one node per document)
   label not in dom(M)  ->  a node that no earlier call returned and that no label maps to is returned and recorded
so within one map a label denotes one node and different labels denote different nodes (injectivity is an invariant),
and a map that starts empty for every parse call (W3CNTriplesParser.parse resets / is given a new dict - bounded
check) never returns a node of the target graph or of another parse.  skolemize=True is excluded (IRIs, not nodes).
"""
from __future__ import annotations

import z3

from pyvc.core import BOOL, INT, STR, SV, TDict, TObj, TOpt, option_sort, declare_class
from pyvc.interp import Builtin, BoundMethod, ClassRef
from pyvc.model import Contract, Model, Param

REL = "rdflib/plugins/parsers/ntriples.py"
P = TObj("W3CNTriplesParser")
MAP = TDict(STR, INT)
OI = option_sort(z3.IntSort())
next_label = z3.Function("label_at_cursor", z3.IntSort(), z3.StringSort())
existing = z3.Function("node_exists_before_this_parse_step", z3.IntSort(), z3.BoolSort())
node_named = z3.Function("BNode_with_given_id", z3.StringSort(), z3.IntSort())


class LabelModel(Model):
    name = "c12_labels"

    def __init__(self):
        super().__init__()
        declare_class("W3CNTriplesParser", fields={"skolemize": BOOL, "_bnode_ids": MAP, "__peek__": BOOL})
        declare_class("SinkParser", fields={"_anonymousNodes": MAP, "_store": TObj("RDFSink"), "_context": INT, "_reason2": INT})
        declare_class("RDFSink", fields={})
        declare_class("TriXHandler", fields={"preserve_bnode_ids": BOOL, "bnode": MAP})
        declare_class("Parser", fields={"_bnodes": MAP})
        g0 = self.globals
        g0["BNode"] = ClassRef("BNode", construct=self.mk_bnode)
        g = self.globals
        g["r_nodeid"] = "r_nodeid"
        g["bNode"] = ClassRef("bNode", construct=self.mk_bnode)
        self.assumptions += ["BNode() returns a node different from every node that exists (uuid4 freshness, A3): "
                             "modelled by the ghost predicate `existing` and a fresh symbol",
                             "eat(r_nodeid).group(1) is the label text at the cursor (the regex itself is bounded-checked in C05)"]
        self.declare()

    def mk_bnode(self, it, a, k):
        p = it.path
        if a and isinstance(a[0], SV) and a[0].ty.sort() == z3.StringSort():
            n = node_named(a[0].z)              # BNode(label): the node with that very id - not fresh, may exist already
            p.assume(n > 0)
            return SV(INT, n)
        if a:                                    # bNode(existing node) re-creates the same node
            return SV(INT, p.inject(INT, a[0]))
        n = z3.Int(p.fresh_name("fresh_bnode"))
        p.assume(z3.Not(existing(n)))
        p.assume(n > 0)
        p.ghost["made"] = p.ghost.get("made", []) + [n]
        return SV(INT, n)

    def getattr(self, it, obj, name, node):
        if isinstance(obj, SV) and isinstance(obj.ty, TObj) and obj.ty.cls == "W3CNTriplesParser":
            if name == "peek":
                return BoundMethod(obj, name, lambda it2, o, a, k: it2.path.get_field(o, "__peek__"))
            if name == "eat":
                return BoundMethod(obj, name, lambda it2, o, a, k: ("match", o))
        if isinstance(obj, SV) and isinstance(obj.ty, TObj) and obj.ty.cls == "RDFSink" and name == "newBlankNode":
            return BoundMethod(obj, name, lambda it2, o, a, k: self.mk_bnode(it2, [], {}))
        if isinstance(obj, tuple) and obj and obj[0] == "match" and name == "group":
            return BoundMethod(None, name, lambda it2, o, a, k: SV(STR, next_label(obj[1].z)))
        return NotImplemented

    def declare(self):
        def dmap(st, c):
            ctx = c.args["bnode_context"]
            ref = st.field("W3CNTriplesParser", "_bnode_ids", c.self.z) if ctx is None else ctx.z
            return st.content(MAP, ref)

        def ctx_make(path, interp):
            if path.choose(z3.Bool("context_is_none")):
                return None
            return SV(MAP, z3.Int("arg_bnode_context"))

        def pre(c):
            st = c.old
            m = dmap(st, c)
            l1, l2 = z3.Strings("pl1 pl2")
            ctx = c.args["bnode_context"]
            ref = st.field("W3CNTriplesParser", "_bnode_ids", c.self.z) if ctx is None else ctx.z
            return z3.And(c.self.z > 0, ref > 0, z3.Not(st.field("W3CNTriplesParser", "skolemize", c.self.z)),
                          # invariant of the label map: injective, and its nodes exist
                          z3.ForAll([l1, l2], z3.Implies(z3.And(OI.is_some(m[l1]), OI.is_some(m[l2]), l1 != l2), m[l1] != m[l2])),
                          z3.ForAll([l1], z3.Implies(OI.is_some(m[l1]), z3.And(existing(OI.get(m[l1])), OI.get(m[l1]) > 0))))

        def post(c):
            st0, st1 = c.old, c.new
            m0, m1 = dmap(st0, c), dmap(st1, c)
            lab = next_label(c.self.z)
            peek = st0.field("W3CNTriplesParser", "__peek__", c.self.z)
            l1, l2 = z3.Strings("ql1 ql2")
            if c.result is False:
                return [("no-label-no-node", z3.And(z3.Not(peek), m1 == m0))]
            r = c.path.inject(INT, c.result)
            return [("known-label-same-node", z3.Implies(OI.is_some(m0[lab]), z3.And(r == OI.get(m0[lab]), m1 == m0))),
                    ("new-label-fresh-node-recorded", z3.Implies(OI.is_none(m0[lab]), z3.And(
                        z3.Not(existing(r)), m1 == z3.Store(m0, lab, OI.some(r))))),
                    ("map-stays-injective", z3.ForAll([l1, l2], z3.Implies(
                        z3.And(OI.is_some(m1[l1]), OI.is_some(m1[l2]), l1 != l2), m1[l1] != m1[l2]))),
                    ("a-label-was-present", peek)]
        self.add(Contract("C12", REL, "W3CNTriplesParser.nodeid", [Param("bnode_context", None, make=ctx_make)],
                          self_ty=P, pre=pre, post=post, modifies=[MAP],
                          note="label -> node: a known label gives its node, a new label a fresh node that is recorded; "
                               "the map stays injective"))


        # ---- the same label-map discipline in the Turtle/N3/TriG, TriX and JSON-LD readers
        def simple(relpath, qual, cls, field, label_param, extra_pre=None):
            def m(st, c):
                return st.content(MAP, st.field(cls, field, c.self.z))

            def pre2(c):
                st = c.old
                mm = m(st, c)
                l1, l2 = z3.Strings("sl1 sl2")
                base = z3.And(c.self.z > 0, st.field(cls, field, c.self.z) > 0,
                              z3.ForAll([l1, l2], z3.Implies(z3.And(OI.is_some(mm[l1]), OI.is_some(mm[l2]), l1 != l2), mm[l1] != mm[l2])),
                              z3.ForAll([l1], z3.Implies(OI.is_some(mm[l1]), z3.And(existing(OI.get(mm[l1])), OI.get(mm[l1]) > 0))))
                return z3.And(base, extra_pre(c)) if extra_pre else base

            def post2(c):
                m0, m1 = m(c.old, c), m(c.new, c)
                lab = c.args[label_param].z
                r = c.path.inject(INT, c.result)
                l1, l2 = z3.Strings("tl1 tl2")
                return [("known-label-same-node", z3.Implies(OI.is_some(m0[lab]), z3.And(r == OI.get(m0[lab]), m1 == m0))),
                        ("new-label-fresh-node-recorded", z3.Implies(OI.is_none(m0[lab]), z3.And(
                            z3.Not(existing(r)), m1 == z3.Store(m0, lab, OI.some(r))))),
                        ("map-stays-injective", z3.ForAll([l1, l2], z3.Implies(
                            z3.And(OI.is_some(m1[l1]), OI.is_some(m1[l2]), l1 != l2), m1[l1] != m1[l2])))]
            self.add(Contract("C12", relpath, qual, [Param(label_param, STR)], ret=INT, self_ty=TObj(cls), pre=pre2, post=post2,
                              modifies=[MAP], note=f"{qual}: label -> node map of one parse: known label gives its node, a new "
                                                   "label a fresh recorded node; injective"))
        simple("rdflib/plugins/parsers/notation3.py", "SinkParser.anonymousNode", "SinkParser", "_anonymousNodes", "ln",
               lambda c: c.old.field("SinkParser", "_store", c.self.z) > 0)
        simple("rdflib/plugins/parsers/trix.py", "TriXHandler.get_bnode", "TriXHandler", "bnode", "label",
               lambda c: z3.Not(c.old.field("TriXHandler", "preserve_bnode_ids", c.self.z)))
        simple("rdflib/plugins/parsers/jsonld.py", "Parser._bnode", "Parser", "_bnodes", "bid")


def build():
    return LabelModel()
