"""C02: ConjunctiveGraph / Dataset against the abstract Store contract.

View:  G[t][n]  (triple t asserted in the graph named n), K[n] (n is a known graph name);
the dataset's default graph is the graph named identifier(default_context).
"""
from __future__ import annotations

import z3

from pyvc.core import (BOOL, INT, STR, SV, TObj, TOpt, TTuple, option_sort, Snapshot, SymIter, ConcreteSeq, PyExc,
                       Unsupported)
from pyvc.interp import LoopSpec, _zb
from pyvc.model import Contract, GenSpec, Param
from contracts.rdfmodel import (TERM, TRIPLE, OTERM, TermSort, match_triple, match_component, tr_s, tr_p, tr_o,
                                term_truthy, kind, K_URIREF, K_BNODE)
from contracts.graphmodel import (opt_case, GraphModel, GRAPH, OGRAPH, STORE, STORE_G, STORE_K, PAT, QUAD, G_of, K_of, in_graph,
                                  in_union, TripleSort, DYN_GRAPH, DYN_CG, DYN_DS, tcard, DEFAULT_ID)
import contracts.c01_graph as c01g

REL = "rdflib/graph.py"
CG = TObj("ConjunctiveGraph")
DS = TObj("Dataset")
QUADN = TTuple(TERM, TERM, TERM, TOpt(TERM), name="QuadName")   # (s, p, o, graph name or None)


def build():
    M = c01g.build()          # Graph-level contracts are available to the dataset code (modular calls)
    M.name = "c02_dataset"
    for k in list(M.contracts):
        c = M.contracts[k]
        if c.relpath == REL and c.cls == "Graph" or (c.cls == "Store" and c.method_name == "addN"):
            c.trusted = True   # proved in c01_graph; here they are only callee contracts
    M.assumptions.append("Graph-level contracts (proved in contracts.c01_graph) are used as callee contracts")

    F = lambda st, f, z: st.field("Graph", f, z)

    def sid(st, gz):
        return F(st, "_Graph__store", gz)

    def gidz(st, gz):
        return F(st, "_Graph__identifier", gz)

    def wf(c, ds_only=False):
        """self is a ConjunctiveGraph or Dataset object whose default graph lives on its store"""
        st, s = c.old, c.self.z
        d = F(st, "_default_context", s)
        dyn = F(st, "__dyn__", s)
        store = sid(st, s)
        return z3.And(s > 0, s < st.alloc, store > 0, store < st.alloc, d > 0, d < st.alloc,
                      z3.Or(dyn == DYN_DS, dyn == DYN_CG) if not ds_only else dyn == DYN_DS,
                      sid(st, d) == store, F(st, "__dyn__", d) == DYN_GRAPH,
                      z3.Implies(dyn == DYN_DS, gidz(st, d) == DEFAULT_ID),
                      z3.Implies(dyn == DYN_CG, F(st, "default_union", s)),
                      st.field("Store", "context_aware", store), st.field("Store", "graph_aware", store))

    def graph_ok(st, gz):
        # Graph.__init__ replaces a falsy identifier by a BNode: identifiers of graph objects are truthy
        return z3.And(gz > 0, gz < st.alloc, sid(st, gz) > 0, sid(st, gz) < st.alloc, term_truthy(gidz(st, gz)))

    def other_stores_unchanged(c, st1=None):
        st0, st1 = c.old, st1 or c.new
        s = sid(st0, c.self.z)
        sr = z3.Const("f_s", z3.IntSort())
        return z3.ForAll([sr], z3.Implies(z3.And(sr != s, sr > 0, sr < st0.alloc), z3.And(
            G_of(st1, sr) == G_of(st0, sr), K_of(st1, sr) == K_of(st0, sr))))

    GF = ["_Graph__store", "_Graph__identifier", "__dyn__", "_default_context", "default_union"]

    def old_objects_unchanged(c, st1=None):
        st1 = st1 or c.new
        r = z3.Const("f_r", z3.IntSort())
        return z3.ForAll([r], z3.Implies(z3.And(r > 0, r < c.old.alloc), z3.And(*(
            [F(st1, f, r) == F(c.old, f, r) for f in GF] +
            [st1.field("Store", f, r) == c.old.field("Store", f, r) for f in ("context_aware", "graph_aware")]))))

    ALLOC_MODS = [("Graph", f) for f in GF + ["context_aware", "formula_aware", "base"]] + \
                 [("Store", "context_aware"), ("Store", "graph_aware")]
    FRAME = lambda c: [(STORE_G, sid(c.old, c.self.z)), (STORE_K, sid(c.old, c.self.z))]

    # namespace_manager: opaque, irrelevant to the quad view
    M.globals["NamespaceManager"] = None

    def getattr_extra(it, obj, name, node):
        if name in ("namespace_manager", "_Graph__namespace_manager"):
            return None
        return NotImplemented
    M.extra_getattr = getattr_extra
    base_getattr = M.getattr

    def getattr2(it, obj, name, node):
        if isinstance(obj, SV) and isinstance(obj.ty, TObj) and name in ("namespace_manager",):
            return None
        return base_getattr(it, obj, name, node)
    M.getattr = getattr2

    # ------------------------------------------------------------------ argument shapes
    def ctx_arg(path, interp, name, allow_none=True):
        """a context argument: None | a graph name (term) | a Graph object (any store) | a CG/Dataset object"""
        k = path.choose_n(3 if allow_none else 2) if allow_none else 1 + path.choose_n(2)
        if k == 0:
            return None
        if k == 1:
            return SV(TERM, z3.Const("arg_" + name + "_name", TermSort))
        g = SV(GRAPH, z3.Int("arg_" + name + "_graph"))
        st = path.snapshot_state()
        path.assume(graph_ok(st, g.z))
        return g

    def toq_arg(allow_none_whole):
        def make(path, interp):
            k = path.choose_n(3 if allow_none_whole else 2)
            if not allow_none_whole:
                k += 1
            if k == 0:
                return None
            # subject/object are only passed through by the dataset code: kept symbolic (bound or None);
            # the predicate is inspected (isinstance(p, Path)) and therefore case-split
            s = SV(OTERM, z3.Const("arg_s", OTERM.sort()))
            p = path.project(OTERM, z3.Const("arg_p", OTERM.sort()))
            o = SV(OTERM, z3.Const("arg_o", OTERM.sort()))
            if k == 1:
                return (s, p, o)
            return (s, p, o, ctx_arg(path, interp, "c"))
        return make

    def tq_bound_arg(path, interp):
        """a triple or quad with bound terms (for add)"""
        s = SV(TERM, z3.Const("arg_s", TermSort))
        p = SV(TERM, z3.Const("arg_p", TermSort))
        o = SV(TERM, z3.Const("arg_o", TermSort))
        if path.choose_n(2) == 0:
            return (s, p, o)
        return (s, p, o, ctx_arg(path, interp, "c"))

    def name_of_ctx(c, st, v):
        """graph name (z3 Term) denoted by a context argument v (term or graph object)"""
        if isinstance(v.ty, TObj):
            return gidz(st, v.z)
        return v.z

    def view_of(st, gz, t):
        return G_of(st, sid(st, gz))[t][gidz(st, gz)]

    # ------------------------------------------------------------------ get_context / get_graph / contexts
    def gc_post(c):
        st1, r = c.new, c.result.z
        idv = c.args["identifier"]
        s = sid(c.old, c.self.z)
        name = gidz(st1, r)
        if idv is None:
            named = z3.And(kind(name) == K_BNODE)
        else:
            # Graph.__init__: `if not identifier: BNode()` - a falsy identifier is replaced by a fresh blank node
            named = z3.If(term_truthy(idv.z), name == idv.z, kind(name) == K_BNODE)
        return [("new-graph-view-on-this-store", z3.And(r >= c.old.alloc, r < st1.alloc, sid(st1, r) == s,
                                                        F(st1, "__dyn__", r) == DYN_GRAPH, named,
                                                        term_truthy(name))),
                ("nothing-changes", z3.And(G_of(st1, s) == G_of(c.old, s), K_of(st1, s) == K_of(c.old, s),
                                           other_stores_unchanged(c), old_objects_unchanged(c)))]
    M.add(Contract("C02", REL, "ConjunctiveGraph.get_context",
                   [Param("identifier", TOpt(TERM)), Param("quoted", BOOL, default=False),
                    Param("base", TOpt(STR), default=None)],
                   ret=GRAPH, self_ty=CG, pre=wf, post=gc_post, modifies=ALLOC_MODS, allocates=True,
                   note="a per-graph view: a new Graph object on the same store with the given name; no quad changes"))

    from contracts.graphmodel import ctxobj

    def ctxs_member(c, gz):
        st, s = c.old, sid(c.old, c.self.z)
        tv = c.args["triple"]
        base = z3.And(gz != 0, gz == ctxobj(s, gidz(st, gz)))
        name = gidz(st, gz)
        return z3.And(base, opt_case(c.path, TRIPLE, tv, K_of(st, s)[name], lambda tz: G_of(st, s)[tz][name]))
    def ctxs_objects(c):
        st, s = c.old, sid(c.old, c.self.z)
        n = z3.Const("co_n", TermSort)
        o = ctxobj(s, n)
        return z3.ForAll([n], z3.Implies(K_of(st, s)[n], z3.And(
            o > 0, o < st.alloc, sid(st, o) == s, gidz(st, o) == n, F(st, "__dyn__", o) == DYN_GRAPH)))
    M.add(Contract("C02", REL, "ConjunctiveGraph.contexts", [Param("triple", TOpt(TRIPLE), default=None)],
                   self_ty=CG, pre=wf, gen=GenSpec(GRAPH, ctxs_member, distinct=True), modifies=[], post=ctxs_objects,
                   note="the known graphs of the store / the graphs holding the triple, as graph objects"))

    def gg_post(c):
        r = c.result
        s = sid(c.old, c.self.z)
        return z3.And(r.z > 0, r.z < c.old.alloc, sid(c.old, r.z) == s, gidz(c.old, r.z) == c.args["identifier"].z,
                      F(c.old, "__dyn__", r.z) == DYN_GRAPH, K_of(c.old, s)[c.args["identifier"].z])
    M.add(Contract("C02", REL, "ConjunctiveGraph.get_graph", [Param("identifier", TERM)], ret=GRAPH, self_ty=CG,
                   pre=wf, post=gg_post, modifies=[],
                   raises={"IndexError": lambda c: z3.Not(K_of(c.old, sid(c.old, c.self.z))[c.args["identifier"].z])},
                   note="a known graph with that name, IndexError when the name is unknown"))

    # ------------------------------------------------------------------ _graph
    def graph_arg(path, interp):
        return ctx_arg(path, interp, "c")

    def _graph_post(c):
        v = c.args["c"]
        st0, st1 = c.old, c.new
        s = sid(st0, c.self.z)
        t = z3.Const("q_t", TripleSort)
        n = z3.Const("q_n", TermSort)
        if v is None:
            return [("none", z3.BoolVal(c.result is None)), ("nothing-changes", z3.And(
                G_of(st1, s) == G_of(st0, s), K_of(st1, s) == K_of(st0, s)))]
        r = c.result.z
        if isinstance(v.ty, TObj):
            isds = z3.Or(F(st0, "__dyn__", v.z) == DYN_CG, F(st0, "__dyn__", v.z) == DYN_DS)
            same_store = sid(st0, v.z) == s
            copied = z3.ForAll([t, n], G_of(st1, s)[t][n] == z3.Or(
                G_of(st0, s)[t][n], z3.And(n == gidz(st0, v.z), view_of(st0, v.z, t))))
            return [("dataset-objects-returned-as-is", z3.Implies(isds, z3.And(r == v.z, G_of(st1, s) == G_of(st0, s)))),
                    ("graph-object-gives-view-on-this-store",
                     z3.Implies(z3.Not(isds), z3.And(graph_ok(st1, r), sid(st1, r) == s, gidz(st1, r) == gidz(st0, v.z),
                                                     F(st1, "__dyn__", r) == DYN_GRAPH))),
                    ("same-store-graph-is-a-noop-on-quads",
                     z3.Implies(z3.And(z3.Not(isds), same_store), G_of(st1, s) == G_of(st0, s))),
                    ("foreign-graph-is-copied-into-its-name", z3.Implies(z3.Not(isds), copied)),
                    ("known-names-only-gain-that-name",
                     z3.ForAll([n], z3.Implies(n != gidz(st0, v.z), K_of(st1, s)[n] == K_of(st0, s)[n]))),
                    ("known-names-kept", z3.Implies(K_of(st0, s)[gidz(st0, v.z)], K_of(st1, s)[gidz(st0, v.z)])),
                    ("others", z3.And(other_stores_unchanged(c), old_objects_unchanged(c)))]
        named = z3.If(term_truthy(v.z), gidz(st1, r) == v.z, kind(gidz(st1, r)) == K_BNODE)
        return [("name-gives-view-on-this-store", z3.And(graph_ok(st1, r), sid(st1, r) == s, named,
                                                         F(st1, "__dyn__", r) == DYN_GRAPH)),
                ("nothing-changes", z3.And(G_of(st1, s) == G_of(st0, s), K_of(st1, s) == K_of(st0, s),
                                           other_stores_unchanged(c), old_objects_unchanged(c)))]
    M.add(Contract("C02", REL, "ConjunctiveGraph._graph", [Param("c", None, make=graph_arg)], ret=OGRAPH,
                   self_ty=CG, pre=wf, post=_graph_post,
                   modifies=lambda c: [] if c.args["c"] is None else
                   ALLOC_MODS + [(STORE_G, sid(c.old, c.self.z)), (STORE_K, sid(c.old, c.self.z))],
                   allocates=True,
                   ret_make=lambda c: None if c.args["c"] is None else c.path.fresh_sv(GRAPH, "r_graph"),
                   note="normalises a context argument (None / name / Graph / Dataset) to a graph on this store"))

    M.add(Contract("C02", REL, "ConjunctiveGraph._spoc", [Param("triple_or_quad", None), Param("default", BOOL, default=False)],
                   self_ty=CG, inline=True))

    # patch Graph.__iadd__'s postcondition to accept a Graph object as `other`
    iadd = M.contracts[("Graph", "__iadd__")]
    old_post = iadd.post

    def iadd_post2(c):
        oth = c.args["other"]
        if isinstance(oth, SV) and isinstance(oth.ty, TObj):
            class _O:
                pass
            o = _O()
            o.member = lambda t, oth=oth: view_of(c.old, oth.z, t)
            c.args = dict(c.args, other=o)
        return old_post(c)
    iadd.post = iadd_post2

    # ------------------------------------------------------------------ add / remove
    def target_name(c, st, toq):
        """name of the graph a triple/quad argument addresses for writing (default graph for triples)"""
        d = gidz(st, F(st, "_default_context", c.self.z))
        if len(toq) == 3 or toq[3] is None:
            return d
        return name_of_ctx(c, st, toq[3])

    def add_post(c):
        toq = c.args["triple_or_quad"]
        st0, st1 = c.old, c.new
        s = sid(st0, c.self.z)
        t0 = TRIPLE.mk(toq[0].z, toq[1].z, toq[2].z)
        n0 = target_name(c, st0, toq)
        t = z3.Const("q_t", TripleSort)
        n = z3.Const("q_n", TermSort)
        extra = z3.BoolVal(False)
        if len(toq) == 4 and toq[3] is not None and isinstance(toq[3].ty, TObj):
            # a Graph object living on another store brings its triples along (documented behaviour of _graph)
            g = toq[3].z
            isds = z3.Or(F(st0, "__dyn__", g) == DYN_CG, F(st0, "__dyn__", g) == DYN_DS)
            extra = z3.And(z3.Not(isds), n == gidz(st0, g), view_of(st0, g, t))
        if len(toq) == 4 and toq[3] is not None and not isinstance(toq[3].ty, TObj):
            pre_ok = term_truthy(toq[3].z)
        else:
            pre_ok = z3.BoolVal(True)
        return [("only-the-addressed-graph-gains-the-triple",
                 z3.Implies(pre_ok, z3.ForAll([t, n], G_of(st1, s)[t][n] == z3.Or(
                     G_of(st0, s)[t][n], z3.And(t == t0, n == n0), extra)))),
                ("other-stores-unchanged", other_stores_unchanged(c))]
    M.add(Contract("C02", REL, "ConjunctiveGraph.add", [Param("triple_or_quad", None, make=tq_bound_arg)],
                   ret=CG, self_ty=CG, pre=wf, post=add_post,
                   modifies=lambda c: ALLOC_MODS + FRAME(c), allocates=True, ret_make=lambda c: c.self,
                   note="add((s,p,o,g)) changes only graph g (the default graph for a triple or a None graph)"))

    def rm_post(c):
        toq = c.args["triple_or_quad"]
        st0, st1 = c.old, c.new
        s = sid(st0, c.self.z)
        t = z3.Const("q_t", TripleSort)
        n = z3.Const("q_n", TermSort)
        if toq is None:
            pat, hit, extra = (None, None, None), z3.BoolVal(True), z3.BoolVal(False)
        else:
            pat = toq[:3]
            extra = z3.BoolVal(False)
            if len(toq) == 3 or toq[3] is None:
                hit = z3.BoolVal(True)
            else:
                hit = n == name_of_ctx(c, st0, toq[3])
                if isinstance(toq[3].ty, TObj):
                    g = toq[3].z
                    isds = z3.Or(F(st0, "__dyn__", g) == DYN_CG, F(st0, "__dyn__", g) == DYN_DS)
                    # Dataset/CG objects passed as context: the store is asked with that object (its name)
                    extra = z3.BoolVal(False)
        ok = z3.BoolVal(True)
        if toq is not None and len(toq) == 4 and toq[3] is not None:
            if isinstance(toq[3].ty, TObj):
                ok = sid(st0, toq[3].z) == s      # removing through a foreign-store graph first copies it (not claimed)
            else:
                ok = term_truthy(toq[3].z)
        return [("removes-matching-from-that-graph-only-or-from-all-graphs",
                 z3.Implies(ok, z3.ForAll([t, n], G_of(st1, s)[t][n] == z3.And(
                     G_of(st0, s)[t][n], z3.Not(z3.And(match_triple(pat, t), hit)))))),
                ("other-stores-unchanged", other_stores_unchanged(c))]
    M.add(Contract("C02", REL, "ConjunctiveGraph.remove", [Param("triple_or_quad", None, make=toq_arg(True))],
                   ret=CG, self_ty=CG, pre=wf, post=rm_post,
                   modifies=lambda c: ALLOC_MODS + FRAME(c), allocates=True, ret_make=lambda c: c.self,
                   note="remove((pattern, g)) removes from g only; without a graph from every graph"))

    # ------------------------------------------------------------------ triples / __contains__ / quads / len
    def read_scope(c, st, toq, context):
        """(z3 predicate over (t), ok-condition): what a read restricted by (quad's graph | context kw) sees"""
        s = sid(st, c.self.z)
        du = F(st, "default_union", c.self.z)
        d = gidz(st, F(st, "_default_context", c.self.z))
        eff = context if context is not None else (toq[3] if (toq is not None and len(toq) == 4) else None)

        def scope(t):
            if eff is None:
                return z3.If(du, in_union(st, s, t), G_of(st, s)[t][d])
            name = name_of_ctx(c, st, eff)
            # the union view is returned when the default graph itself is asked for and default_union is on
            return z3.If(z3.And(du, name == d), in_union(st, s, t), G_of(st, s)[t][name])
        # the property observes the dataset "through the dataset and through Graph views on the same store":
        # every graph object passed in lives on this store and is a plain Graph; names are non-empty terms
        oks = []
        cands = [context] + ([toq[3]] if (toq is not None and len(toq) == 4) else [])
        for v in cands:
            if v is None:
                continue
            if isinstance(v.ty, TObj):
                isds = z3.Or(F(st, "__dyn__", v.z) == DYN_CG, F(st, "__dyn__", v.z) == DYN_DS)
                oks.append(z3.And(sid(st, v.z) == s, z3.Not(isds)))
            else:
                oks.append(term_truthy(v.z))
        ok = z3.And(*oks) if oks else z3.BoolVal(True)
        return scope, ok

    def tr_member(c, z):
        toq = c.args["triple_or_quad"]
        scope, ok = read_scope(c, c.old, toq, c.args["context"])
        pat = (None, None, None) if toq is None else toq[:3]
        return z3.And(match_triple(pat, z), scope(z))

    def tr_pre(c):
        toq = c.args["triple_or_quad"]
        scope, ok = read_scope(c, c.old, toq, c.args["context"])
        return z3.And(wf(c), ok)

    def ctx_kw(path, interp):
        return ctx_arg(path, interp, "context")
    M.add(Contract("C02", REL, "ConjunctiveGraph.triples",
                   [Param("triple_or_quad", None, make=toq_arg(True)), Param("context", None, make=ctx_kw, default=None)],
                   self_ty=CG, pre=tr_pre, gen=GenSpec(TRIPLE, tr_member, distinct=True),
                   modifies=lambda c: ALLOC_MODS, allocates=True,
                   note="a read restricted to graph g returns exactly G(g) - nothing for an empty or unknown g; "
                        "without a graph: the union (default_union) or the default graph"))

    def cont_post(c):
        toq = c.args["triple_or_quad"]
        scope, ok = read_scope(c, c.old, toq, None)
        pat = (None, None, None) if toq is None else toq[:3]
        t = z3.Const("c_t", TripleSort)
        return c.path.inject(BOOL, c.result) == z3.Exists([t], z3.And(match_triple(pat, t), scope(t)))

    def cont_pre(c):
        scope, ok = read_scope(c, c.old, c.args["triple_or_quad"], None)
        return z3.And(wf(c), ok)
    M.add(Contract("C02", REL, "ConjunctiveGraph.__contains__", [Param("triple_or_quad", None, make=toq_arg(False))],
                   ret=BOOL, self_ty=CG, pre=cont_pre, post=cont_post, modifies=lambda c: ALLOC_MODS, allocates=True,
                   note="(s,p,o,g) in ds  <=>  a matching triple is in G(g); an empty or unknown g gives False"))

    def quads_member(c, z):
        """on names: (s, p, o, n) is yielded iff the triple matches, is asserted in the graph named n and n is the
        requested graph when the pattern names one"""
        toq = c.args["triple_or_quad"]
        st = c.old
        s = sid(st, c.self.z)
        ot = option_sort(TermSort)
        tz = TRIPLE.mk(QUADN.proj(0, z), QUADN.proj(1, z), QUADN.proj(2, z))
        nz = QUADN.proj(3, z)
        pat = (None, None, None) if toq is None else toq[:3]
        eff = toq[3] if (toq is not None and len(toq) == 4) else None
        inscope = z3.BoolVal(True) if eff is None else ot.get(nz) == name_of_ctx(c, st, eff)
        return z3.And(match_triple(pat, tz), ot.is_some(nz), G_of(st, s)[tz][ot.get(nz)], inscope)

    def quads_abstract(it, v):
        name = it.path.get_field(v[3], "_Graph__identifier")
        return it.path.inject(QUADN, (v[0], v[1], v[2], name))

    quad_graph_obj = z3.Function("quad_graph_object", z3.IntSort(), TermSort, z3.IntSort())

    def quads_wrap(it2, c, elem):
        """callers receive (s, p, o, graph object): a graph object on this store carrying the name"""
        p = it2.path
        # the graph object reported for a quad is a function of (store, name): no per-element fresh object
        g = SV(GRAPH, quad_graph_obj(sid(c.old, c.self.z), elem[3].z))
        st = p.snapshot_state()
        p.assume(z3.And(graph_ok(st, g.z), sid(st, g.z) == sid(c.old, c.self.z), gidz(st, g.z) == elem[3].z,
                        F(st, "__dyn__", g.z) == DYN_GRAPH))
        return (elem[0], elem[1], elem[2], g)

    def quads_pre(c):
        scope, ok = read_scope(c, c.old, c.args["triple_or_quad"], None)
        return z3.And(wf(c), ok)
    M.add(Contract("C02", REL, "ConjunctiveGraph.quads", [Param("triple_or_quad", None, make=toq_arg(True))],
                   self_ty=CG, pre=quads_pre,
                   gen=GenSpec(QUADN, quads_member, distinct=True, complete=True, abstract=quads_abstract,
                               wrap=quads_wrap),
                   modifies=lambda c: ALLOC_MODS, allocates=True,
                   note="quads(pattern[, g]) yields exactly the asserted (triple, graph-name) pairs matching the "
                        "pattern - only those of g when a graph is given - each once"))

    def len_post(c):
        t = z3.Const("len_t", TripleSort)
        s = sid(c.old, c.self.z)
        return c.path.inject(INT, c.result) == tcard(z3.Lambda([t], in_union(c.old, s, t)))
    M.add(Contract("C02", REL, "ConjunctiveGraph.__len__", [], ret=INT, self_ty=CG, pre=wf, post=len_post, modifies=[],
                   note="len = cardinality of the union of all graphs"))

    def rc_post(c):
        st0, st1 = c.old, c.new
        s = sid(st0, c.self.z)
        t = z3.Const("q_t", TripleSort)
        n = z3.Const("q_n", TermSort)
        n0 = gidz(st0, c.args["context"].z)
        return z3.ForAll([t, n], G_of(st1, s)[t][n] == z3.And(G_of(st0, s)[t][n], n != n0))
    M.add(Contract("C02", REL, "ConjunctiveGraph.remove_context", [Param("context", GRAPH)], self_ty=CG,
                   pre=lambda c: z3.And(wf(c), graph_ok(c.old, c.args["context"].z)), post=rc_post, modifies=FRAME,
                   note="empties that graph only"))
    # ================================================================== Dataset
    M.globals["_SKOLEM_DEFAULT_AUTHORITY"] = "https://rdflib.github.io"
    M.globals["rdflib_skolem_genid"] = "/.well-known/genid/rdflib/"
    M.globals["warnings"] = None

    base_getattr2 = M.getattr

    def getattr3(it, obj, name, node):
        if isinstance(obj, SV) and obj.ty.sort() == TermSort and name == "skolemize":
            def sk(it2, o, a, k):
                # BNode().skolemize(): an IRI derived from a fresh blank node id - a fresh, truthy IRI
                p = it2.path
                u = z3.Const(p.fresh_name("skolem_iri"), TermSort)
                p.assume(kind(u) == K_URIREF)
                p.assume(term_truthy(u))
                M.assume_fresh_term(it2, u)
                return SV(TERM, u)
            from pyvc.interp import BoundMethod
            return BoundMethod(obj, name, sk)
        return base_getattr2(it, obj, name, node)
    M.getattr = getattr3
    M.globals["BNode"].construct = lambda it, a, k: M.fresh_bnode(it)
    M.assumptions.append("BNode() / BNode().skolemize() yield terms that occur nowhere in any store (freshness, A3)")

    def super_method(it, selfv, cur_cls, name):
        # super(Dataset, self).m  ->  ConjunctiveGraph.m ; super(ConjunctiveGraph, self).m -> Graph.m
        parent = {"Dataset": "ConjunctiveGraph", "ConjunctiveGraph": "Graph"}[cur_cls]
        c = M.find_method_contract(parent, name)
        if c is None:
            raise Unsupported(f"super().{name}")
        return lambda it2, o, a, k, c=c: M.call_contract(it2, c, o, a, k)
    M.super_method = super_method

    def wfd(c):
        return wf(c, ds_only=True)

    def id_arg(path, interp):
        return ctx_arg(path, interp, "identifier")

    def same_store_arg_ok(c, v):
        if v is None:
            return z3.BoolVal(True)
        st = c.old
        if isinstance(v.ty, TObj):
            isds = z3.Or(F(st, "__dyn__", v.z) == DYN_CG, F(st, "__dyn__", v.z) == DYN_DS)
            return z3.And(sid(st, v.z) == sid(st, c.self.z), z3.Not(isds))
        return term_truthy(v.z)

    # ---- graph(identifier=None, base=None)
    def graph_post(c):
        st0, st1 = c.old, c.new
        s = sid(st0, c.self.z)
        v = c.args["identifier"]
        r = c.result.z
        name = gidz(st1, r)
        cl = [("returns-a-view-on-this-store", z3.And(graph_ok(st1, r), sid(st1, r) == s, F(st1, "__dyn__", r) == DYN_GRAPH)),
              ("graph-becomes-known-nothing-else", z3.And(K_of(st1, s) == z3.Store(K_of(st0, s), name, True),
                                                           G_of(st1, s) == G_of(st0, s))),
              ("others", z3.And(other_stores_unchanged(c), old_objects_unchanged(c)))]
        if v is not None:
            cl.append(("named-as-asked", name == name_of_ctx(c, st0, v)))
        else:
            cl.append(("fresh-name-for-anonymous-graph", z3.And(z3.Not(K_of(st0, s)[name]), kind(name) == K_URIREF)))
        return cl
    M.add(Contract("C02", REL, "Dataset.graph", [Param("identifier", None, make=id_arg, default=None),
                                                  Param("base", TOpt(STR), default=None)],
                   ret=GRAPH, self_ty=DS, pre=lambda c: z3.And(wfd(c), same_store_arg_ok(c, c.args["identifier"])),
                   post=graph_post, modifies=lambda c: ALLOC_MODS + FRAME(c), allocates=True,
                   note="graph(name) registers the name and returns a view; no quad changes; graph() mints a fresh name"))
    M.add(Contract("C17", REL, "Graph.bind", [Param("prefix", STR), Param("namespace", None),
                                               Param("override", BOOL, default=True), Param("replace", BOOL, default=False)],
                   self_ty=GRAPH, modifies=[], trusted=True, note="prefix bindings only (C17)"))

    # ---- remove_graph(g)
    def rg_post(c):
        st0, st1 = c.old, c.new
        s = sid(st0, c.self.z)
        v = c.args["g"]
        t = z3.Const("q_t", TripleSort)
        n = z3.Const("q_n", TermSort)
        d = gidz(st0, F(st0, "_default_context", c.self.z))
        n0 = name_of_ctx(c, st0, v)
        return [("empties-only-that-graph", z3.ForAll([t, n], G_of(st1, s)[t][n] == z3.And(G_of(st0, s)[t][n], n != n0))),
                ("forgets-only-that-graph-default-graph-stays",
                 z3.ForAll([n], K_of(st1, s)[n] == z3.If(n == n0, n0 == d, K_of(st0, s)[n]))),
                ("others", other_stores_unchanged(c))]

    def g_arg(path, interp):
        return ctx_arg(path, interp, "g", allow_none=False)
    M.add(Contract("C02", REL, "Dataset.remove_graph", [Param("g", None, make=g_arg)], ret=DS, self_ty=DS,
                   pre=lambda c: z3.And(wfd(c), same_store_arg_ok(c, c.args["g"]),
                                        K_of(c.old, sid(c.old, c.self.z))[gidz(c.old, F(c.old, "_default_context", c.self.z))]),
                   post=rg_post, modifies=lambda c: ALLOC_MODS + FRAME(c), allocates=True, ret_make=lambda c: c.self,
                   note="remove_graph(g) empties and forgets g only; the default graph is emptied but stays known"))

    # ---- graphs(triple=None)
    NAME1 = TERM

    def graphs_member(c, nz):
        st = c.old
        s = sid(st, c.self.z)
        tv = c.args["triple"]
        d = gidz(st, F(st, "_default_context", c.self.z))
        return z3.Or(nz == d, opt_case(c.path, TRIPLE, tv, K_of(st, s)[nz], lambda tz: G_of(st, s)[tz][nz]))

    def graphs_abstract(it, v):
        return it.path.get_field(v, "_Graph__identifier").z

    def graphs_inv(lc):
        c = lc.interp.callctx
        st = lc.st
        dflt = lc.path.inject(BOOL, lc.env["default"])
        g = z3.Const("inv_g", z3.IntSort())
        return z3.And(dflt == z3.Exists([g], z3.And(lc.done[g], gidz(c.old, g) == DEFAULT_ID)),
                      G_of(st, sid(c.old, c.self.z)) == G_of(c.old, sid(c.old, c.self.z)),
                      K_of(st, sid(c.old, c.self.z)) == K_of(c.old, sid(c.old, c.self.z)),
                      old_objects_unchanged(c, st), st.alloc == c.old.alloc)
    M.add(Contract("C02", REL, "Dataset.graphs", [Param("triple", TOpt(TRIPLE), default=None)], self_ty=DS,
                   pre=lambda c: z3.And(wfd(c), store_inv(c)),
                   gen=GenSpec(NAME1, graphs_member, distinct=True, complete=False, abstract=graphs_abstract),
                   modifies=lambda c: ALLOC_MODS + FRAME(c), allocates=True,
                   loops={0: LoopSpec(graphs_inv, var_types={"c": GRAPH, "default": BOOL},
                                      fingerprint="super(Dataset, self).contexts(triple)")},
                   note="graphs(): every listed graph is a known graph (or the default graph), none is listed twice "
                        "(proved); that every known graph is listed is left to the bounded stand-in (completeness "
                        "through an invariant loop with allocating callees is outside the VC generator's reach)"))

    def store_inv(c):
        """one stored graph object per known name (what Store.contexts yields)"""
        st, s = c.old, sid(c.old, c.self.z)
        n = z3.Const("si_n", TermSort)
        o = ctxobj(s, n)
        return z3.ForAll([n], z3.Implies(K_of(st, s)[n], z3.And(
            o > 0, o < st.alloc, sid(st, o) == s, gidz(st, o) == n, F(st, "__dyn__", o) == DYN_GRAPH)))

    # ---- quads(quad=None)
    def dq_member(c, z):
        toq = c.args["quad"]
        st = c.old
        s = sid(st, c.self.z)
        ot = option_sort(TermSort)
        tz = TRIPLE.mk(QUADN.proj(0, z), QUADN.proj(1, z), QUADN.proj(2, z))
        nz = QUADN.proj(3, z)
        pat = (None, None, None) if toq is None else toq[:3]
        eff = toq[3] if (toq is not None and len(toq) == 4) else None
        inscope = z3.BoolVal(True) if eff is None else ot.get(nz) == name_of_ctx(c, st, eff)
        return z3.And(match_triple(pat, tz), ot.is_some(nz), G_of(st, s)[tz][ot.get(nz)], inscope)

    def dq_pre(c):
        scope, ok = read_scope_ds(c)
        return z3.And(wfd(c), ok)

    def read_scope_ds(c):
        return read_scope(c, c.old, c.args["quad"], None)
    M.add(Contract("C02", REL, "Dataset.quads", [Param("quad", None, make=toq_arg(True))], self_ty=DS, pre=dq_pre,
                   gen=GenSpec(QUADN, dq_member, distinct=True, complete=False),
                   modifies=lambda c: ALLOC_MODS, allocates=True,
                   note="Dataset.quads yields only asserted (s,p,o,graph name) tuples matching the pattern, each once "
                        "(proved); completeness is inherited from ConjunctiveGraph.quads (proved there) through a "
                        "one-to-one relabelling loop and is otherwise left to the bounded stand-in"))
    return M
