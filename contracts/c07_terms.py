"""C07 (identity laws): Identifier/Literal __eq__, __hash__, ordering of non-literals.

Term objects are heap objects with ghost fields  kind (BNode/Variable/URIRef/Literal), text (the str value),
and for literals _language / _datatype.  Each real method is proved equal to a mathematical spec function;
the laws (equivalence relation, hash coherence, strict total order) are lemmas over the spec functions.
"""
from __future__ import annotations

import ast
import z3

from pyvc.core import (BOOL, INT, STR, SV, TObj, TOpt, TUn, Unsupported, declare_class, option_sort, PyExc)
from pyvc.interp import Builtin, ClassRef, BoundMethod, _zb
from pyvc.model import Contract, Model, Param
from pyvc.source import load_module

REL = "rdflib/term.py"
KindSort, (KB, KV, KU, KL) = z3.EnumSort("TermKind", ["K_BNode", "K_Variable", "K_URIRef", "K_Literal"])
KIND = TUn("TermKind")
KIND.sort = lambda: KindSort
TERMO = TObj("TermObj")
hash_str = z3.Function("hash_of_str", z3.StringSort(), z3.IntSort())
bxor = z3.Function("int_xor", z3.IntSort(), z3.IntSort(), z3.IntSort())
lower = z3.Function("str_lower", z3.StringSort(), z3.StringSort())
ordering_of = z3.Function("ORDERING_of_kind", KindSort, z3.IntSort())


def read_ordering_table():
    """_ORDERING.update({BNode: 10, Variable: 20, URIRef: 30, Literal: 40}) - read from the real source"""
    tree, src = load_module(REL)
    for n in ast.walk(tree):
        if isinstance(n, ast.Call) and isinstance(n.func, ast.Attribute) and n.func.attr == "update" and \
                isinstance(n.func.value, ast.Name) and n.func.value.id == "_ORDERING" and isinstance(n.args[0], ast.Dict):
            return {k.id: ast.literal_eval(v) for k, v in zip(n.args[0].keys, n.args[0].values)}
    raise KeyError("_ORDERING table not found")


class TermModel(Model):
    name = "c07_terms"

    def __init__(self):
        super().__init__()
        lit_truthy = z3.Function("literal_bool", z3.IntSort(), z3.BoolSort())

        def truthy(it, v):
            # URIRef/BNode/Variable are str subclasses: truthy iff non-empty; Literal.__bool__ looks at the value
            p = it.path
            k = p.get_field_z(v.z, "TermObj", "__kind__")
            return z3.If(k == KL, lit_truthy(v.z), z3.Length(p.get_field_z(v.z, "TermObj", "__text__")) > 0)
        declare_class("TermObj", fields={"__kind__": KIND, "__text__": STR, "_language": TOpt(STR),
                                         "_datatype": TOpt(TERMO)}, truthy=truthy)
        table = read_ordering_table()
        kmap = {"BNode": KB, "Variable": KV, "URIRef": KU, "Literal": KL}
        self.ordering_table = table
        for name, k in kmap.items():
            self.axioms.append(ordering_of(k) == table.get(name, 0))
        g = self.globals
        g["type"] = Builtin("type", self.b_type)
        g["hash"] = Builtin("hash", self.b_hash)
        g["_ORDERING"] = "ORDERING_TABLE"
        g["Node"] = ClassRef("Node")
        g["Literal"] = ClassRef("Literal")
        g["str"] = ClassRef("str", construct=lambda it, a, k: self.to_str(it, a[0]))
        g["NotImplemented"] = "NotImplemented"
        self.assumptions += [
            "str.__hash__ / hash() of a str is an uninterpreted function of the string; ^ on ints an uninterpreted "
            "function (only congruence is used); str.lower() uninterpreted",
            "`type(a) is type(b)` compares the kind tags (URIRef, BNode, Variable, Literal); subclasses such as Genid "
            "are outside the model (reported: _ORDERING is a defaultdict, unknown subclasses rank 0)",
            "_ORDERING table read from the real source: %r" % (table,),
        ]
        self.declare()

    # ---- python-level hooks
    def kind_of(self, it, v):
        return it.path.get_field_z(v.z, "TermObj", "__kind__")

    def b_type(self, it, a, k):
        v = a[0]
        if isinstance(v, SV) and isinstance(v.ty, TObj):
            return SV(KIND, self.kind_of(it, v))
        if v is None:
            return "NoneType"
        raise Unsupported("type() of non-term")

    def value_identity(self, it, a, b):
        if a.ty.sort() == KindSort:
            return a.z == b.z
        return NotImplemented

    def identical_hook(self, it, a, b):
        return NotImplemented

    def to_str(self, it, v):
        if isinstance(v, SV) and isinstance(v.ty, TObj) and v.ty.cls == "TermObj":
            return SV(STR, it.path.get_field_z(v.z, "TermObj", "__text__"))
        return super().to_str(it, v)

    def b_hash(self, it, a, k):
        v = a[0]
        if isinstance(v, SV) and v.ty.sort() == z3.StringSort():
            return SV(INT, hash_str(v.z))
        if isinstance(v, str):
            return SV(INT, hash_str(z3.StringVal(v)))
        if isinstance(v, SV) and isinstance(v.ty, TObj):
            # hash(datatype): a URIRef -> Identifier.__hash__ = str.__hash__
            return SV(INT, hash_str(it.path.get_field_z(v.z, "TermObj", "__text__")))
        raise Unsupported("hash()")

    def getattr(self, it, obj, name, node):
        if isinstance(obj, ClassRef) and obj.name == "str":
            if name == "__hash__":
                return Builtin("str.__hash__", lambda it2, a, k: SV(INT, hash_str(self.to_str(it2, a[0]).z)))
            if name == "__eq__":
                return Builtin("str.__eq__", lambda it2, a, k: SV(BOOL, self.to_str(it2, a[0]).z == self.to_str(it2, a[1]).z))
        if isinstance(obj, SV) and obj.ty.sort() == z3.StringSort() and name == "lower":
            return BoundMethod(obj, "lower", lambda it2, o, a, k: SV(STR, lower(o.z)))
        return NotImplemented

    def getitem(self, it, obj, key, node):
        if obj == "ORDERING_TABLE" and isinstance(key, SV) and key.ty.sort() == KindSort:
            return SV(INT, ordering_of(key.z))
        return NotImplemented

    def obj_isinstance(self, it, v, n):
        if isinstance(v.ty, TObj) and v.ty.cls == "TermObj":
            if n == "Node":
                return True
            if n == "Literal":
                return self.kind_of(it, v) == KL
        return NotImplemented

    def binop(self, it, op, a, b):
        if isinstance(op, ast.BitXor):
            p = it.path
            return SV(INT, bxor(p.inject(INT, a), p.inject(INT, b)))
        return NotImplemented

    def order_compare(self, it, op, a, b):
        isstr = lambda x: isinstance(x, str) or (isinstance(x, SV) and x.ty.sort() == z3.StringSort())
        if isstr(a) and isstr(b):
            za, zb = it.path.inject(STR, a), it.path.inject(STR, b)
            return {ast.Lt: za < zb, ast.LtE: za <= zb, ast.Gt: zb < za, ast.GtE: zb <= za}[type(op)]
        return NotImplemented

    def obj_eq(self, it, a, b):
        # `x == y` on term objects inside the verified code (e.g. self._datatype == other._datatype):
        # datatypes are URIRefs: Identifier.__eq__ = same kind and same text
        p = it.path
        return z3.And(self.kind_of(it, a) == self.kind_of(it, b),
                      p.get_field_z(a.z, "TermObj", "__text__") == p.get_field_z(b.z, "TermObj", "__text__"))

    def method(self, it, obj, name):
        if isinstance(obj, SV) and isinstance(obj.ty, TObj) and obj.ty.cls == "TermObj":
            # dynamic dispatch on a non-literal receiver (the callers' precondition fixes the kind)
            c = self.contracts.get(("Identifier", name))
            if c is not None:
                return lambda it2, o, a, k, c=c: self.call_contract(it2, c, o, a, k)
        return super().method(it, obj, name)

    # ---- spec functions over a state
    @staticmethod
    def fld(st, f, z):
        return st.field("TermObj", f, z)

    @classmethod
    def ident_eq(cls, st, a, b):
        return z3.And(cls.fld(st, "__kind__", a) == cls.fld(st, "__kind__", b),
                      cls.fld(st, "__text__", a) == cls.fld(st, "__text__", b))

    @classmethod
    def lit_eq(cls, st, a, b):
        os_ = option_sort(z3.StringSort())
        la, lb = cls.fld(st, "_language", a), cls.fld(st, "_language", b)

        def norm(l):
            # falsy language ('' or None) counts as no language
            return z3.If(z3.Or(os_.is_none(l), os_.get(l) == z3.StringVal("")), os_.none, os_.some(lower(os_.get(l))))
        da, db = cls.fld(st, "_datatype", a), cls.fld(st, "_datatype", b)
        dt_eq = z3.If(z3.Or(da == 0, db == 0), da == db, cls.ident_eq(st, da, db))
        return z3.And(cls.fld(st, "__kind__", b) == KL, dt_eq, norm(la) == norm(lb),
                      cls.fld(st, "__text__", a) == cls.fld(st, "__text__", b))

    def declare(self):
        M = self

        def wf(c, other_opt=True):
            st = c.old
            s = c.self.z
            cl = [s > 0, s < st.alloc]
            dt = M.fld(st, "_datatype", s)
            cl.append(z3.Or(dt == 0, z3.And(dt > 0, dt < st.alloc, M.fld(st, "__kind__", dt) == KU)))
            o = c.args.get("other")
            if o is not None and isinstance(o, SV):
                cl += [o.z > 0, o.z < st.alloc]
                do = M.fld(st, "_datatype", o.z)
                cl.append(z3.Or(do == 0, z3.And(do > 0, do < st.alloc, M.fld(st, "__kind__", do) == KU)))
            return z3.And(*cl)

        def other_arg(path, interp):
            if path.choose_n(2) == 0:
                return None
            return SV(TERMO, z3.Int("arg_other"))

        def nonlit(c):
            return z3.And(wf(c), M.fld(c.old, "__kind__", c.self.z) != KL)

        def islit(c):
            return z3.And(wf(c), M.fld(c.old, "__kind__", c.self.z) == KL)

        # Identifier.__eq__ / __ne__
        def ieq_post(c):
            o = c.args["other"]
            r = c.path.inject(BOOL, c.result)
            return r == (z3.BoolVal(False) if o is None else M.ident_eq(c.old, c.self.z, o.z))
        self.add(Contract("C07", REL, "Identifier.__eq__", [Param("other", None, make=other_arg)], ret=BOOL,
                          self_ty=TERMO, pre=nonlit, post=ieq_post, modifies=[],
                          note="IRI/blank node/variable equality: same kind and same text; never equal to None"))

        def ine_post(c):
            o = c.args["other"]
            r = c.path.inject(BOOL, c.result)
            return r == z3.Not(z3.BoolVal(False) if o is None else M.ident_eq(c.old, c.self.z, o.z))
        self.add(Contract("C07", REL, "Identifier.__ne__", [Param("other", None, make=other_arg)], ret=BOOL,
                          self_ty=TERMO, pre=nonlit, post=ine_post, modifies=[], note="!= is the negation of =="))

        # Literal.__eq__ / __hash__
        def leq_post(c):
            o = c.args["other"]
            r = c.path.inject(BOOL, c.result)
            if o is None:
                return r == z3.BoolVal(False)
            return r == z3.Or(c.self.z == o.z, M.lit_eq(c.old, c.self.z, o.z))
        self.add(Contract("C07", REL, "Literal.__eq__", [Param("other", None, make=other_arg)], ret=BOOL,
                          self_ty=TERMO, pre=islit, post=leq_post, modifies=[],
                          note="literal equality: other is a literal with equal lexical form, equal datatype and "
                               "case-insensitively equal language tag"))

        def lhash_spec(st, s):
            os_ = option_sort(z3.StringSort())
            l = M.fld(st, "_language", s)
            d = M.fld(st, "_datatype", s)
            h0 = hash_str(M.fld(st, "__text__", s))
            h1 = z3.If(z3.Or(os_.is_none(l), os_.get(l) == z3.StringVal("")), h0, bxor(h0, hash_str(lower(os_.get(l)))))
            return z3.If(d == 0, h1, bxor(h1, hash_str(M.fld(st, "__text__", d))))
        self.lhash_spec = lhash_spec
        self.add(Contract("C07", REL, "Literal.__hash__", [], ret=INT, self_ty=TERMO, pre=islit,
                          post=lambda c: c.path.inject(INT, c.result) == lhash_spec(c.old, c.self.z), modifies=[],
                          note="hash = hash(text) ^ hash(lower(language)) ^ hash(datatype text): uses exactly the "
                               "components equality compares, language lower-cased on both sides"))

        # ordering of non-literals
        def lt_spec(st, a, b):
            ka, kb = M.fld(st, "__kind__", a), M.fld(st, "__kind__", b)
            return z3.If(ka == kb, M.fld(st, "__text__", a) < M.fld(st, "__text__", b), ordering_of(ka) < ordering_of(kb))
        self.lt_spec = lt_spec

        def cmp_post(which):
            def post(c):
                o = c.args["other"]
                r = c.path.inject(BOOL, c.result)
                if o is None:
                    return r == z3.BoolVal(which == "gt")
                return r == (lt_spec(c.old, c.self.z, o.z) if which == "lt" else lt_spec(c.old, o.z, c.self.z))
            return post
        self.add(Contract("C07", REL, "Identifier.__lt__", [Param("other", None, make=other_arg)], ret=BOOL,
                          self_ty=TERMO, pre=nonlit, post=cmp_post("lt"), modifies=[],
                          note="a < b: same kind -> by text; different kinds -> by the kind ranking table"))
        self.add(Contract("C07", REL, "Identifier.__gt__", [Param("other", None, make=other_arg)], ret=BOOL,
                          self_ty=TERMO, pre=nonlit, post=cmp_post("gt"), modifies=[],
                          note="a > b  <=>  b < a (same two rules)"))


def lemmas():
    """Laws over the spec functions (no code involved): returned as (name, valid-formula) pairs."""
    M = TermModel()
    from pyvc.core import StateView
    st = StateView({}, {}, {}, {}, {}, z3.Int("alloc0"))
    a, b, c = z3.Ints("ta tb tc")
    F = M.fld
    out = []
    ie = lambda x, y: M.ident_eq(st, x, y)
    nl = lambda x: F(st, "__kind__", x) != KL
    out.append(("ident-eq-reflexive", ie(a, a)))
    out.append(("ident-eq-symmetric", ie(a, b) == ie(b, a)))
    out.append(("ident-eq-transitive", z3.Implies(z3.And(ie(a, b), ie(b, c)), ie(a, c))))
    out.append(("ident-eq-distinguishes-kinds", z3.Implies(F(st, "__kind__", a) != F(st, "__kind__", b), z3.Not(ie(a, b)))))
    out.append(("ident-eq-implies-hash-eq", z3.Implies(ie(a, b), hash_str(F(st, "__text__", a)) == hash_str(F(st, "__text__", b)))))
    isl = lambda x: z3.And(F(st, "__kind__", x) == KL,
                           z3.Or(F(st, "_datatype", x) == 0, F(st, "__kind__", F(st, "_datatype", x)) == KU))
    le = lambda x, y: z3.Or(x == y, M.lit_eq(st, x, y))
    out.append(("literal-eq-symmetric", z3.Implies(z3.And(isl(a), isl(b)), le(a, b) == le(b, a))))
    out.append(("literal-eq-transitive", z3.Implies(z3.And(isl(a), isl(b), isl(c), le(a, b), le(b, c)), le(a, c))))
    out.append(("literal-eq-implies-hash-eq", z3.Implies(z3.And(isl(a), isl(b), le(a, b)),
                                                         M.lhash_spec(st, a) == M.lhash_spec(st, b))))
    out.append(("literal-never-equals-non-literal", z3.Implies(z3.And(isl(a), nl(b)), z3.Not(le(a, b)))))
    lt = lambda x, y: M.lt_spec(st, x, y)
    mix = lambda x: z3.Or(F(st, "__kind__", x) == KU, F(st, "__kind__", x) == KB, F(st, "__kind__", x) == KV)
    out.append(("order-irreflexive", z3.Implies(mix(a), z3.Not(lt(a, a)))))
    out.append(("order-transitive", z3.Implies(z3.And(mix(a), mix(b), mix(c), lt(a, b), lt(b, c)), lt(a, c))))
    out.append(("order-total", z3.Implies(z3.And(mix(a), mix(b)), z3.Or(lt(a, b), lt(b, a), ie(a, b)))))
    out.append(("order-kinds-bnode<variable<iri", z3.And(ordering_of(KB) < ordering_of(KV), ordering_of(KV) < ordering_of(KU),
                                                          ordering_of(KU) < ordering_of(KL))))
    return M, out


def run(tier):
    """extra engine: discharge the lemmas"""
    M, ls = lemmas()
    res = {"obligations": 0, "discharged": 0, "undecided": [], "violations": [], "samples": []}
    for name, f in ls:
        s = z3.Solver()
        s.set("timeout", 20000)
        for ax in M.axioms:
            s.add(ax)
        s.add(z3.Not(f))
        r = s.check()
        res["obligations"] += 1
        if r == z3.unsat:
            res["discharged"] += 1
            if len(res["samples"]) < 3:
                res["samples"].append({"lemma": name, "status": "proved", "backend": "z3"})
        elif r == z3.sat:
            res["violations"].append({"key": f"lemma::{name}", "kind": "obligation",
                                      "message": f"term law {name} does not follow from the method contracts: {s.model()}"[:400]})
        else:
            res["undecided"].append(f"lemma {name}: {s.reason_unknown()}")
    return res


def build():
    return TermModel()
