"""C01/C02 (store level): the context-aware Memory store against its abstract view.

Abstract view of a store state:  Q(t, k)  "triple t is asserted in the context with key k"
(k ranges over context keys; the distinguished key None is the store's own union/default index).
Every public method is proved to preserve the representation invariant RI and to have exactly the
effect on Q that the mathematical set operation named in the property has.
"""
from __future__ import annotations

import z3

from pyvc.core import (card_fn, BOOL, INT, SV, StateView, TDict, TObj, TOpt, TSet, TTuple, TUn, declare_class,
                       option_sort, PyExc, Snapshot, SymIter)
from pyvc.interp import LoopSpec, _zb
from pyvc.model import Contract, GenSpec, Param
from contracts.rdfmodel import (RDFModel, TERM, TRIPLE, OTERM, TermSort, match_triple, tr_s, tr_p, tr_o,
                                kind, K_URIREF, K_BNODE)

REL = "rdflib/plugins/stores/memory.py"

# ---- sorts ---------------------------------------------------------------------
CKeySort = z3.DeclareSort("CKey")           # the strings "<ClassName>:<identifier>"
CKEY = TUn("CKey")
OCKEY = TOpt(CKEY)
CtxSort = z3.DeclareSort("Ctx")             # Graph objects used as contexts, up to Graph.__eq__
ctx_ident = z3.Function("ctx_ident", CtxSort, TermSort)
ckey_of = z3.Function("ckey_of", TermSort, CKeySort)   # "{}:{}".format(cls name, identifier)
ctx_len = z3.Function("ctx_len", CtxSort, z3.IntSort())  # abstract: only used for truthiness at graph level
CTX = TUn("Ctx")
OCTX = TOpt(CTX)

D3 = TDict(TERM, INT)
D2 = TDict(TERM, D3)
D1 = TDict(TERM, D2)
CTXD = TDict(OCKEY, BOOL)                   # per-triple context info: key -> quoted flag
TC = TDict(TRIPLE, CTXD)
CTSET = TSet(TRIPLE)
CT = TDict(OCKEY, CTSET)
OBJMAP = TDict(CKEY, CTX)
ALLCTX = TSet(CTX)

TripleSort = TRIPLE.sort()
OCK = option_sort(CKeySort)
NONEKEY = OCK.none


# witness-hint predicate for existentials over context keys (sound: any model with WIT == true
# gives back the plain clause; it only steers E-matching)
WIT = z3.Function("wit_ckey", CKeySort, z3.BoolSort())


set_card = z3.Function("set_card", z3.ArraySort(TRIPLE.sort(), z3.BoolSort()), z3.IntSort())


def somekey(k):
    return OCK.some(k)


class MemoryModel(RDFModel):
    name = "c01_memory"

    def __init__(self):
        super().__init__()
        declare_class("Store", fields={})
        declare_class("Memory", bases=("Store",), fields={
            "_Memory__spo": D1, "_Memory__pos": D1, "_Memory__osp": D1,
            "_Memory__tripleContexts": TC, "_Memory__contextTriples": CT,
            "_Memory__context_obj_map": OBJMAP, "_Memory__all_contexts": ALLCTX,
            "_Memory__defaultContexts": TOpt(CTXD),
            "graph_aware": BOOL, "context_aware": BOOL, "formula_aware": BOOL,
        })
        a, b = z3.Consts("ax_a ax_b", CtxSort)
        self.axioms.append(z3.ForAll([a, b], z3.Implies(ctx_ident(a) == ctx_ident(b), a == b)))
        t1, t2 = z3.Consts("ax_t1 ax_t2", TermSort)
        self.axioms.append(z3.ForAll([t1, t2], z3.Implies(ckey_of(t1) == ckey_of(t2), t1 == t2)))
        self.assumptions += [
            "Graph objects used as store contexts are identified up to Graph.__eq__/__hash__ (same identifier); "
            "sort Ctx with injective ctx_ident",
            "Memory.__ctx_to_str is modelled by its contract: key = injective function of the context's identifier "
            "('{}:{}'.format(class name, identifier)); contexts are Graph objects (the AttributeError/str branch "
            "is outside the model)",
            "A7: quoted=False (formula-aware use of the store excluded by precondition)",
            "Store.add's Dispatcher event path is treated as a no-op",
            "typing invariants of the declared private fields (e.g. inner index values are dicts)",
        ]
        from pyvc.interp import ClassRef
        self.globals["Store"] = ClassRef("Store")
        self.globals["ANY"] = None
        self.declare()

    # ------------------------------------------------------------------ views
    @staticmethod
    def F(st: StateView, fname, self_z):
        return st.field("Memory", "_Memory__" + fname, self_z)

    @classmethod
    def idx_has(cls, st, fname, self_z, a, b, c):
        """index[a][b][c] present"""
        o1, o2, o3 = option_sort(z3.IntSort()), option_sort(z3.IntSort()), option_sort(z3.IntSort())
        r1 = cls.F(st, fname, self_z)
        e1 = st.content(D1, r1)[a]
        r2 = o1.get(e1)
        e2 = st.content(D2, r2)[b]
        r3 = o2.get(e2)
        e3 = st.content(D3, r3)[c]
        return z3.And(o1.is_some(e1), o2.is_some(e2), o3.is_some(e3))

    @classmethod
    def spo_has(cls, st, self_z, t):
        return cls.idx_has(st, "spo", self_z, tr_s(t), tr_p(t), tr_o(t))

    @classmethod
    def ctxs_ref(cls, st, self_z, t):
        """reference of the context-info dict that applies to t (0 if none)"""
        oi = option_sort(z3.IntSort())
        tc = st.content(TC, cls.F(st, "tripleContexts", self_z))
        e = tc[t]
        return z3.If(oi.is_some(e), oi.get(e), cls.F(st, "defaultContexts", self_z))

    @classmethod
    def ctx_has(cls, st, self_z, t, k):
        """k (Option CKey) is a key of the context info of t"""
        ob = option_sort(z3.BoolSort())
        r = cls.ctxs_ref(st, self_z, t)
        return z3.And(r != 0, ob.is_some(st.content(CTXD, r)[k]))

    @classmethod
    def Q(cls, st, self_z, t, k):
        """abstract view: t asserted in context key k (k of sort Option CKey; none = union index)"""
        return z3.And(cls.spo_has(st, self_z, t), cls.ctx_has(st, self_z, t, k))

    @classmethod
    def ct_has(cls, st, self_z, t, k):
        """t in contextTriples[k]"""
        oi = option_sort(z3.IntSort())
        ct = st.content(CT, cls.F(st, "contextTriples", self_z))
        e = ct[k]
        return z3.And(oi.is_some(e), st.content(CTSET, oi.get(e))[t])

    @classmethod
    def RI(cls, st: StateView, self_z, except_t=None):
        """except_t: a triple whose context info is being taken apart (inside Memory.remove's loop body): the two
        R4 clauses are not claimed for it; everything else is."""
        oi = option_sort(z3.IntSort())
        ob = option_sort(z3.BoolSort())
        t = z3.Const("ri_t", TripleSort)
        t2 = z3.Const("ri_t2", TripleSort)
        k = z3.Const("ri_k", OCK)
        k2 = z3.Const("ri_k2", OCK)
        a, a2, b, b2 = z3.Consts("ri_a ri_a2 ri_b ri_b2", TermSort)
        alloc = st.alloc
        f = lambda n: cls.F(st, n, self_z)
        spo, pos, osp = f("spo"), f("pos"), f("osp")
        tcr, ctr, dflt = f("tripleContexts"), f("contextTriples"), f("defaultContexts")
        omr, acr = f("context_obj_map"), f("all_contexts")
        tc = st.content(TC, tcr)
        ct = st.content(CT, ctr)
        valid = lambda r: z3.And(r > 0, r < alloc)
        cl = []
        # top-level references are valid and distinct
        tops = [spo, pos, osp]
        cl.append(z3.And(*[valid(r) for r in tops + [tcr, ctr, omr, acr]]))
        cl.append(z3.Distinct(spo, pos, osp))
        cl.append(z3.Or(dflt == 0, valid(dflt)))
        # R5 ownership of the nested index dictionaries: level-2 refs are valid, differ per key and per index,
        # level-3 refs likewise (needed to frame the nested updates)
        def lvl2(idx, x):
            return oi.get(st.content(D1, idx)[x])

        def has2(idx, x):
            return oi.is_some(st.content(D1, idx)[x])

        def lvl3(idx, x, y):
            return oi.get(st.content(D2, lvl2(idx, x))[y])

        def has3(idx, x, y):
            return z3.And(has2(idx, x), oi.is_some(st.content(D2, lvl2(idx, x))[y]))
        for i in tops:
            cl.append(z3.ForAll([a], z3.Implies(has2(i, a), z3.And(valid(lvl2(i, a)), lvl2(i, a) != spo,
                                                                   lvl2(i, a) != pos, lvl2(i, a) != osp))))
            cl.append(z3.ForAll([a, b], z3.Implies(has3(i, a, b), valid(lvl3(i, a, b)))))
            for j in tops:
                cl.append(z3.ForAll([a, a2], z3.Implies(
                    z3.And(has2(i, a), has2(j, a2), z3.Or(a != a2, i != j) if not i.eq(j) else a != a2),
                    lvl2(i, a) != lvl2(j, a2))))
                cl.append(z3.ForAll([a, b, a2, b2], z3.Implies(
                    z3.And(has3(i, a, b), has3(j, a2, b2),
                           z3.Or(a != a2, b != b2) if i.eq(j) else z3.BoolVal(True)),
                    lvl3(i, a, b) != lvl3(j, a2, b2))))
        # R1 the three indexes hold the same triples
        sh = cls.idx_has(st, "spo", self_z, tr_s(t), tr_p(t), tr_o(t))
        ph = cls.idx_has(st, "pos", self_z, tr_p(t), tr_o(t), tr_s(t))
        oh = cls.idx_has(st, "osp", self_z, tr_o(t), tr_s(t), tr_p(t))
        cl.append(z3.ForAll([t], z3.And(sh == ph, sh == oh)))
        # context-info dictionaries: valid, owned (pairwise distinct, distinct from the default one)
        tce = lambda x: tc[x]
        cl.append(z3.ForAll([t], z3.Implies(oi.is_some(tce(t)), z3.And(valid(oi.get(tce(t))),
                                                                      oi.get(tce(t)) != dflt))))
        cl.append(z3.ForAll([t, t2], z3.Implies(z3.And(oi.is_some(tce(t)), oi.is_some(tce(t2)), t != t2),
                                                oi.get(tce(t)) != oi.get(tce(t2)))))
        # context info exists only for stored triples; a stored triple has context info
        cl.append(z3.ForAll([t], z3.Implies(oi.is_some(tce(t)), sh)))
        # the default context info is created by the first add and never dropped
        cl.append(z3.ForAll([t], z3.Implies(sh, dflt != 0)))
        # the default context info is {k_d: False, None: False} for one non-None key (never mutated)
        dk = z3.Const("ri_dk", CKeySort)
        dc = st.content(CTXD, dflt)
        cl.append(z3.Implies(dflt != 0, z3.And(
            ob.is_some(dc[NONEKEY]),
            z3.Exists([dk], z3.And(WIT(dk), ob.is_some(dc[somekey(dk)]),
                                   z3.ForAll([k], z3.Implies(ob.is_some(dc[k]),
                                                             z3.Or(k == NONEKEY, k == somekey(dk))))),
                      patterns=[WIT(dk)]))))
        # A7: nothing is quoted
        own = st.content(CTXD, oi.get(tce(t)))
        cl.append(z3.And(
            z3.ForAll([t, k], z3.Implies(z3.And(oi.is_some(tce(t)), ob.is_some(own[k])), own[k] == ob.some(False))),
            z3.Implies(dflt != 0, z3.ForAll([k], z3.Implies(ob.is_some(dc[k]), dc[k] == ob.some(False))))))
        # R2/R3 contextTriples is the transpose of the context info of stored triples
        cl.append(oi.is_some(ct[NONEKEY]))
        cl.append(z3.ForAll([k], z3.Implies(oi.is_some(ct[k]), valid(oi.get(ct[k])))))
        cl.append(z3.ForAll([k, k2], z3.Implies(z3.And(oi.is_some(ct[k]), oi.is_some(ct[k2]), k != k2),
                                                oi.get(ct[k]) != oi.get(ct[k2]))))
        cl.append(z3.ForAll([t, k], cls.ct_has(st, self_z, t, k) == cls.Q(st, self_z, t, k)))
        # R4 a stored triple is in the union index and in at least one real context, and conversely
        kk = z3.Const("ri_kk", CKeySort)
        shx = sh if except_t is None else z3.And(sh, t != except_t)
        cl.append(z3.ForAll([t], z3.Implies(shx, cls.Q(st, self_z, t, NONEKEY))))
        cl.append(z3.ForAll([t], z3.Implies(shx, z3.Exists([kk], cls.Q(st, self_z, t, somekey(kk))))))
        # context_obj_map: a key maps to a context object whose key it is
        om = st.content(OBJMAP, omr)
        oc = option_sort(CtxSort)
        ck = z3.Const("ri_ck", CKeySort)
        cl.append(z3.ForAll([ck], z3.Implies(oc.is_some(om[ck]), ckey_of(ctx_ident(oc.get(om[ck]))) == ck)))
        cl.append(z3.ForAll([t, ck], z3.Implies(cls.Q(st, self_z, t, somekey(ck)), oc.is_some(om[ck]))))
        cl.append(z3.Implies(dflt != 0, z3.ForAll([ck], z3.Implies(ob.is_some(dc[somekey(ck)]),
                                                                   oc.is_some(om[ck])))))
        return cl

    @classmethod
    def evolves(cls, old, new, self_z):
        """What every public mutator (add, remove, add_graph, remove_graph) guarantees about the index
        skeleton: level-1 and level-2 entries are never deleted and keep their dictionary objects."""
        oi = option_sort(z3.IntSort())
        a, b = z3.Consts("ev_a ev_b", TermSort)
        cl = []
        for n in ("spo", "pos", "osp"):
            r0, r1 = cls.F(old, n, self_z), cls.F(new, n, self_z)
            cl.append(r0 == r1)
            e0 = old.content(D1, r0)[a]
            e1 = new.content(D1, r1)[a]
            cl.append(z3.ForAll([a], z3.Implies(oi.is_some(e0), e1 == e0)))
            f0 = old.content(D2, oi.get(e0))[b]
            f1 = new.content(D2, oi.get(e0))[b]
            cl.append(z3.ForAll([a, b], z3.Implies(z3.And(oi.is_some(e0), oi.is_some(f0)), f1 == f0)))
        for n in ("tripleContexts", "contextTriples", "context_obj_map", "all_contexts"):
            cl.append(cls.F(old, n, self_z) == cls.F(new, n, self_z))
        # the default context info, once created, is never replaced nor mutated
        d0, d1 = cls.F(old, "defaultContexts", self_z), cls.F(new, "defaultContexts", self_z)
        cl.append(z3.Implies(d0 != 0, z3.And(d1 == d0, new.content(CTXD, d0) == old.content(CTXD, d0))))
        return z3.And(*cl)

    @classmethod
    def RIz(cls, st, self_z, except_t=None):
        return z3.And(*cls.RI(st, self_z, except_t))

    # ------------------------------------------------------------------ contracts
    def declare(self):
        M = self
        mem = TObj("Memory")
        ALLHEAP = [D1, D2, D3, TC, CTXD, CT, CTSET, OBJMAP, ALLCTX, ("Memory", "_Memory__defaultContexts")]

        def pre_ri(c):
            return M.RIz(c.old, c.self.z)

        def keyz(c, ctxv):
            """Option CKey of a runtime context value (None or SV Ctx)"""
            if ctxv is None:
                return NONEKEY
            if isinstance(ctxv.ty, TOpt):
                oc = option_sort(CtxSort)
                return z3.If(oc.is_none(ctxv.z), NONEKEY, somekey(ckey_of(ctx_ident(oc.get(ctxv.z)))))
            return somekey(ckey_of(ctx_ident(ctxv.z)))

        # ---- Store.add (events dispatcher): no-op
        self.add(Contract("C01", "rdflib/store.py", "Store.add",
                          [Param("triple", TRIPLE), Param("context", OCTX), Param("quoted", BOOL, default=False)],
                          cls="Store", modifies=[], trusted=True,
                          note="Dispatcher event path treated as a no-op"))

        # ---- __ctx_to_str: trusted model of the string key
        def c2s_post(c):
            om0 = c.old.content(OBJMAP, M.F(c.old, "context_obj_map", c.self.z))
            om1 = c.new.content(OBJMAP, M.F(c.new, "context_obj_map", c.self.z))
            oc = option_sort(CtxSort)
            ctxv = c.args["ctx"]
            if ctxv is None:
                return z3.And(om1 == om0, M.is_none_result(c))
            k = ckey_of(ctx_ident(ctxv.z))
            return z3.And(c.result.z == k, om1 == z3.Store(om0, k, oc.some(ctxv.z)))

        def c2s_ret(c):
            if c.args["ctx"] is None:
                return None
            return c.path.fresh_sv(CKEY, "ckey")
        self.add(Contract("C01", REL, "Memory.__ctx_to_str", [Param("ctx", OCTX)], ret=OCKEY, ret_make=c2s_ret,
                          self_ty=mem, post=c2s_post,
                          modifies=lambda c: [] if c.args["ctx"] is None else
                          [(OBJMAP, M.F(c.old, "context_obj_map", c.self.z))], trusted=True,
                          note="'{}:{}'.format(class name, identifier) is an injective key of the identifier; "
                               "records ctx in context_obj_map (string formatting + AttributeError dispatch outside "
                               "the subset; bounded stand-in only)"))

        # ---- __add_triple_context: executed inline from its real source inside add (it runs on the
        # intermediate state in which only the spo index holds the new triple)
        self.add(Contract("C01", REL, "Memory.__add_triple_context",
                          [Param("triple", TRIPLE), Param("triple_exists", BOOL), Param("context", OCTX),
                           Param("quoted", BOOL)], self_ty=mem, inline=True))

        # ---- add
        def add_pre(c):
            q = c.path.inject(BOOL, c.args["quoted"])
            return z3.And(M.RIz(c.old, c.self.z), z3.Not(q), c.args["context"] is not None)

        def add_post(c):
            st0, st1, s = c.old, c.new, c.self.z
            t0 = c.path.inject(TRIPLE, c.args["triple"])
            k0 = keyz(c, c.args["context"])
            t = z3.Const("q_t", TripleSort)
            k = z3.Const("q_k", OCK)
            eff = z3.ForAll([t, k], M.Q(st1, s, t, k) == z3.Or(
                M.Q(st0, s, t, k), z3.And(t == t0, z3.Or(k == k0, k == NONEKEY))))
            ac0 = st0.content(ALLCTX, M.F(st0, "all_contexts", s))
            ac1 = st1.content(ALLCTX, M.F(st1, "all_contexts", s))
            known = ac1 == z3.Store(ac0, c.args["context"].z, True)
            # witness hint for the existential in the default-context clause
            c.path.assume(WIT(ckey_of(ctx_ident(c.args["context"].z))))
            return [(f"RI[{i}]", f) for i, f in enumerate(M.RI(st1, s))] + [("effect-on-Q", eff),
                                                                            ("context-known", known)]
        self.add(Contract("C01", REL, "Memory.add",
                          [Param("triple", TRIPLE), Param("context", OCTX), Param("quoted", BOOL, default=False)],
                          self_ty=mem, pre=add_pre, post=add_post, modifies=ALLHEAP,
                          note="Q' = Q + {(t, key(context)), (t, union)}; context becomes known; RI preserved"))
        self.contracts[("Memory", "add")].split_bits = 5

        self.add(Contract("C01", REL, "Memory.__get_context_for_triple",
                          [Param("triple", TRIPLE), Param("skipQuoted", BOOL, default=False)],
                          self_ty=mem, inline=True))

        # ---- __triple_has_context(triple, ctx)
        def thc_pre(c):
            t0 = c.path.inject(TRIPLE, c.args["triple"])
            return z3.And(M.RIz(c.old, c.self.z), M.spo_has(c.old, c.self.z, t0))

        def thc_post(c):
            t0 = c.path.inject(TRIPLE, c.args["triple"])
            k0 = c.path.inject(OCKEY, c.args["ctx"])
            return c.path.inject(BOOL, c.result) == M.Q(c.old, c.self.z, t0, k0)
        self.add(Contract("C01", REL, "Memory.__triple_has_context",
                          [Param("triple", TRIPLE), Param("ctx", OCKEY)], ret=BOOL, self_ty=mem,
                          pre=pre_ri, post=thc_post, modifies=[],
                          note="true iff the triple is stored and asserted in the context with key ctx "
                               "(no precondition that the triple is stored: iteration under mutation asks "
                               "about triples that may have been removed meanwhile)"))

        # ---- __contexts(triple): generator of the context objects of a stored triple
        def cg_member_if_stored(c, z):
            """for a stored triple: exactly its graphs; for a triple that is no longer stored the result is
            the default context info's graphs (whatever they are): specified as such"""
            t0 = c.path.inject(TRIPLE, c.args["triple"])
            st, s_ = c.old, c.self.z
            om = st.content(OBJMAP, M.F(st, "context_obj_map", s_))
            kk = z3.Const("cg_k", CKeySort)
            oc = option_sort(CtxSort)
            ob = option_sort(z3.BoolSort())
            r = M.ctxs_ref(st, s_, t0)
            return z3.Exists([kk], z3.And(ob.is_some(st.content(CTXD, r)[somekey(kk)]),
                                          z3.If(oc.is_some(om[kk]), om[kk] == oc.some(z), z3.BoolVal(False))))

        def cg_member(c, z):
            t0 = c.path.inject(TRIPLE, c.args["triple"])
            om = c.old.content(OBJMAP, M.F(c.old, "context_obj_map", c.self.z))
            kk = z3.Const("cg_k", CKeySort)
            oc = option_sort(CtxSort)
            return z3.Exists([kk], z3.And(M.Q(c.old, c.self.z, t0, somekey(kk)), om[kk] == oc.some(z)))
        def cg_pre(c):
            # weakest precondition for "does not raise": some context info applies to the triple
            t0 = c.path.inject(TRIPLE, c.args["triple"])
            return z3.And(M.RIz(c.old, c.self.z), M.ctxs_ref(c.old, c.self.z, t0) != 0)
        self.add(Contract("C01", REL, "Memory.__contexts", [Param("triple", TRIPLE)], self_ty=mem,
                          pre=cg_pre, gen=GenSpec(CTX, cg_member_if_stored, distinct=True, complete=True),
                          modifies=[],
                          ret_make=None,
                          note="the context objects registered for the keys k != None with Q(t, k)"))
        self.contracts[("Memory", "_Memory__contexts")].returns_iter = True

        # ---- triples(pattern, context)
        def tr_member(c, z):
            return z3.And(match_triple(c.args["triple_pattern"], z),
                          M.Q(c.old, c.self.z, z, keyz(c, c.args["context"])))

        def tr_abstract(it, v):
            return it.path.inject(TRIPLE, v[0])

        def tr_extra(c, v):
            # the attached context generator enumerates exactly the graphs holding the triple
            cg = v[1]
            tz = c.path.inject(TRIPLE, v[0])
            x = z3.Const("cgx", CtxSort)
            om = c.old.content(OBJMAP, M.F(c.old, "context_obj_map", c.self.z))
            kk = z3.Const("cg_k2", CKeySort)
            oc = option_sort(CtxSort)
            spec = z3.Exists([kk], z3.And(M.Q(c.old, c.self.z, tz, somekey(kk)), om[kk] == oc.some(x)))
            from pyvc.core import SymIter as _SI
            if not isinstance(cg, _SI):
                return [("contexts-generator", z3.BoolVal(False))]
            return [("contexts-generator", z3.ForAll([x], cg.member(x) == spec))]

        def tr_objmap(c):
            # the only write: __ctx_to_str records the requested context object under its key
            s_ = c.self.z
            om0 = c.old.content(OBJMAP, M.F(c.old, "context_obj_map", s_))
            om1 = c.new.content(OBJMAP, M.F(c.new, "context_obj_map", s_))
            oc = option_sort(CtxSort)
            ctxv = c.args["context"]
            if ctxv is None:
                return om1 == om0
            if isinstance(ctxv.ty, TOpt):
                return om1 == z3.If(oc.is_none(ctxv.z), om0,
                                    z3.Store(om0, ckey_of(ctx_ident(oc.get(ctxv.z))), ctxv.z))
            return om1 == z3.Store(om0, ckey_of(ctx_ident(ctxv.z)), oc.some(ctxv.z))

        def tr_wrap(it2, c, elem):
            # what a caller sees: (triple, generator of context objects)
            tz = it2.path.inject(TRIPLE, elem)
            om = c.old.content(OBJMAP, M.F(c.old, "context_obj_map", c.self.z))
            oc = option_sort(CtxSort)

            def mem(x, tz=tz):
                kk = z3.Const(it2.path.fresh_name("cgk"), CKeySort)
                return z3.Exists([kk], z3.And(M.Q(c.old, c.self.z, tz, somekey(kk)), om[kk] == oc.some(x)))
            return (elem, SymIter(CTX, mem, True, label="contexts"))
        self.add(Contract("C01", REL, "Memory.triples",
                          [Param("triple_pattern", TTuple(OTERM, OTERM, OTERM, name="Pattern")),
                           Param("context", OCTX, default=None)],
                          self_ty=mem, pre=pre_ri, post=tr_objmap,
                          gen=GenSpec(TRIPLE, tr_member, distinct=True, abstract=tr_abstract, extra=tr_extra,
                                      wrap=tr_wrap),
                          modifies=[OBJMAP],
                          note="yields exactly the stored triples matching the pattern that are asserted in the "
                               "requested context (any context when None), each once, for all 8 pattern shapes; "
                               "the attached generator enumerates the triple's graphs"))

        # ---- triples under arbitrary interference between yields (C01 clause 2): any sequence of public
        # mutators may run while the generator is suspended.  Obligations: no exception, every yielded
        # triple matches and is in the requested graph at the moment it is yielded, and no live
        # dict/set is iterated across a yield.
        class TriplesInterference:
            def on_yield(self, it, cc, v, z, node):
                p = it.path
                now = p.snapshot_state()
                states = [cc.old] + p.ghost.get("__states__", []) + [now]
                k = keyz(cc, cc.args["context"])
                p.oblige(f"yield@{node.lineno}.matched-and-was-in-the-graph-since-iteration-began",
                         z3.And(match_triple(cc.args["triple_pattern"], z),
                                z3.Or(*[M.Q(st, cc.self.z, z, k) for st in states])),
                         it.where(node), "yield-sound")

            def after_yield(self, it, cc, node):
                p = it.path
                old = p.snapshot_state()
                for ty in (D1, D2, D3, TC, CTXD, CT, CTSET, OBJMAP, ALLCTX):
                    p.havoc_heap_type(ty, "interf")
                p.havoc_field("Memory", "_Memory__defaultContexts", "interf")
                a0 = p.alloc
                p.alloc = z3.Int(p.fresh_name("alloc"))
                p.assume(p.alloc >= a0)
                new = p.snapshot_state()
                # containers created by this invocation and never stored into the heap are out of reach of
                # the interfering operations
                for r in p.unescaped_locals():
                    p.assume(new.content(r.ty, r.z) == old.content(r.ty, r.z))
                p.ghost["__states__"] = p.ghost.get("__states__", []) + [old, new]
                p.assume(M.RIz(new, cc.self.z), "RI after interference")
                p.assume(M.evolves(old, new, cc.self.z), "Evolves: index dictionaries only gain keys and keep "
                                                         "their inner dictionary objects")
        ci = Contract("C01", REL, "Memory.triples",
                      [Param("triple_pattern", TTuple(OTERM, OTERM, OTERM, name="Pattern")),
                       Param("context", OCTX, default=None)],
                      self_ty=mem, pre=pre_ri,
                      gen=GenSpec(TRIPLE, tr_member, distinct=False, abstract=tr_abstract, complete=False),
                      modifies=[OBJMAP],
                      note="iteration under mutation: with the heap havocked at every yield (any public mutators "
                           "may have run) the generator never raises, never iterates a live container across a "
                           "yield, and yields only triples that match and are present when yielded")
        ci.interference = TriplesInterference()
        self.add(ci, variant="interference")


        # ---- remove(pattern, context): the loop consumes self.triples(...) lazily while deleting; the VC treats
        # the iteration as over the entry-state result (assumption recorded below), everything else is proved:
        # per-triple effect of the body (inner loop over the triple's context keys), RI, frame, Evolves.
        def rm_sel(c, k):
            ctxv = c.args["context"]
            if ctxv is None:
                return z3.BoolVal(True)
            return k == keyz(c, ctxv)

        def same_skeleton(a, b, s_):
            """what no step of remove's loops touches: known contexts, the per-context set objects"""
            return z3.And(
                M.evolves(a, b, s_), b.alloc >= a.alloc,
                b.content(ALLCTX, M.F(b, "all_contexts", s_)) == a.content(ALLCTX, M.F(a, "all_contexts", s_)),
                b.content(CT, M.F(b, "contextTriples", s_)) == a.content(CT, M.F(a, "contextTriples", s_)))

        def rm_outer_inv(lc):
            c = lc.interp.callctx
            st, s_ = lc.st, c.self.z
            st0 = c.old
            t = z3.Const("inv_t", TripleSort)
            kk = z3.Const("inv_kk", CKeySort)
            k = z3.Const("inv_k", OCK)
            return z3.And(
                M.RIz(st, s_),
                z3.ForAll([t, kk], M.Q(st, s_, t, somekey(kk)) ==
                          z3.And(M.Q(st0, s_, t, somekey(kk)), z3.Not(z3.And(lc.done[t], rm_sel(c, somekey(kk)))))),
                z3.ForAll([t, k], z3.Implies(z3.Not(lc.done[t]), M.Q(st, s_, t, k) == M.Q(st0, s_, t, k))),
                same_skeleton(st0, st, s_))

        def rm_inner_inv(lc):
            c = lc.interp.callctx
            st, s_ = lc.st, c.self.z
            fr = lc.outer[-1]
            sa, t0 = fr["state"], fr["x"]
            t = z3.Const("inv_t", TripleSort)
            k = z3.Const("inv_k", OCK)
            return z3.And(
                M.RIz(st, s_, except_t=t0), M.spo_has(st, s_, t0),
                z3.ForAll([k], M.ctx_has(st, s_, t0, k) ==
                          z3.And(M.ctx_has(sa, s_, t0, k), z3.Not(z3.And(lc.done[k], rm_sel(c, k))))),
                z3.ForAll([t, k], z3.Implies(t != t0, M.Q(st, s_, t, k) == M.Q(sa, s_, t, k))),
                same_skeleton(sa, st, s_))

        self.add(Contract("C01", REL, "Memory.__remove_triple_context",
                          [Param("triple", TRIPLE), Param("ctx", OCKEY)], self_ty=mem, inline=True))

        def rm_pre(c):
            ga = c.old.field("Memory", "graph_aware", c.self.z)
            return z3.And(M.RIz(c.old, c.self.z), ga)

        def rm_post(c):
            st0, st1, s_ = c.old, c.new, c.self.z
            t = z3.Const("q_t", TripleSort)
            kk = z3.Const("q_kk", CKeySort)
            pat = c.args["triple_pattern"]
            ctxv = c.args["context"]
            k0 = keyz(c, ctxv)
            eff = z3.ForAll([t, kk], M.Q(st1, s_, t, somekey(kk)) == z3.And(
                M.Q(st0, s_, t, somekey(kk)),
                z3.Not(z3.And(match_triple(pat, t), M.Q(st0, s_, t, k0), rm_sel(c, somekey(kk))))))
            ac0 = st0.content(ALLCTX, M.F(st0, "all_contexts", s_))
            ac1 = st1.content(ALLCTX, M.F(st1, "all_contexts", s_))
            return [(f"RI[{i}]", f) for i, f in enumerate(M.RI(st1, s_))] + [
                ("effect-on-Q", eff), ("known-contexts-unchanged", ac1 == ac0),
                ("evolves", M.evolves(st0, st1, s_))]

        def rm_pattern(path, interp):
            # the pattern is only handed on to self.triples and compared with (None, None, None): its three
            # components stay symbolic Optionals (no case split into the 8 shapes)
            return tuple(SV(OTERM, z3.Const("arg_pat_" + n, OTERM.sort())) for n in ("s", "p", "o"))
        rmc = Contract("C01", REL, "Memory.remove",
                       [Param("triple_pattern", None, make=rm_pattern),
                        Param("context", OCTX, default=None)],
                       self_ty=mem, pre=rm_pre, post=rm_post, modifies=ALLHEAP, allocates=True,
                       loops={0: LoopSpec(rm_outer_inv, modifies=[D3, TC, CTXD, CTSET], allocates=True,
                                          var_types={"triple": "poison", "c": "poison", "subject": "poison",
                                                     "predicate": "poison", "object_": "poison", "ctx": "poison",
                                                     "ctxs": "poison"},
                                          fingerprint="self.triples(triple_pattern, context=context)"),
                              1: LoopSpec(rm_inner_inv, modifies=[TC, CTXD, CTSET], allocates=True,
                                          var_types={"ctx": "poison"},
                                          fingerprint="self.__get_context_for_triple(triple)")},
                       note="Q'(t, k) = Q(t, k) minus the matching triples of the requested context (of every "
                            "context when None); the union index follows by RI; known contexts unchanged; RI and "
                            "Evolves preserved")
        self.add(rmc)
        self.contracts[("Memory", "remove")].split_bits = 4
        self.contracts[("Memory", "remove")].enum_split = 6
        self.assumptions.append(
            "Memory.remove consumes self.triples(...) lazily while its loop body deletes: the loop is verified as an "
            "iteration over the matching triples of the state at loop entry, each once (the contract of "
            "Memory.triples).  Justification, argued not mechanised: triples() copies every container it walks before "
            "yielding (proved: interference variant, no live container iterated across a yield) and the body "
            "deletes only entries of the triple just yielded, so later snapshots lose no pending triple")


        # ---- remove_graph(graph): remove((None, None, None), graph) by its contract, then forget the graph
        def rg_post(c):
            st0, st1, s_ = c.old, c.new, c.self.z
            t = z3.Const("q_t", TripleSort)
            kk = z3.Const("q_kk", CKeySort)
            k0 = ckey_of(ctx_ident(c.args["graph"].z))
            eff = z3.ForAll([t, kk], M.Q(st1, s_, t, somekey(kk)) == z3.And(M.Q(st0, s_, t, somekey(kk)), kk != k0))
            ac0 = st0.content(ALLCTX, M.F(st0, "all_contexts", s_))
            ac1 = st1.content(ALLCTX, M.F(st1, "all_contexts", s_))
            return [(f"RI[{i}]", f) for i, f in enumerate(M.RI(st1, s_))] + [
                ("effect-on-Q", eff), ("graph-forgotten-only", ac1 == z3.Store(ac0, c.args["graph"].z, False)),
                ("evolves", M.evolves(st0, st1, s_))]
        self.add(Contract("C02", REL, "Memory.remove_graph", [Param("graph", CTX)], self_ty=mem,
                          pre=rm_pre, post=rg_post, modifies=ALLHEAP, allocates=True,
                          note="empties that graph (its triples leave the union index when no other graph holds them) "
                               "and forgets it; every other graph and every other known name unchanged; RI preserved"))

        # ---- __len__(context)
        def len_post(c):
            # abstract cardinality: card is specified through the set it counts
            st, s = c.old, c.self.z
            k0 = keyz(c, c.args["context"])
            oi = option_sort(z3.IntSort())
            ct = st.content(CT, M.F(st, "contextTriples", s))
            present = oi.is_some(ct[k0])
            n = c.path.inject(INT, c.result)
            t = z3.Const("len_t", TripleSort)
            return z3.And(n >= 0,
                          (n == 0) == z3.Not(z3.Exists([t], M.Q(st, s, t, k0))),
                          z3.Implies(present, n == card_fn(CTSET.content_sort())(st.content(CTSET, oi.get(ct[k0])))))
        self.add(Contract("C01", REL, "Memory.__len__", [Param("context", OCTX, default=None)], ret=INT,
                          self_ty=mem, pre=pre_ri, post=len_post, modifies=[OBJMAP],
                          note="len = cardinality of {t | Q(t, key(context))} (cardinality of the per-context "
                               "index set, which RI identifies with that set)"))

        # ---- add_graph / contexts()
        def ag_post(c):
            st0, st1, s = c.old, c.new, c.self.z
            ac0 = st0.content(ALLCTX, M.F(st0, "all_contexts", s))
            ac1 = st1.content(ALLCTX, M.F(st1, "all_contexts", s))
            t = z3.Const("q_t", TripleSort)
            k = z3.Const("q_k", OCK)
            return [("graph-known", ac1 == z3.Store(ac0, c.args["graph"].z, True)),
                    ("Q-unchanged", z3.ForAll([t, k], M.Q(st1, s, t, k) == M.Q(st0, s, t, k)))] + \
                   [(f"RI[{i}]", f) for i, f in enumerate(M.RI(st1, s))]

        def ag_pre(c):
            ga = c.old.field("Memory", "graph_aware", c.self.z)
            return z3.And(M.RIz(c.old, c.self.z), ga)
        self.add(Contract("C02", REL, "Memory.add_graph", [Param("graph", CTX)], self_ty=mem,
                          pre=ag_pre, post=ag_post, modifies=[ALLCTX],
                          note="the graph becomes known; no triple changes"))

    @staticmethod
    def is_none_result(c):
        return z3.BoolVal(c.result is None)


def build():
    return MemoryModel()
