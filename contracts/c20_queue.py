"""C20 (edit-queue clause): SPARQLUpdateStore queues writes and sends them in order.

Ghost `sent`: the sequence of update requests handed to the endpoint (appended by the trusted contract of
_update).  Decided: with autocommit on every write is sent at once and the queue is empty afterwards; with
autocommit off writes accumulate in call order, commit() sends them joined in that order in ONE request and
empties the queue, rollback() discards exactly the queued ones, every read commits first unless dirty_reads.
The meaning of the generated SPARQL text at an endpoint is NOT decided by this technique.
"""
from __future__ import annotations

import z3

from pyvc.core import (BOOL, INT, STR, SV, TList, TObj, TOpt, TTuple, option_sort, Snapshot, SymIter, ConcreteSeq,
                       PyExc, Unsupported, declare_class, declare_exception)
from pyvc.interp import LoopSpec, _zb, Builtin, ClassRef, BoundMethod
from pyvc.model import Contract, GenSpec, Param
from contracts.rdfmodel import (RDFModel, TERM, TRIPLE, OTERM, TermSort, kind, K_BNODE, term_truthy)
from contracts.graphmodel import TGhost

REL = "rdflib/plugins/stores/sparqlstore.py"
EDITS = TList(STR)
SSEQ = z3.SeqSort(z3.StringSort())
SENT = TGhost("Sent", SSEQ, z3.Empty(SSEQ))
UST = TObj("SPARQLUpdateStore")
GRAPHO = TObj("GraphArg")
join_edits = z3.Function("join_with_semicolons", SSEQ, z3.StringSort())   # "\n;\n".join(edits)
n3_of = z3.Function("node_to_sparql_text", TermSort, z3.StringSort())
fmt2 = z3.Function("percent_format", z3.StringSort(), SSEQ, z3.StringSort())


class QueueModel(RDFModel):
    name = "c20_queue"

    def __init__(self):
        super().__init__()
        declare_class("SPARQLUpdateStore", fields={
            "_edits": TOpt(EDITS), "autocommit": BOOL, "dirty_reads": BOOL, "update_endpoint": TOpt(STR),
            "context_aware": BOOL, "graph_aware": BOOL, "_updates": INT})
        declare_class("GraphArg", fields={"identifier": TERM})
        self.globals["TYPE_CHECKING"] = False
        self.globals["Variable"] = ClassRef("Variable", construct=self.mk_variable)
        self.globals["DATASET_DEFAULT_GRAPH_ID"] = SV(TERM, z3.Const("DATASET_DEFAULT_GRAPH_ID", TermSort))
        self.assumptions += [
            "_update (HTTP request to the endpoint) is modelled by its ghost effect: sent' = sent + [text]",
            "node_to_sparql, '%'-formatting and str.join are uninterpreted functions of their arguments "
            "(the meaning of the generated text is not decided)",
            "SPARQLStore.query/triples/contexts/__len__ (the reads themselves) are external: they do not touch the queue",
        ]
        self.declare()

    def mk_variable(self, it, a, k):
        v = z3.Const(it.path.fresh_name("var"), TermSort)
        return SV(TERM, v)

    def str_format_percent(self, it, fmt, arg):
        p = it.path
        from pyvc.core import LazyContainer
        if isinstance(arg, LazyContainer) and arg.kind == "dict":
            arg = tuple(v for _, v in sorted(arg.items, key=lambda kv: str(kv[0])))
        args = arg if isinstance(arg, tuple) else (arg,)
        zs = [z3.Unit(p.inject(STR, self.to_str(it, a))) for a in args]
        seq = z3.Concat(*zs) if len(zs) > 1 else zs[0]
        return SV(STR, fmt2(z3.StringVal(fmt), seq))

    def getattr(self, it, obj, name, node):
        if isinstance(obj, SV) and isinstance(obj.ty, TObj) and obj.ty.cls == "SPARQLUpdateStore" and name == "node_to_sparql":
            def nts(it2, a, k):
                t = a[0]
                # _node_to_sparql raises for blank nodes (unsupported), otherwise n3()
                if it2.path.choose(kind(t.z) == K_BNODE):
                    raise PyExc("Exception", ("SPARQLStore does not support BNodes!",))
                return SV(STR, n3_of(t.z))
            return Builtin("node_to_sparql", nts)
        if isinstance(obj, str) and name == "join":
            def join(it2, o, a, k):
                v = it2.deref(a[0])
                if isinstance(v, SV) and isinstance(v.ty, TList):
                    return SV(STR, join_edits(it2.path.content(v)))
                raise Unsupported("str.join of non-list")
            return BoundMethod(obj, "join", join)
        return NotImplemented

    def declare(self):
        M = self
        OE = option_sort(z3.IntSort())

        def edits(st, c):
            """queue content as a sequence (None and [] are both 'nothing queued')"""
            r = st.field("SPARQLUpdateStore", "_edits", c.self.z)
            return z3.If(r == 0, z3.Empty(SSEQ), st.content(EDITS, r))

        def sent(st, c):
            return st.content(SENT, c.self.z)

        def wf(c):
            st = c.old
            r = st.field("SPARQLUpdateStore", "_edits", c.self.z)
            return z3.And(c.self.z > 0, c.self.z < st.alloc, z3.Or(r == 0, z3.And(r > 0, r < st.alloc)))

        def flush(seq_edits):
            """what commit sends for a queue"""
            return z3.If(z3.Length(seq_edits) == 0, z3.Empty(SSEQ), z3.Unit(join_edits(seq_edits)))

        MODS = lambda c: [(SENT, c.self.z), ("SPARQLUpdateStore", "_edits"), EDITS, ("SPARQLUpdateStore", "_updates")]

        # ---- _update: trusted ghost effect
        def upd_post(c):
            return sent(c.new, c) == z3.Concat(sent(c.old, c), z3.Unit(c.path.inject(STR, c.args["update"])))
        self.add(Contract("C20", REL, "SPARQLUpdateStore._update", [Param("update", STR)], self_ty=UST, post=upd_post,
                          modifies=lambda c: [(SENT, c.self.z), ("SPARQLUpdateStore", "_updates")], trusted=True,
                          note="sends one update request to the endpoint (ghost: appended to `sent`)"))
        self.add(Contract("C20", REL, "SPARQLStore._is_contextual", [Param("graph", None)], self_ty=UST, inline=True,
                          cls="SPARQLUpdateStore"))
        self.add(Contract("C20", REL, "SPARQLUpdateStore._transaction", [], self_ty=UST, inline=True))

        # ---- commit / rollback
        def commit_post(c):
            e0 = edits(c.old, c)
            return [("sent-in-one-request-in-order", sent(c.new, c) == z3.Concat(sent(c.old, c), flush(e0))),
                    ("queue-empty", z3.Length(edits(c.new, c)) == 0)]
        self.add(Contract("C20", REL, "SPARQLUpdateStore.commit", [], self_ty=UST, pre=wf, post=commit_post,
                          modifies=MODS,
                          note="commit sends all queued writes joined in call order in one request and empties the queue; "
                               "nothing is sent for an empty queue"))

        def rb_post(c):
            return [("nothing-sent", sent(c.new, c) == sent(c.old, c)), ("queue-empty", z3.Length(edits(c.new, c)) == 0)]
        self.add(Contract("C20", REL, "SPARQLUpdateStore.rollback", [], self_ty=UST, pre=wf, post=rb_post,
                          modifies=[("SPARQLUpdateStore", "_edits")],
                          note="rollback discards exactly the queued (unsent) writes"))

        # ---- writes
        def write_post(c):
            st0, st1 = c.old, c.new
            ac = st0.field("SPARQLUpdateStore", "autocommit", c.self.z)
            e0, e1 = edits(st0, c), edits(st1, c)
            q = z3.Const("queued_text", z3.StringSort())
            return [("queued-in-call-order-or-sent-at-once", z3.Exists([q], z3.If(
                ac,
                z3.And(z3.Length(e1) == 0, sent(st1, c) == z3.Concat(sent(st0, c), z3.Unit(join_edits(z3.Concat(e0, z3.Unit(q)))))),
                z3.And(e1 == z3.Concat(e0, z3.Unit(q)), sent(st1, c) == sent(st0, c)))))]

        def unchanged_on_raise(c):
            return z3.And(sent(c.new, c) == sent(c.old, c), edits(c.new, c) == edits(c.old, c))

        def graph_arg(path, interp):
            if path.choose_n(2) == 0:
                return None
            return SV(GRAPHO, z3.Int("arg_context"))
        self.add(Contract("C20", REL, "SPARQLUpdateStore.add",
                          [Param("spo", TRIPLE), Param("context", None, make=graph_arg), Param("quoted", BOOL, default=False)],
                          self_ty=UST, pre=lambda c: z3.And(wf(c), z3.Not(c.path.inject(BOOL, c.args["quoted"]))),
                          post=write_post, modifies=MODS,
                          raises={"Exception": lambda c: z3.BoolVal(True)}, on_raise_state=unchanged_on_raise,
                          note="add: exactly one write text is queued after the earlier ones (autocommit off) or the "
                               "queue incl. it is sent at once (autocommit on); when it raises (no update endpoint, "
                               "blank node) nothing is queued or sent"))
        PAT = TTuple(OTERM, OTERM, OTERM, name="Pattern")
        self.add(Contract("C20", REL, "SPARQLUpdateStore.remove",
                          [Param("spo", PAT), Param("context", None, make=graph_arg)],
                          self_ty=UST, pre=wf, post=write_post, modifies=MODS,
                          raises={"Exception": lambda c: z3.BoolVal(True)}, on_raise_state=unchanged_on_raise,
                          note="remove: same queue discipline; None components (and only None) become variables"))

        # ---- reads commit first unless dirty_reads
        def read_post(c):
            st0, st1 = c.old, c.new
            ac = st0.field("SPARQLUpdateStore", "autocommit", c.self.z)
            dr = st0.field("SPARQLUpdateStore", "dirty_reads", c.self.z)
            e0 = edits(st0, c)
            flushes = z3.And(z3.Not(ac), z3.Not(dr))
            return [("commits-before-reading-unless-dirty-reads",
                     z3.If(flushes,
                           z3.And(sent(st1, c) == z3.Concat(sent(st0, c), flush(e0)), z3.Length(edits(st1, c)) == 0),
                           z3.And(sent(st1, c) == sent(st0, c), edits(st1, c) == e0)))]
        ext = Contract("C20", REL, "SPARQLStore.__len__", [Param("a", None, default=None)], cls="SPARQLStore",
                       ret=INT, modifies=[], trusted=True, note="external read")
        self.add(ext)
        self.globals["SPARQLStore"] = ClassRef("SPARQLStore")
        self.add(Contract("C20", REL, "SPARQLUpdateStore.__len__", [], ret=INT, self_ty=UST, pre=wf, post=read_post,
                          modifies=MODS, note="len(): pending writes are committed first unless dirty_reads "
                                              "(query/triples/contexts have the same two-line prologue)"))
        # ---- add_graph / remove_graph go through update(), i.e. through the queue
        self.add(Contract("C20", REL, "SPARQLUpdateStore.update",
                          [Param("query", STR), Param("initNs", None, default=None), Param("initBindings", None, default=None),
                           Param("queryGraph", None, default=None), Param("DEBUG", BOOL, default=False)],
                          self_ty=UST, pre=wf, post=write_post, modifies=MODS, trusted=True,
                          note="update(text): the (rewritten) request text is queued after the earlier writes, or the queue "
                               "incl. it is sent at once under autocommit - ASSUMED (prefix / named-graph rewriting with "
                               "regular expressions is outside the subset); bounded stand-in only"))

        def ga(c):
            return z3.And(wf(c), c.old.field("SPARQLUpdateStore", "graph_aware", c.self.z))
        DEFAULT = self.globals["DATASET_DEFAULT_GRAPH_ID"].z

        def ag_post(c):
            st0, st1 = c.old, c.new
            ident = st0.field("GraphArg", "identifier", c.args["graph"].z)
            unchanged = z3.And(sent(st1, c) == sent(st0, c), edits(st1, c) == edits(st0, c))
            return [("default-graph-needs-no-create-others-go-through-the-queue",
                     z3.If(ident == DEFAULT, unchanged, z3.And(*[f for _, f in write_post(c)])))]
        self.add(Contract("C20", REL, "SPARQLUpdateStore.add_graph", [Param("graph", GRAPHO)], self_ty=UST, pre=ga,
                          post=ag_post, modifies=MODS,
                          raises={"Exception": lambda c: z3.BoolVal(True)}, on_raise_state=unchanged_on_raise,
                          note="add_graph: nothing for the default graph, otherwise exactly one write through the queue"))
        self.add(Contract("C20", REL, "SPARQLUpdateStore.remove_graph", [Param("graph", GRAPHO)], self_ty=UST, pre=ga,
                          post=write_post, modifies=MODS,
                          raises={"Exception": lambda c: z3.BoolVal(True)}, on_raise_state=unchanged_on_raise,
                          note="remove_graph: exactly one write (DROP) queued after the earlier ones (autocommit off) or the "
                               "queue incl. it sent at once (autocommit on) - never sent ahead of queued writes"))
        for nm in ("triples", "contexts", "query"):
            self.add(Contract("C20", REL, "SPARQLStore." + nm, [Param("a", None, default=None)], cls="SPARQLStore",
                              ret=INT, modifies=[], trusted=True, note="external read"))
            self.add(Contract("C20", REL, "SPARQLUpdateStore." + nm, [], ret=INT, self_ty=UST, pre=wf, post=read_post,
                              modifies=MODS, note=nm + "(): pending writes are committed first (one request, call order) "
                                                       "unless dirty_reads or autocommit; otherwise queue and endpoint "
                                                       "are left as they are"))


def build():
    return QueueModel()
