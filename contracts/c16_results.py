"""C16 (SPARQL JSON results, term level): termToJSON and parseJsonTerm against spec functions, and the round-trip lemma.

Terms are values of an algebraic datatype  uri(text) | bnode(text) | lit(text, datatype?, lang?)  (datatype as the
IRI text).  The constructors URIRef(s), BNode(s), Literal(s, datatype=, lang=) build exactly these values - for Literal
this is the assumption that re-creating a literal from its own lexical form, datatype and language gives an equal
literal (normalisation is idempotent: C09, bounded there).
  json_of(t)  = the dict termToJSON must return (keys type, value, datatype?, xml:lang?)
  term_of(d)  = the term parseJsonTerm must return
  lemma: for every term t, term_of(json_of(t)) = t   (z3, over the two contracts' spec functions)
"""
from __future__ import annotations

import z3

from pyvc.core import BOOL, INT, STR, SV, TDict, TObj, TOpt, TUn, option_sort, PyExc, Unsupported, declare_exception
from pyvc.interp import Builtin, ClassRef, BoundMethod, ExcValue
from pyvc.model import Contract, Model, Param

REL = "rdflib/plugins/sparql/results/jsonresults.py"
S = z3.StringSort()
OS = option_sort(S)
RT = z3.Datatype("RTerm")
RT.declare("uri", ("uri_text", S))
RT.declare("bnode", ("bnode_text", S))
RT.declare("lit", ("lit_text", S), ("lit_dt", OS), ("lit_lang", OS))
RT = RT.create()
RTERM = TUn("RTerm")
RTERM.sort = lambda: RT
ORT = option_sort(RT)
DSS = TDict(STR, STR)


def sv(x):
    return z3.StringVal(x)


def json_of(t):
    """the JSON object of a term as a map key -> optional string"""
    m = z3.K(S, OS.none)
    u = z3.Store(z3.Store(m, sv("type"), OS.some(sv("uri"))), sv("value"), OS.some(RT.uri_text(t)))
    b = z3.Store(z3.Store(m, sv("type"), OS.some(sv("bnode"))), sv("value"), OS.some(RT.bnode_text(t)))
    l0 = z3.Store(z3.Store(m, sv("type"), OS.some(sv("literal"))), sv("value"), OS.some(RT.lit_text(t)))
    l1 = z3.If(OS.is_some(RT.lit_dt(t)), z3.Store(l0, sv("datatype"), RT.lit_dt(t)), l0)
    l2 = z3.If(OS.is_some(RT.lit_lang(t)), z3.Store(l1, sv("xml:lang"), RT.lit_lang(t)), l1)
    return z3.If(RT.is_uri(t), u, z3.If(RT.is_bnode(t), b, l2))


def term_of(d):
    ty, val = OS.get(d[sv("type")]), OS.get(d[sv("value")])
    return z3.If(ty == sv("uri"), RT.uri(val),
                 z3.If(ty == sv("bnode"), RT.bnode(val),
                       z3.If(ty == sv("literal"), RT.lit(val, d[sv("datatype")], d[sv("xml:lang")]),
                             RT.lit(val, d[sv("datatype")], OS.none))))


class ResultsModel(Model):
    name = "c16_results"

    def __init__(self):
        super().__init__()
        g = self.globals
        declare_exception("ResultException", "Exception")
        declare_exception("NotImplementedError", "Exception")
        g["URIRef"] = ClassRef("URIRef", construct=lambda it, a, k: SV(RTERM, RT.uri(self.s(it, a[0]))))
        g["BNode"] = ClassRef("BNode", construct=lambda it, a, k: SV(RTERM, RT.bnode(self.s(it, a[0]))))
        g["Literal"] = ClassRef("Literal", construct=self.mk_literal)
        g["ResultException"] = ClassRef("ResultException", construct=lambda it, a, k: ExcValue("ResultException", tuple(a)))
        g["NotImplementedError"] = ClassRef("NotImplementedError", construct=lambda it, a, k: ExcValue("NotImplementedError", tuple(a)))
        g["str"] = ClassRef("str", construct=lambda it, a, k: self.to_str(it, a[0]))
        from pyvc.interp import ModuleNS
        g["XSD"] = ModuleNS("XSD", {"string": SV(RTERM, RT.uri(z3.StringVal("http://www.w3.org/2001/XMLSchema#string")))})
        self.assumptions += [
            "Literal(lex, datatype=dt, lang=l) is the literal with exactly that lexical form, datatype and language "
            "(re-creating a literal from its own parts is the identity: normalisation idempotent, bounded in C09)",
            "a datatype is represented by its IRI text; str() of a term is its text",
        ]
        self.declare()

    def s(self, it, v):
        if isinstance(v, str):
            return z3.StringVal(v)
        if isinstance(v, SV) and v.ty.sort() == S:
            return v.z
        if isinstance(v, SV) and v.ty.sort() == RT:
            return RT.uri_text(v.z)
        raise Unsupported("string expected")

    def opt_s(self, it, v):
        if v is None:
            return OS.none
        if isinstance(v, SV) and v.ty.sort() == OS:
            return v.z
        if isinstance(v, SV) and v.ty.sort() == ORT:
            return z3.If(ORT.is_some(v.z), OS.some(RT.uri_text(ORT.get(v.z))), OS.none)
        return OS.some(self.s(it, v))

    def mk_literal(self, it, a, k):
        return SV(RTERM, RT.lit(self.s(it, a[0]), self.opt_s(it, k.get("datatype")), self.opt_s(it, k.get("lang"))))

    def to_str(self, it, v):
        if isinstance(v, SV) and v.ty.sort() == RT:
            t = v.z
            return SV(STR, z3.If(RT.is_uri(t), RT.uri_text(t), z3.If(RT.is_bnode(t), RT.bnode_text(t), RT.lit_text(t))))
        if isinstance(v, SV) and v.ty.sort() == S:
            return v
        if isinstance(v, SV) and v.ty.sort() == OS:
            return SV(STR, z3.If(OS.is_some(v.z), OS.get(v.z), z3.StringVal("None")))
        if isinstance(v, SV) and v.ty.sort() == ORT:
            return SV(STR, z3.If(ORT.is_some(v.z), RT.uri_text(ORT.get(v.z)), z3.StringVal("None")))
        if isinstance(v, str):
            return v
        return super().to_str(it, v)

    def default_container_type(self, it, lz):
        return DSS if lz.kind == "dict" else None       # the JSON objects built here map str -> str

    def str_format_percent(self, it, fmt, arg):
        return SV(STR, z3.String(it.path.fresh_name("formatted")))      # message texts are not specified

    def b_isinstance_term(self, it, v, n):
        return None

    def obj_isinstance(self, it, v, n):
        return NotImplemented

    def isinstance1(self, it, v, c):
        if isinstance(v, SV) and v.ty.sort() == RT and isinstance(c, ClassRef) and c.name in ("URIRef", "BNode", "Literal"):
            return {"URIRef": RT.is_uri, "BNode": RT.is_bnode, "Literal": RT.is_lit}[c.name](v.z)
        if v is None and isinstance(c, ClassRef) and c.name in ("URIRef", "BNode", "Literal"):
            return False
        return super().isinstance1(it, v, c)

    def getattr(self, it, obj, name, node):
        if isinstance(obj, SV) and obj.ty.sort() == RT:
            if name == "datatype":      # a URIRef or None
                d = RT.lit_dt(obj.z)
                return SV(TOpt(RTERM), z3.If(OS.is_some(d), ORT.some(RT.uri(OS.get(d))), ORT.none))
            if name == "language":
                return SV(TOpt(STR), RT.lit_lang(obj.z))
        return NotImplemented

    def declare(self):
        def content(st, v):
            return st.content(DSS, v.z)

        def to_post(c):
            t = c.args["term"]
            if t is None:
                return [("none-stays-none", z3.BoolVal(c.result is None))]
            r = c.path.inject(DSS, c.result)          # (a dict literal is allocated when it is first typed)
            return [("json-object-of-the-term", c.path.snapshot_state().content(DSS, r) == json_of(t.z))]

        def term_make(path, interp):
            if path.choose(z3.Bool("term_is_none")):
                return None
            return SV(RTERM, z3.Const("arg_term", RT))
        self.add(Contract("C16", REL, "termToJSON", [Param("self", INT), Param("term", None, make=term_make)],
                          post=to_post, modifies=[], allocates=True,
                          note="termToJSON(t) = {type, value[, datatype][, xml:lang]} exactly as the SPARQL JSON format "
                               "prescribes; None (unbound) stays None"))

        def parse_pre(c):
            d = c.old.content(DSS, c.args["d"].z)
            ty = d[sv("type")]
            return z3.And(c.args["d"].z > 0, OS.is_some(ty), OS.is_some(d[sv("value")]),
                          z3.Implies(OS.get(ty) == sv("typed-literal"), OS.is_some(d[sv("datatype")])))

        def parse_post(c):
            d = c.old.content(DSS, c.args["d"].z)
            return [("term-of-the-json-object", c.result.z == term_of(d))]

        def parse_raises(c):
            d = c.old.content(DSS, c.args["d"].z)
            ty = OS.get(d[sv("type")])
            return z3.And(ty != sv("uri"), ty != sv("literal"), ty != sv("typed-literal"), ty != sv("bnode"))
        self.add(Contract("C16", REL, "parseJsonTerm", [Param("d", DSS)], ret=RTERM, pre=parse_pre, post=parse_post,
                          raises={"NotImplementedError": parse_raises}, modifies=[],
                          note="parseJsonTerm(d) = the term the JSON object denotes; unknown 'type' raises"))


def lemmas():
    t = z3.Const("t", RT)
    out = []
    s = z3.Solver()
    s.set("timeout", 20000)
    s.add(z3.Not(term_of(json_of(t)) == t))
    out.append(("json-round-trip: term_of(json_of(t)) == t for every term", s.check()))
    t1, t2 = z3.Consts("t1 t2", RT)
    s = z3.Solver()
    s.set("timeout", 20000)
    s.add(json_of(t1) == json_of(t2), t1 != t2)
    out.append(("json-injective: different terms have different JSON objects", s.check()))
    return out


def run(tier="quick"):
    res = {"obligations": 0, "discharged": 0, "finite": 0, "undecided": [], "violations": [], "samples": []}
    for name, r in lemmas():
        res["obligations"] += 1
        if r == z3.unsat:
            res["discharged"] += 1
        elif r == z3.sat:
            res["violations"].append({"key": "lemma::" + name.split(":")[0], "kind": "obligation",
                                      "message": f"lemma fails: {name}"})
        else:
            res["undecided"].append(name)
    res["samples"].append({"lemma": "term_of(json_of(t)) == t", "solver": "z3", "result": "unsat (proved)"})
    return res


def build():
    return ResultsModel()
