"""C10 (ordering and addressing clauses): in DELETE/INSERT ... WHERE every deletion happens before any insertion; the
data operations write only to the graphs they address, and "outside GRAPH" means the real default graph.

Addressing (second half of this module): ghost sets `added_to` / `removed_from` / `cleared` record the graph objects
that receive `+=`, `-=` and `remove((None, None, None))`.
   real_default(ctx) = ctx.graph if it is a plain Graph, else ctx.dataset.default_context   (_defaultGraph, proved)
   INSERT DATA : no removal; adds only to real_default(ctx) and to get_context(g) for the graph names g of the request
   DELETE DATA : no addition; removes only from those graphs
   CLEAR g     : nothing added; exactly the graphs of _graphAll(ctx, g) are cleared (DEFAULT = real_default(ctx))
   ADD/COPY/MOVE src dst : nothing happens when both name the same graph; otherwise only dst receives triples, only dst
                 (COPY, MOVE) is cleared first


evalModify evaluates the WHERE clause once (evalPart is called exactly once, before any write) and then applies the
templates.  Ghost state:  `inserted` (has any `+=` on a graph happened) and `evaluated` (number of evalPart calls).
Obligations generated at the write sites of the real source:
  every  graph -= template-instance   requires  not inserted  and  evaluated == 1
  every  graph += template-instance   requires  evaluated == 1
What the instantiated templates contain (_fillTemplate), which graph object get_context returns and the set effect of
+= / -= (C01/C02 contracts) are not restated here; USING (which loads external documents) is excluded by precondition.
"""
from __future__ import annotations

import ast
import z3

from pyvc.core import BOOL, INT, STR, SV, TObj, TOpt, TTuple, Snapshot, declare_class
from pyvc.interp import LoopSpec, Builtin, ClassRef, BoundMethod
from pyvc.model import Contract, GenSpec, Model, Param

REL = "rdflib/plugins/sparql/update.py"
CTX, CV, GR, DS = TObj("QueryContext"), TObj("CompValue"), TObj("Graph"), TObj("Dataset")
sols_of = z3.Function("solutions_of_where", z3.IntSort(), z3.IntSort(), z3.ArraySort(z3.IntSort(), z3.BoolSort()))
tmpl = z3.Function("filled_template", z3.IntSort(), z3.IntSort(), z3.IntSort())
ctx_of = z3.Function("get_context", z3.IntSort(), z3.IntSort(), z3.IntSort())
quads_of = z3.Function("template_quads", z3.IntSort(), z3.ArraySort(z3.IntSort(), z3.BoolSort()))
quad_tpl = z3.Function("quad_template_of_graph", z3.IntSort(), z3.IntSort(), z3.IntSort())
bound_graph = z3.Function("solution_get", z3.IntSort(), z3.IntSort(), z3.IntSort())
push_graph = z3.Function("pushGraph", z3.IntSort(), z3.IntSort(), z3.IntSort())
PAIR = TTuple(INT, INT, name="GraphAndTemplate")
ctx_of_name = z3.Function("get_context_by_designator", z3.IntSort(), z3.StringSort(), z3.IntSort())
gident = z3.Function("graph_identifier", z3.IntSort(), z3.IntSort())
SRCDST = TTuple(STR, STR, name="SourceAndTarget")
ds_contexts = z3.Function("dataset_contexts", z3.IntSort(), z3.ArraySort(z3.IntSort(), z3.BoolSort()))
STORE = TObj("Store")


class QuadsDict:
    """u.quads: graph name -> template; keys quads_of(cv), values quad_tpl(cv, key)"""

    def __init__(self, snap, cv, arr):
        self.snap, self.cv, self.arr = snap, cv, arr


class ModifyModel(Model):
    name = "c10_modify"

    def __init__(self):
        super().__init__()
        declare_class("QueryContext", fields={"graph": GR, "dataset": DS})
        declare_class("CompValue", fields={"using": BOOL, "withClause": TOpt(INT), "where": INT, "delete": TOpt(CV), "insert": TOpt(CV),
                                           "triples": INT, "graph": SRCDST, "graphiri": STR})
        declare_class("Graph", fields={"__plain__": BOOL})
        declare_class("Dataset", fields={"default_context": GR, "store": STORE})
        declare_class("Store", fields={"graph_aware": BOOL})
        g = self.globals
        g["Graph"] = ClassRef("Graph")
        g["evalPart"] = Builtin("evalPart", self.b_evalpart)
        g["_fillTemplate"] = Builtin("_fillTemplate", lambda it, a, k: SV(INT, tmpl(it.path.inject(INT, a[0]), a[1].z)))
        g["type"] = Builtin("type", lambda it, a, k: ("plain-graph-type", a[0]))
        self.assumptions += ["evalPart, _fillTemplate, Dataset.get_context, QueryContext.pushGraph, FrozenBindings.get are "
                             "external functions without effect on the graphs (frame: C13/C15 for evaluation)",
                             "USING is excluded (loads external documents)"]
        self.declare()

    def setup_path(self, path, interp, contract, selfv, args):
        super().setup_path(path, interp, contract, selfv, args)
        if contract.qualname != "evalModify":
            path.ghost["__addressing__"] = True
        path.ghost["inserted"] = z3.BoolVal(False)
        path.ghost["evaluated"] = z3.IntVal(0)
        for nm in ("added_to", "removed_from", "cleared"):
            path.ghost[nm] = z3.K(z3.IntSort(), z3.BoolVal(False))

    def havoc_ghost(self, it, name):
        if name in ("added_to", "removed_from", "cleared"):
            return z3.Const(it.path.fresh_name(name), z3.ArraySort(z3.IntSort(), z3.BoolSort()))
        return z3.Bool(it.path.fresh_name("inserted")) if name == "inserted" else z3.Int(it.path.fresh_name("evaluated"))

    def b_evalpart(self, it, a, k):
        p = it.path
        p.ghost["evaluated"] = p.ghost["evaluated"] + 1
        p.oblige("where-evaluated-before-any-write", z3.Not(p.ghost["inserted"]), "evalPart call", "ghost")
        arr = sols_of(a[0].z, p.inject(INT, a[1]))
        return Snapshot(INT, lambda z: arr[z], False)

    def identical_hook(self, it, a, b):
        # type(ctx.graph) is Graph
        if isinstance(a, tuple) and a and a[0] == "plain-graph-type" and isinstance(b, ClassRef) and b.name == "Graph":
            return it.path.get_field_z(a[1].z, "Graph", "__plain__")
        return NotImplemented

    def getattr(self, it, obj, name, node):
        p = it.path
        if isinstance(obj, SV) and isinstance(obj.ty, TObj):
            if obj.ty.cls == "Dataset" and name == "get_context":
                def get_context(it2, o, a, k):
                    if isinstance(a[0], str) or (isinstance(a[0], SV) and a[0].ty.sort() == z3.StringSort()):
                        return SV(GR, ctx_of_name(o.z, it2.path.inject(STR, a[0])))
                    return SV(GR, ctx_of(o.z, it2.path.inject(INT, a[0])))
                return BoundMethod(obj, name, get_context)
            if obj.ty.cls == "Dataset" and name == "contexts":
                arr = ds_contexts(obj.z)
                return BoundMethod(obj, name, lambda it2, o, a, k: Snapshot(GR, lambda z: arr[z], True))
            if obj.ty.cls == "Graph" and name == "identifier":
                return SV(INT, gident(obj.z))
            if obj.ty.cls == "Graph" and name == "remove":
                def gremove(it2, o, a, k):
                    it2.path.ghost["cleared"] = z3.Store(it2.path.ghost["cleared"], o.z, True)
                return BoundMethod(obj, name, gremove)
            if obj.ty.cls == "Store" and name == "remove_graph":
                def sremove(it2, o, a, k):
                    it2.path.ghost["cleared"] = z3.Store(it2.path.ghost["cleared"], a[0].z, True)
                return BoundMethod(obj, name, sremove)
            if obj.ty.cls == "QueryContext" and name == "pushGraph":
                def push(it2, o, a, k):
                    c2 = it2.path.new_ref(CTX)
                    it2.path.set_field(c2, "graph", a[0])
                    it2.path.set_field(c2, "dataset", it2.path.get_field(o, "dataset"))
                    return c2
                return BoundMethod(obj, name, push)
            if obj.ty.cls == "CompValue" and name == "quads":
                arr = quads_of(obj.z)
                cv = obj.z
                s = Snapshot(PAIR, lambda z: z3.And(arr[PAIR.proj(0, z)], PAIR.proj(1, z) == quad_tpl(cv, PAIR.proj(0, z))), True)
                return QuadsDict(s, cv, arr)
        if isinstance(obj, QuadsDict) and name == "items":
            return BoundMethod(None, "items", lambda it2, o, a, k: obj.snap)
        if isinstance(obj, SV) and obj.ty.sort() == z3.IntSort() and name == "get":     # a solution: c.get(g)
            return BoundMethod(obj, "get", lambda it2, o, a, k: SV(INT, bound_graph(o.z, it2.path.inject(INT, a[0]))))
        return NotImplemented

    def pure_getattr(self, it, obj, name, node):
        if isinstance(obj, SV) and isinstance(obj.ty, TObj) and obj.ty.cls == "Graph" and name == "identifier":
            return SV(INT, gident(obj.z))
        return super().pure_getattr(it, obj, name, node)

    def iter_descr(self, it, v):
        if isinstance(v, QuadsDict):
            from pyvc.interp import Interp
            arr = v.arr
            return Interp.IterDescr(INT, lambda z: arr[z], True)
        return None

    def getitem(self, it, obj, key, node):
        if isinstance(obj, QuadsDict):
            return SV(INT, quad_tpl(obj.cv, it.path.inject(INT, key)))
        return NotImplemented

    def inplace_op(self, it, op, cur, rhs):
        p = it.path
        if isinstance(cur, SV) and isinstance(cur.ty, TObj) and cur.ty.cls == "Graph":
            if p.ghost.get("__addressing__"):
                nm = "removed_from" if isinstance(op, ast.Sub) else "added_to"
                p.ghost[nm] = z3.Store(p.ghost[nm], cur.z, True)
                return cur
            if isinstance(op, ast.Sub):
                p.oblige("deletion-before-any-insertion", z3.Not(p.ghost["inserted"]), "graph -= template instance", "ghost")
                p.oblige("where-evaluated-once-before-deleting", p.ghost["evaluated"] == 1, "graph -= template instance", "ghost")
                return cur
            if isinstance(op, ast.Add):
                p.oblige("where-evaluated-once-before-inserting", p.ghost["evaluated"] == 1, "graph += template instance", "ghost")
                p.ghost["inserted"] = z3.BoolVal(True)
                return cur
        return NotImplemented

    def declare(self):
        def pre(c):
            st = c.old
            u, ctx = c.args["u"].z, c.args["ctx"].z
            return z3.And(u > 0, ctx > 0, z3.Not(st.field("CompValue", "using", u)),
                          st.field("QueryContext", "graph", ctx) > 0, st.field("QueryContext", "dataset", ctx) > 0)

        def no_insert_yet(lc):
            return z3.And(z3.Not(lc.path.ghost["inserted"]), lc.path.ghost["evaluated"] == 1)

        def evaluated_once(lc):
            return lc.path.ghost["evaluated"] == 1
        loops = {}
        # loop ordinals by source order; the loops that write are found by their header text
        self.loop_specs = {"delete": LoopSpec(no_insert_yet, modifies=["inserted", "evaluated"]),
                           "insert": LoopSpec(evaluated_once, modifies=["inserted", "evaluated"])}
        self.add(Contract("C10", REL, "evalModify", [Param("ctx", CTX), Param("u", CV)], pre=pre,
                          post=lambda c: [("where-evaluated-exactly-once", c.path.ghost["evaluated"] == 1)],
                          modifies=[], loops=self.find_loops(),
                          note="DELETE/INSERT: the WHERE clause is evaluated once, before any write; every deletion "
                               "precedes every insertion (all solutions' deletions first)"))
        self.declare_addressing()

    # ------------------------------------------------------------------ addressing contracts
    def declare_addressing(self):
        def real_default(st, ctx):
            g = st.field("QueryContext", "graph", ctx)
            ds = st.field("QueryContext", "dataset", ctx)
            return z3.If(st.field("Graph", "__plain__", g), g, st.field("Dataset", "default_context", ds))

        def ctx_pre(c):
            st, ctx = c.old, c.args["ctx"].z
            return z3.And(ctx > 0, st.field("QueryContext", "graph", ctx) > 0, st.field("QueryContext", "dataset", ctx) > 0,
                          st.field("Dataset", "default_context", st.field("QueryContext", "dataset", ctx)) > 0)

        def start(path, interp, contract, selfv, args):
            path.ghost["__addressing__"] = True
        self.addressing_start = start
        self.add(Contract("C10", REL, "_defaultGraph", [Param("ctx", CTX)], ret=GR, pre=ctx_pre,
                          post=lambda c: [("the-real-default-graph", c.result.z == real_default(c.old, c.args["ctx"].z))],
                          modifies=[], note="writes outside GRAPH address ctx.graph if it is a plain Graph, else the "
                                            "dataset's default graph - never the union"))

        self.func_contracts["_defaultGraph"].pure_value = lambda c: real_default(c.old, c.args["ctx"].z)

        # ---- _graphAll / CLEAR / DROP: which graphs a designator stands for
        def all_member(c, z):
            st, ctx, g = c.old, c.args["ctx"].z, c.args["g"].z
            ds = st.field("QueryContext", "dataset", ctx)
            rd = real_default(st, ctx)
            S = z3.StringVal
            return z3.If(g == S("DEFAULT"), z == rd,
                         z3.If(g == S("NAMED"), z3.And(ds_contexts(ds)[z], gident(z) != gident(rd)),
                               z3.If(g == S("ALL"), ds_contexts(ds)[z], z == ctx_of_name(ds, g))))
        self.add(Contract("C10", REL, "_graphAll", [Param("ctx", CTX), Param("g", STR)], pre=ctx_pre,
                          gen=GenSpec(GR, all_member, distinct=False, complete=True), modifies=[],
                          note="DEFAULT = the real default graph only; NAMED = every graph of the dataset except the real "
                               "default graph; ALL = every graph; otherwise the graph of that name"))

        def clear_post(c):
            st, ctx, u = c.old, c.args["ctx"].z, c.args["u"].z
            x = z3.Int("cl_x")
            ds = st.field("QueryContext", "dataset", ctx)
            rd = real_default(st, ctx)
            g = st.field("CompValue", "graphiri", u)
            S = z3.StringVal
            member = z3.If(g == S("DEFAULT"), x == rd,
                           z3.If(g == S("NAMED"), z3.And(ds_contexts(ds)[x], gident(x) != gident(rd)),
                                 z3.If(g == S("ALL"), ds_contexts(ds)[x], x == ctx_of_name(ds, g))))
            gh = c.path.ghost
            return [("clears-exactly-the-designated-graphs", z3.ForAll([x], gh["cleared"][x] == member)),
                    ("adds-nothing", z3.ForAll([x], z3.Not(gh["added_to"][x]))),
                    ("no-triple-wise-removal", z3.ForAll([x], z3.Not(gh["removed_from"][x])))]

        def clear_inv(lc):
            c = lc.interp.callctx
            x = z3.Int("ci_x")
            gh = lc.path.ghost
            return z3.And(z3.ForAll([x], gh["cleared"][x] == lc.done[x]), z3.ForAll([x], z3.Not(gh["added_to"][x])),
                          z3.ForAll([x], z3.Not(gh["removed_from"][x])))
        self.add(Contract("C10", REL, "evalClear", [Param("ctx", CTX), Param("u", CV)],
                          pre=lambda c: z3.And(ctx_pre(c), c.args["u"].z > 0), post=clear_post, modifies=[],
                          loops={0: LoopSpec(clear_inv, modifies=["cleared", "added_to", "removed_from"], var_types={"g": GR})},
                          note="CLEAR g: exactly the graphs g designates are emptied (CLEAR DEFAULT leaves every named graph alone)"))

        def god_post(c):
            st, ctx, g = c.old, c.args["ctx"].z, c.args["g"].z
            ds = st.field("QueryContext", "dataset", ctx)
            return [("default-or-named", c.result.z == z3.If(g == z3.StringVal("DEFAULT"), real_default(st, ctx), ctx_of_name(ds, g)))]
        self.add(Contract("C10", REL, "_graphOrDefault", [Param("ctx", CTX), Param("g", STR)], ret=GR, pre=ctx_pre, post=god_post,
                          modifies=[], note="DEFAULT designates the real default graph, anything else get_context(name)"))

        def allowed(c, x):
            st, ctx, u = c.old, c.args["ctx"].z, c.args["u"].z
            ds = st.field("QueryContext", "dataset", ctx)
            g = z3.Int("al_g")
            return z3.Or(x == real_default(st, ctx), z3.Exists([g], z3.And(quads_of(u)[g], x == ctx_of(ds, g))))

        def data_inv(which):
            def inv(lc):
                c = lc.interp.callctx
                x = z3.Int("di_x")
                other = "removed_from" if which == "added_to" else "added_to"
                return z3.And(lc.path.ghost[which][real_default(c.old, c.args["ctx"].z)],
                              z3.ForAll([x], z3.Implies(lc.path.ghost[which][x], allowed(c, x))),
                              z3.ForAll([x], z3.Not(lc.path.ghost[other][x])), z3.ForAll([x], z3.Not(lc.path.ghost["cleared"][x])))
            return inv

        def data_post(which):
            def post(c):
                x = z3.Int("dp_x")
                other = "removed_from" if which == "added_to" else "added_to"
                g = c.path.ghost
                return [("writes-only-to-the-addressed-graphs", z3.ForAll([x], z3.Implies(g[which][x], allowed(c, x)))),
                        ("the-default-graph-part-goes-to-the-real-default-graph", g[which][real_default(c.old, c.args["ctx"].z)]),
                        ("no-opposite-operation", z3.ForAll([x], z3.Not(g[other][x]))),
                        ("nothing-cleared", z3.ForAll([x], z3.Not(g["cleared"][x])))]
            return post
        vt = {"g": "poison", "cg": "poison"}
        for fn, which in (("evalInsertData", "added_to"), ("evalDeleteData", "removed_from")):
            self.add(Contract("C10", REL, fn, [Param("ctx", CTX), Param("u", CV)], pre=lambda c: z3.And(ctx_pre(c), c.args["u"].z > 0),
                              post=data_post(which), modifies=[],
                              loops={0: LoopSpec(data_inv(which), modifies=["added_to", "removed_from", "cleared"], var_types=vt)},
                              note=f"{fn}: only {'+=' if which == 'added_to' else '-='} on the real default graph and on "
                                   "get_context(name) for the request's graph names"))

        def amc_post(kind):
            def post(c):
                st, ctx, u = c.old, c.args["ctx"].z, c.args["u"].z
                ds = st.field("QueryContext", "dataset", ctx)
                sd = st.field("CompValue", "graph", u)

                def des(d):
                    return z3.If(d == z3.StringVal("DEFAULT"), real_default(st, ctx), ctx_of_name(ds, d))
                src, dst = des(SRCDST.proj(0, sd)), des(SRCDST.proj(1, sd))
                same = gident(src) == gident(dst)
                g = c.path.ghost
                x = z3.Int("am_x")
                empty = lambda arr: z3.ForAll([x], z3.Not(arr[x]))          # noqa: E731
                only = lambda arr, *els: z3.ForAll([x], arr[x] == z3.Or(*[x == e for e in els]))      # noqa: E731
                cleared = {"add": empty(g["cleared"]), "copy": only(g["cleared"], dst), "move": only(g["cleared"], dst, src)}[kind]
                return [("same-graph-is-a-no-op", z3.Implies(same, z3.And(empty(g["added_to"]), empty(g["cleared"])))),
                        ("only-the-target-receives-triples", z3.Implies(z3.Not(same), only(g["added_to"], dst))),
                        ("cleared-graphs", z3.Implies(z3.Not(same), cleared)),
                        ("no-triple-wise-removal", empty(g["removed_from"]))]
            return post
        for fn, kind in (("evalAdd", "add"), ("evalCopy", "copy"), ("evalMove", "move")):
            self.add(Contract("C10", REL, fn, [Param("ctx", CTX), Param("u", CV)], pre=lambda c: z3.And(ctx_pre(c), c.args["u"].z > 0),
                              post=amc_post(kind), modifies=[],
                              note=f"{fn.replace('eval', '').upper()} src dst: no-op on one graph; otherwise only dst receives triples"))

    def find_loops(self):
        """attach the invariants to the loops of the real source: a loop whose body (transitively) contains `-=` is a
        deleting loop, one that contains `+=` an inserting loop, one with both gets the deleting invariant (and fails
        if an insertion can precede a deletion)"""
        from pyvc.source import find_function
        fs = find_function(REL, "evalModify")
        out = {}
        k = 0
        for n in ast.walk(fs.node):
            pass
        loops = [n for n in ast.walk(fs.node) if isinstance(n, (ast.For, ast.While))]
        loops.sort(key=lambda n: (n.lineno, n.col_offset))
        for i, n in enumerate(loops):
            ops = {type(x.op) for x in ast.walk(n) if isinstance(x, ast.AugAssign)}
            from pyvc.interp import assigned_names
            vt = {nm: "poison" for nm in assigned_names(n.body) | assigned_names([n.target])}   # nothing is carried
            if "dg" in vt:
                vt["dg"] = GR         # `dg -= x` rebinds dg to the same graph object: some graph
            if ast.Sub in ops:
                out[i] = LoopSpec(self._inv_delete, modifies=["inserted", "evaluated"], var_types=vt)
            elif ast.Add in ops:
                out[i] = LoopSpec(self._inv_insert, modifies=["inserted", "evaluated"], var_types=vt)
        return out

    @staticmethod
    def _inv_delete(lc):
        return z3.And(z3.Not(lc.path.ghost["inserted"]), lc.path.ghost["evaluated"] == 1)

    @staticmethod
    def _inv_insert(lc):
        return lc.path.ghost["evaluated"] == 1


def build():
    return ModifyModel()
