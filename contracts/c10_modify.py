"""C10 (one clause): in DELETE/INSERT ... WHERE every deletion happens before any insertion.

evalModify evaluates the WHERE clause once (evalPart is called exactly once, before any write) and then applies the
templates.  Ghost state:  `inserted` (has any `+=` on a graph happened) and `evaluated` (number of evalPart calls).
Obligations generated at the write sites of the real source:
  every  graph -= template-instance   requires  not inserted  and  evaluated == 1
  every  graph += template-instance   requires  evaluated == 1
What the instantiated templates contain (_fillTemplate), which graph object get_context returns and the set effect of
+= / -= (C01/C02 contracts) are not restated here; USING (which loads external documents) is excluded by precondition.
"""
from __future__ import annotations

import ast
import z3

from pyvc.core import BOOL, INT, SV, TObj, TOpt, TTuple, Snapshot, declare_class
from pyvc.interp import LoopSpec, Builtin, ClassRef, BoundMethod
from pyvc.model import Contract, Model, Param

REL = "rdflib/plugins/sparql/update.py"
CTX, CV, GR, DS = TObj("QueryContext"), TObj("CompValue"), TObj("Graph"), TObj("Dataset")
sols_of = z3.Function("solutions_of_where", z3.IntSort(), z3.IntSort(), z3.ArraySort(z3.IntSort(), z3.BoolSort()))
tmpl = z3.Function("filled_template", z3.IntSort(), z3.IntSort(), z3.IntSort())
ctx_of = z3.Function("get_context", z3.IntSort(), z3.IntSort(), z3.IntSort())
quads_of = z3.Function("template_quads", z3.IntSort(), z3.ArraySort(z3.IntSort(), z3.BoolSort()))
quad_tpl = z3.Function("quad_template_of_graph", z3.IntSort(), z3.IntSort(), z3.IntSort())
bound_graph = z3.Function("solution_get", z3.IntSort(), z3.IntSort(), z3.IntSort())
push_graph = z3.Function("pushGraph", z3.IntSort(), z3.IntSort(), z3.IntSort())
PAIR = TTuple(INT, INT, name="GraphAndTemplate")


class ModifyModel(Model):
    name = "c10_modify"

    def __init__(self):
        super().__init__()
        declare_class("QueryContext", fields={"graph": GR, "dataset": DS})
        declare_class("CompValue", fields={"using": BOOL, "withClause": TOpt(INT), "where": INT, "delete": TOpt(CV), "insert": TOpt(CV),
                                           "triples": INT})
        declare_class("Graph", fields={"__plain__": BOOL})
        declare_class("Dataset", fields={"default_context": GR})
        g = self.globals
        g["Graph"] = ClassRef("Graph")
        g["evalPart"] = Builtin("evalPart", self.b_evalpart)
        g["_fillTemplate"] = Builtin("_fillTemplate", lambda it, a, k: SV(INT, tmpl(it.path.inject(INT, a[0]), a[1].z)))
        g["type"] = Builtin("type", lambda it, a, k: ("plain-graph-type", a[0]))
        self.assumptions += ["evalPart, _fillTemplate, Dataset.get_context, QueryContext.pushGraph, FrozenBindings.get are "
                             "external functions without effect on the graphs (frame: C13/C15 for evaluation)",
                             "USING is excluded (loads external documents)"]
        self.declare()

    def setup_path(self, path, interp, contract, selfv, args):
        super().setup_path(path, interp, contract, selfv, args)
        path.ghost["inserted"] = z3.BoolVal(False)
        path.ghost["evaluated"] = z3.IntVal(0)

    def havoc_ghost(self, it, name):
        return z3.Bool(it.path.fresh_name("inserted")) if name == "inserted" else z3.Int(it.path.fresh_name("evaluated"))

    def b_evalpart(self, it, a, k):
        p = it.path
        p.ghost["evaluated"] = p.ghost["evaluated"] + 1
        p.oblige("where-evaluated-before-any-write", z3.Not(p.ghost["inserted"]), "evalPart call", "ghost")
        arr = sols_of(a[0].z, p.inject(INT, a[1]))
        return Snapshot(INT, lambda z: arr[z], False)

    def identical_hook(self, it, a, b):
        # type(ctx.graph) is Graph
        if isinstance(a, tuple) and a and a[0] == "plain-graph-type" and isinstance(b, ClassRef) and b.name == "Graph":
            return it.path.get_field_z(a[1].z, "Graph", "__plain__")
        return NotImplemented

    def getattr(self, it, obj, name, node):
        p = it.path
        if isinstance(obj, SV) and isinstance(obj.ty, TObj):
            if obj.ty.cls == "Dataset" and name == "get_context":
                return BoundMethod(obj, name, lambda it2, o, a, k: SV(GR, ctx_of(o.z, it2.path.inject(INT, a[0]))))
            if obj.ty.cls == "QueryContext" and name == "pushGraph":
                def push(it2, o, a, k):
                    c2 = it2.path.new_ref(CTX)
                    it2.path.set_field(c2, "graph", a[0])
                    it2.path.set_field(c2, "dataset", it2.path.get_field(o, "dataset"))
                    return c2
                return BoundMethod(obj, name, push)
            if obj.ty.cls == "CompValue" and name == "quads":
                arr = quads_of(obj.z)
                cv = obj.z
                s = Snapshot(PAIR, lambda z: z3.And(arr[PAIR.proj(0, z)], PAIR.proj(1, z) == quad_tpl(cv, PAIR.proj(0, z))), True)
                return ("quads-dict", s)
        if isinstance(obj, tuple) and obj and obj[0] == "quads-dict" and name == "items":
            return BoundMethod(None, "items", lambda it2, o, a, k: obj[1])
        if isinstance(obj, SV) and obj.ty.sort() == z3.IntSort() and name == "get":     # a solution: c.get(g)
            return BoundMethod(obj, "get", lambda it2, o, a, k: SV(INT, bound_graph(o.z, it2.path.inject(INT, a[0]))))
        return NotImplemented

    def inplace_op(self, it, op, cur, rhs):
        p = it.path
        if isinstance(cur, SV) and isinstance(cur.ty, TObj) and cur.ty.cls == "Graph":
            if isinstance(op, ast.Sub):
                p.oblige("deletion-before-any-insertion", z3.Not(p.ghost["inserted"]), "graph -= template instance", "ghost")
                p.oblige("where-evaluated-once-before-deleting", p.ghost["evaluated"] == 1, "graph -= template instance", "ghost")
                return cur
            if isinstance(op, ast.Add):
                p.oblige("where-evaluated-once-before-inserting", p.ghost["evaluated"] == 1, "graph += template instance", "ghost")
                p.ghost["inserted"] = z3.BoolVal(True)
                return cur
        return NotImplemented

    def declare(self):
        def pre(c):
            st = c.old
            u, ctx = c.args["u"].z, c.args["ctx"].z
            return z3.And(u > 0, ctx > 0, z3.Not(st.field("CompValue", "using", u)),
                          st.field("QueryContext", "graph", ctx) > 0, st.field("QueryContext", "dataset", ctx) > 0)

        def no_insert_yet(lc):
            return z3.And(z3.Not(lc.path.ghost["inserted"]), lc.path.ghost["evaluated"] == 1)

        def evaluated_once(lc):
            return lc.path.ghost["evaluated"] == 1
        loops = {}
        # loop ordinals by source order; the loops that write are found by their header text
        self.loop_specs = {"delete": LoopSpec(no_insert_yet, modifies=["inserted", "evaluated"]),
                           "insert": LoopSpec(evaluated_once, modifies=["inserted", "evaluated"])}
        self.add(Contract("C10", REL, "evalModify", [Param("ctx", CTX), Param("u", CV)], pre=pre,
                          post=lambda c: [("where-evaluated-exactly-once", c.path.ghost["evaluated"] == 1)],
                          modifies=[], loops=self.find_loops(),
                          note="DELETE/INSERT: the WHERE clause is evaluated once, before any write; every deletion "
                               "precedes every insertion (all solutions' deletions first)"))

    def find_loops(self):
        """attach the invariants to the loops of the real source: a loop whose body (transitively) contains `-=` is a
        deleting loop, one that contains `+=` an inserting loop, one with both gets the deleting invariant (and fails
        if an insertion can precede a deletion)"""
        from pyvc.source import find_function
        fs = find_function(REL, "evalModify")
        out = {}
        k = 0
        for n in ast.walk(fs.node):
            pass
        loops = [n for n in ast.walk(fs.node) if isinstance(n, (ast.For, ast.While))]
        loops.sort(key=lambda n: (n.lineno, n.col_offset))
        for i, n in enumerate(loops):
            ops = {type(x.op) for x in ast.walk(n) if isinstance(x, ast.AugAssign)}
            from pyvc.interp import assigned_names
            vt = {nm: "poison" for nm in assigned_names(n.body) | assigned_names([n.target])}   # nothing is carried
            if "dg" in vt:
                vt["dg"] = GR         # `dg -= x` rebinds dg to the same graph object: some graph
            if ast.Sub in ops:
                out[i] = LoopSpec(self._inv_delete, modifies=["inserted", "evaluated"], var_types=vt)
            elif ast.Add in ops:
                out[i] = LoopSpec(self._inv_insert, modifies=["inserted", "evaluated"], var_types=vt)
        return out

    @staticmethod
    def _inv_delete(lc):
        return z3.And(z3.Not(lc.path.ghost["inserted"]), lc.path.ghost["evaluated"] == 1)

    @staticmethod
    def _inv_insert(lc):
        return lc.path.ghost["evaluated"] == 1


def build():
    return ModifyModel()
