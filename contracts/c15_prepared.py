"""C15 (prepared-query clause): the one accepted write into the algebra tree during evaluation - Expr.eval stores
self.ctx - is undone on every exit.  All other tree writes are excluded by the frame checker (tools/frame.py, tree mode)."""
from __future__ import annotations

import z3

from pyvc.core import BOOL, INT, SV, TObj, TOpt, declare_class, declare_exception, PyExc
from pyvc.interp import Builtin, ClassRef
from pyvc.model import Contract, Model, Param

REL = "rdflib/plugins/sparql/parserutils.py"
EXPR = TObj("Expr")
CTXO = TObj("EvalCtx")


class PreparedModel(Model):
    name = "c15_prepared"

    def __init__(self):
        super().__init__()
        declare_exception("SPARQLError", "Exception")
        declare_class("Expr", fields={"ctx": TOpt(CTXO), "name": INT})
        declare_class("EvalCtx", fields={})
        self.globals["SPARQLError"] = ClassRef("SPARQLError")
        self.assumptions.append("self._evalfn(ctx) is an arbitrary callee: it may return anything or raise SPARQLError / "
                                "any other exception, and does not assign self.ctx of this node (no re-entrant "
                                "evaluation of the same node)")
        M = self

        def getattr_(it, obj, name, node):
            if isinstance(obj, SV) and isinstance(obj.ty, TObj) and obj.ty.cls == "Expr" and name == "_evalfn":
                def evalfn(it2, a, k):
                    k_ = it2.path.choose_n(3)
                    if k_ == 1:
                        raise PyExc("SPARQLError", ("from evalfn",))
                    if k_ == 2:
                        raise PyExc("TypeError", ("from evalfn",))
                    return SV(INT, z3.Int(it2.path.fresh_name("evalresult")))
                return Builtin("_evalfn", evalfn)
            return NotImplemented
        self.getattr = getattr_

        def clean(c):
            st = c.new
            return st.field("Expr", "ctx", c.self.z) == 0
        self.add(Contract("C15", REL, "Expr.eval", [Param("ctx", CTXO)], ret=None, self_ty=EXPR,
                          pre=lambda c: z3.And(c.self.z > 0, c.args["ctx"].z > 0),
                          post=lambda c: [("ctx-cleared-on-return", clean(c))], modifies=[("Expr", "ctx")],
                          ret_make=lambda c: None,
                          raises={"Exception": lambda c: z3.BoolVal(True)}, on_raise_state=clean,
                          note="Expr.eval leaves no state on the tree node: self.ctx is None again on every exit, normal "
                               "or exceptional (SPARQLError is returned as a value, anything else propagates)"))


def build():
    return PreparedModel()
