"""C03 (list handling of the Turtle family): TurtleSerializer.isValidList terminates on every finite graph - also on
cyclic rdf:rest chains - and accepts exactly the well-formed lists.

Graph view used here: first(n), rest(n) (0 = no value), pcount(n) = number of (predicate, object) pairs of node n,
nfirst(n) / nrest(n) = number of rdf:first / rdf:rest values, refs(n) = how often n occurs as an object, bnode(n).
The rdf:rest chain from the argument is the ghost sequence  nth(0) = l, nth(k+1) = rest(nth(k));  R is its first stop
index (rdf:nil reached, chain broken, or a cell seen before).  R exists in every finite graph (pigeonhole) - assumed.
   isValidList(l)  <=>  first(l) exists  and  the chain reaches rdf:nil (nth(R) == rdf:nil)  and  every cell before R is a
                        blank node with exactly one rdf:first, exactly one rdf:rest and no other property, and every
                        cell after the head is referenced exactly once
(the condition under which writing the chain as ( ... ) loses, renames or duplicates nothing - taken from the property,
not from the code: the pre-fix code accepted any chain whose cells have two properties; see finding
C03-turtle-malformed-lists-abbreviated)
Termination: the loop index is bounded by R (variant R - i).  Ghost code: the iteration counter and the witness map
of `seen` advance at `seen.add(l_)`.
"""
from __future__ import annotations

import z3

from pyvc.core import BOOL, INT, SV, TObj, TOpt, TSet, declare_class
from pyvc.interp import LoopSpec, Builtin, BoundMethod, ModuleNS
from pyvc.model import Contract, Model, Param

REL = "rdflib/plugins/serializers/turtle.py"
NODE = TObj("Node")
ONODE = TOpt(NODE)
SER = TObj("TurtleSerializer")
first_of = z3.Function("graph_value_rdf_first", z3.IntSort(), z3.IntSort())
rest_of = z3.Function("graph_value_rdf_rest", z3.IntSort(), z3.IntSort())
pcount = z3.Function("number_of_predicate_objects", z3.IntSort(), z3.IntSort())
nfirst = z3.Function("number_of_rdf_first_values", z3.IntSort(), z3.IntSort())
nrest = z3.Function("number_of_rdf_rest_values", z3.IntSort(), z3.IntSort())
refs = z3.Function("times_referenced_as_object", z3.IntSort(), z3.IntSort())
is_bnode = z3.Function("is_blank_node", z3.IntSort(), z3.BoolSort())
nth = z3.Function("nth_cell_of_the_rest_chain", z3.IntSort(), z3.IntSort())
NIL = z3.Int("rdf_nil")
FIRSTP, RESTP = z3.Ints("rdf_first rdf_rest")
R = z3.Int("first_stop_index")
SEEN = TSet(NODE)


def stop(k, at_nil=True):
    """the chain stops at index k: broken, (for isValidList) rdf:nil reached, or a cell seen before"""
    j = z3.Int("stop_j")
    alts = [nth(k) == 0, z3.Exists([j], z3.And(0 <= j, j < k, nth(j) == nth(k)))]
    if at_nil:
        alts.append(nth(k) == NIL)
    return z3.Or(*alts)


def cell_ok(n, k):
    """what a cell at position k of the chain must look like for the ( ... ) form to be lossless"""
    return z3.And(is_bnode(n), z3.Implies(k > 0, refs(n) == 1), pcount(n) == 2, nfirst(n) == 1, nrest(n) == 1)


class ListModel(Model):
    name = "c03_lists"

    stop_at_nil = True        # Graph.items (c19_items) walks through rdf:nil to the end of the chain instead

    def __init__(self, relpath=REL, cls="TurtleSerializer"):
        super().__init__()
        self.relpath, self.cls = relpath, cls
        declare_class("Node", fields={})
        declare_class("RefCounts", fields={})
        declare_class(cls, fields={"store": TObj("Graph"), "_references": TObj("RefCounts")})
        declare_class("LongTurtleSerializer", fields={"store": TObj("Graph"), "_references": TObj("RefCounts")})
        declare_class("Graph", fields={})
        g = self.globals
        g["RDF"] = ModuleNS("RDF", {"first": SV(INT, FIRSTP), "rest": SV(INT, RESTP), "nil": SV(NODE, NIL)})
        g["list"] = Builtin("list", lambda it, a, k: a[0])
        g["len"] = Builtin("len", self.b_len)
        g["set"] = Builtin("set", lambda it, a, k: it.path.new_ref(SEEN))
        from pyvc.interp import ClassRef
        g["BNode"] = ClassRef("BNode", isinstance_fn=lambda it, v: is_bnode(v.z))
        k = z3.Int("ax_k")
        self.axioms += [FIRSTP != RESTP, NIL > 0,
                        z3.ForAll([k], z3.Implies(k >= 0, nth(k + 1) == z3.If(nth(k) != 0, rest_of(nth(k)), 0))),
                        z3.ForAll([k], z3.And(first_of(k) >= 0, rest_of(k) >= 0, nfirst(k) >= 0, nrest(k) >= 0)),
                        # Graph.value returns one of the objects, None iff there is none
                        z3.ForAll([k], z3.And((first_of(k) == 0) == (nfirst(k) == 0), (rest_of(k) == 0) == (nrest(k) == 0))),
                        z3.Not(is_bnode(NIL)),
                        # R is the first stop index of the chain (exists in a finite graph)
                        R >= 0, stop(R, self.stop_at_nil),
                        z3.ForAll([k], z3.Implies(z3.And(0 <= k, k < R), z3.Not(stop(k, self.stop_at_nil))))]
        self.assumptions += ["finite graph: the rdf:rest chain from any node ends or revisits a cell after finitely many "
                             "steps (existence of the first stop index R)",
                             "Graph.value(n, rdf:first / rdf:rest) and predicate_objects(n) are functions of the graph "
                             "(C19 proves Graph.value against the graph view); they do not raise"]
        self.declare()

    def b_len(self, it, a, k):
        v = a[0]
        if isinstance(v, tuple) and v and v[0] == "predicate_objects":
            return SV(INT, pcount(v[1]))
        if isinstance(v, tuple) and v and v[0] == "objects":
            return SV(INT, z3.If(v[2] == FIRSTP, nfirst(v[1]), nrest(v[1])))
        return super().b_len(it, a, k)

    def setup_path(self, path, interp, contract, selfv, args):
        super().setup_path(path, interp, contract, selfv, args)
        path.ghost["i"] = z3.IntVal(0)
        path.ghost["w"] = z3.K(z3.IntSort(), z3.IntVal(-1))
        path.assume(nth(0) == args["l_"].z)

    def havoc_ghost(self, it, name):
        if name == "i":
            return z3.Int(it.path.fresh_name("ghost_i"))
        return z3.Const(it.path.fresh_name("ghost_w"), z3.ArraySort(z3.IntSort(), z3.IntSort()))

    def getattr(self, it, obj, name, node):
        if isinstance(obj, SV) and isinstance(obj.ty, TObj) and obj.ty.cls == "Graph":
            if name == "value":
                def value(it2, o, a, k):
                    n = it2.path.inject(ONODE, a[0])
                    pz = a[1].z
                    return SV(ONODE, z3.If(pz == FIRSTP, first_of(n), rest_of(n)))
                return BoundMethod(obj, name, value)
            if name == "predicate_objects":
                return BoundMethod(obj, name, lambda it2, o, a, k: ("predicate_objects", it2.path.inject(ONODE, a[0])))
            if name == "objects":
                return BoundMethod(obj, name, lambda it2, o, a, k: ("objects", it2.path.inject(ONODE, a[0]), a[1].z))
        return NotImplemented

    def obj_isinstance(self, it, v, n):
        if isinstance(v.ty, TObj) and v.ty.cls == "Node" and n == "BNode":
            return is_bnode(v.z)
        return NotImplemented

    def getitem(self, it, obj, key, node):
        if isinstance(obj, SV) and isinstance(obj.ty, TObj) and obj.ty.cls == "RefCounts":
            return SV(INT, refs(it.path.inject(ONODE, key)))        # defaultdict(int): how often the node is an object
        return NotImplemented

    def call_method_hook(self, it, obj, name, args):
        return NotImplemented

    def after_set_add(self, it, setv, elem):
        """ghost code attached to `seen.add(l_)`: the iteration counter and the witness map advance"""
        p = it.path
        e = p.inject(ONODE, elem)
        p.ghost["w"] = z3.Store(p.ghost["w"], e, p.ghost["i"])
        p.ghost["i"] = p.ghost["i"] + 1

    def declare(self):
        def inv(lc):
            p = lc.path
            i, w = p.ghost["i"], p.ghost["w"]
            l = p.inject(ONODE, lc.env["l_"])
            x, j, k = z3.Ints("iv_x iv_j iv_k")
            # the implementation's set of visited cells: whichever local holds a set of nodes
            sets = [v for v in lc.env.values() if isinstance(v, SV) and v.ty == SEEN]
            heads = [v for n_, v in lc.env.items() if n_ == "head" and isinstance(v, SV)]
            base = z3.And(0 <= i, i <= R, l == nth(i), l != 0,
                          z3.ForAll([k], z3.Implies(z3.And(0 <= k, k < i), cell_ok(nth(k), k))),
                          *[h.z == nth(0) for h in heads])
            if not sets:
                return base          # no visited-set: termination then cannot be shown (variant)
            seen = p.content(sets[0])
            return z3.And(base,
                          z3.ForAll([x], z3.Implies(seen[x], z3.And(0 <= w[x], w[x] < i, nth(w[x]) == x, x != 0))),
                          z3.ForAll([j], z3.Implies(z3.And(0 <= j, j < i), seen[nth(j)])))

        def valid(c):
            k = z3.Int("v_k")
            l0 = c.args["l_"].z
            return z3.And(first_of(l0) != 0, nth(R) == NIL,
                          z3.ForAll([k], z3.Implies(z3.And(0 <= k, k < R), cell_ok(nth(k), k))))
        for relpath, cls in ((self.relpath, self.cls), ("rdflib/plugins/serializers/longturtle.py", "LongTurtleSerializer")):
            self.add_one(relpath, cls, inv, valid)

    def add_one(self, relpath, cls, inv, valid):
        self.add(Contract("C03", relpath, f"{cls}.isValidList", [Param("l_", NODE)], ret=BOOL, self_ty=TObj(cls),
                          pre=lambda c: z3.And(c.self.z > 0, c.args["l_"].z > 0, c.old.field(cls, "store", c.self.z) > 0),
                          post=lambda c: [("accepts-exactly-well-formed-finite-lists", c.path.inject(BOOL, c.result) == valid(c))],
                          modifies=[SEEN], allocates=True,
                          loops={0: LoopSpec(inv, modifies=[SEEN, "i", "w"], var_types={"l_": ONODE},
                                             variant=lambda lc: R - lc.path.ghost["i"])},
                          note="isValidList terminates (variant R - i) and returns True exactly for a chain of blank-node "
                               "cells, each with one rdf:first, one rdf:rest and nothing else, inner cells referenced "
                               "once, that reaches rdf:nil without revisiting a cell"))


def build():
    return ListModel()
