"""C04 (expression semantics): the logical connectives' error rules.

SPARQL 1.1 17.2: A || B is TRUE if some operand is TRUE (even if another raises an error), an error if an operand
errs and none is TRUE, FALSE otherwise.  EBV(x) is an external function with three outcomes (true, false, error);
the operands are an arbitrary collection.
"""
from __future__ import annotations

import z3

from pyvc.core import (BOOL, INT, SV, TObj, TDict, TSet, TOpt, TTuple, option_sort, Snapshot, SymIter, ConcreteSeq,
                       PyExc, declare_class, declare_exception)
from pyvc.interp import LoopSpec, Builtin, ClassRef, BoundMethod, LiveView
from pyvc.model import Contract, Param
from contracts.rdfmodel import RDFModel, TERM, TermSort

REL = "rdflib/plugins/sparql/operators.py"
REL_S = "rdflib/plugins/sparql/sparql.py"
EXPR = TObj("Expr")
FB = TObj("FrozenBindings")
QC = TObj("QueryContext")
MAP = TDict(TERM, TERM)
OT = option_sort(TermSort)
PAIRT = TTuple(TERM, TERM)
ebv_kind = z3.Function("ebv_outcome", z3.IntSort(), z3.IntSort())     # 0 false, 1 true, 2 error
lit_bool = z3.Function("Literal_of_bool", z3.BoolSort(), z3.IntSort())
others = z3.Function("expr_other_operands", z3.IntSort(), z3.ArraySort(z3.IntSort(), z3.BoolSort()))
first = z3.Function("expr_first_operand", z3.IntSort(), z3.IntSort())
has_other = z3.Function("expr_has_other", z3.IntSort(), z3.BoolSort())


class ExprModel(RDFModel):
    name = "c04_expr"

    def __init__(self):
        super().__init__()
        declare_exception("SPARQLError", "Exception")
        declare_class("Expr", fields={})
        declare_class("FrozenBindings", fields={"_d": MAP, "ctx": QC})
        declare_class("QueryContext", fields={"bindings": MAP, "initBindings": MAP})
        self.globals["FrozenBindings"] = Builtin("FrozenBindings", self.b_frozenbindings)
        g = self.globals
        g["SPARQLError"] = ClassRef("SPARQLError")
        g["EBV"] = Builtin("EBV", self.b_ebv)
        g["Literal"] = Builtin("Literal", lambda it, a, k: SV(INT, lit_bool(it.path.inject(BOOL, a[0]) if not isinstance(a[0], bool) else z3.BoolVal(a[0]))))
        self.assumptions += ["EBV(x) is an external function with outcomes true / false / SPARQLError per operand",
                             "operands of a connective are a collection (order-independent specification)"]
        self.declare()

    def b_ebv(self, it, a, k):
        p = it.path
        x = p.inject(INT, a[0]) if not isinstance(a[0], SV) else a[0].z
        kd = ebv_kind(x)
        if p.choose(kd == 2):
            raise PyExc("SPARQLError", ())
        p.assume(z3.Or(kd == 0, kd == 1))
        return SV(BOOL, kd == 1)

    # FrozenBindings(ctx, iterable of (var, term) pairs): a new object whose mapping is dict(iterable) (A3: builtin
    # axiom; the pairs come from a dict's items, so keys are unique)
    def b_frozenbindings(self, it, a, k):
        p = it.path
        src = it.deref(a[1])
        if not isinstance(src, (Snapshot, SymIter)) or src.elem_ty.sort() != PAIRT.sort():
            from pyvc.core import Unsupported
            raise Unsupported("FrozenBindings(ctx, <not a collection of pairs>)")
        kz = z3.Const("fbk", TermSort)
        vz = z3.Const("fbv", TermSort)
        c = z3.Const(p.fresh_name("fbmap"), MAP.content_sort())
        valf = z3.Function(p.fresh_name("fbval"), TermSort, TermSort)     # the value paired with a key (keys unique)
        p.assume(z3.ForAll([kz], c[kz] == z3.If(src.member(PAIRT.mk(kz, valf(kz))), OT.some(valf(kz)), OT.none),
                           patterns=[c[kz]]))
        p.assume(z3.ForAll([kz, vz], z3.Implies(src.member(PAIRT.mk(kz, vz)), vz == valf(kz)),
                           patterns=[PAIRT.mk(kz, vz)]))
        d = p.new_ref(MAP, c)
        r = p.new_ref(FB)
        p.set_field(r, "_d", d)
        p.set_field(r, "ctx", a[0])
        return r

    def getattr(self, it, obj, name, node):
        if isinstance(obj, SV) and isinstance(obj.ty, TObj) and obj.ty.cls == "Expr":
            if name == "expr":
                return SV(INT, first(obj.z))
            if name == "other":
                if it.path.choose(has_other(obj.z)):
                    arr = others(obj.z)
                    return Snapshot(INT, lambda z: arr[z], False)
                return None
        if isinstance(obj, SV) and isinstance(obj.ty, TObj) and obj.ty.cls == "FrozenBindings" and name == "items":
            d = it.path.get_field(obj, "_d")
            return BoundMethod(obj, "items", lambda it2, o, a, k: LiveView(d, "items"))
        return NotImplemented

    def getitem(self, it, obj, key, node):
        # QueryContext.__getitem__: the binding of a variable or None (variables only: keys of solution mappings)
        if isinstance(obj, SV) and isinstance(obj.ty, TObj) and obj.ty.cls == "QueryContext":
            d = it.path.get_field(obj, "bindings")
            return SV(TOpt(TERM), it.path.content(d)[key.z])
        return NotImplemented

    def pure_subscript(self, it, pe, e, env):
        obj = it.deref(pe.ev(e.value, env))
        key = pe.ev(e.slice, env)
        if isinstance(obj, tuple) and isinstance(key, int):
            return obj[key]
        r = self.getitem(it, obj, key, e)
        if r is NotImplemented:
            return super().pure_subscript(it, pe, e, env)
        return r

    def binop(self, it, op, a, b):
        import ast
        if isinstance(op, ast.Add) and isinstance(a, ConcreteSeq) and isinstance(b, Snapshot) and len(a.items) == 1:
            h = it.path.inject(INT, a.items[0])
            return Snapshot(INT, lambda z: z3.Or(z == h, b.member(z)), False)
        return super().binop(it, op, a, b)

    def declare(self):
        def ops(c, z):
            e = c.args["e"].z
            return z3.Or(z == first(e), others(e)[z])

        def or_inv(lc):
            x, y = z3.Ints("ox oy")
            some_err = z3.Exists([y], z3.And(lc.done[y], ebv_kind(y) == 2))
            none_true = z3.ForAll([x], z3.Implies(lc.done[x], ebv_kind(x) != 1))
            if "error" not in lc.env:          # the implementation may remember the error differently
                return none_true
            return z3.And(none_true, some_err if lc.env["error"] is not None else z3.Not(some_err))

        def havoc_error(it):
            from pyvc.interp import ExcValue
            return ExcValue("SPARQLError", ()) if it.path.choose(z3.Bool(it.path.fresh_name("error_set"))) else None

        def or_post(c):
            e = c.args["e"].z
            x = z3.Int("px")
            some_true = z3.Exists([x], z3.And(ops(c, x), ebv_kind(x) == 1))
            some_err = z3.Exists([x], z3.And(ops(c, x), ebv_kind(x) == 2))
            return [("or-true-iff-some-operand-true", z3.Implies(has_other(e), c.result.z == lit_bool(some_true))),
                    ("error-not-swallowed", z3.Implies(has_other(e), z3.Or(some_true, z3.Not(some_err)))),
                    ("single-operand-passes-through", z3.Implies(z3.Not(has_other(e)), c.result.z == first(e)))]

        def or_raises(c):
            e = c.args["e"].z
            x, y = z3.Ints("rx ry")
            return z3.And(has_other(e), z3.Not(z3.Exists([x], z3.And(ops(c, x), ebv_kind(x) == 1))),
                          z3.Exists([y], z3.And(ops(c, y), ebv_kind(y) == 2)))
        self.add(Contract("C04", REL, "ConditionalOrExpression", [Param("e", EXPR), Param("ctx", INT)], ret=INT,
                          pre=lambda c: c.args["e"].z > 0, post=or_post,
                          raises={"SPARQLError": or_raises}, modifies=[],
                          loops={0: LoopSpec(or_inv, var_types={"x": INT, "error": havoc_error, "e": "poison"}, fingerprint="[expr] + other")},
                          note="A || B: TRUE iff some operand is TRUE; error iff none is TRUE and some operand errs"))


        # ---- A && B (after fix 4296f56f the same loop shape as ||)
        def and_inv(lc):
            x, y = z3.Ints("ax ay")
            some_err = z3.Exists([y], z3.And(lc.done[y], ebv_kind(y) == 2))
            none_false = z3.ForAll([x], z3.Implies(lc.done[x], ebv_kind(x) != 0))
            if "error" not in lc.env:
                return none_false
            return z3.And(none_false, some_err if lc.env["error"] is not None else z3.Not(some_err))

        def and_post(c):
            e = c.args["e"].z
            x = z3.Int("apx")
            some_false = z3.Exists([x], z3.And(ops(c, x), ebv_kind(x) == 0))
            some_err = z3.Exists([x], z3.And(ops(c, x), ebv_kind(x) == 2))
            return [("and-false-iff-some-operand-false", z3.Implies(has_other(e), c.result.z == lit_bool(z3.Not(some_false)))),
                    ("error-not-swallowed", z3.Implies(has_other(e), z3.Or(some_false, z3.Not(some_err)))),
                    ("single-operand-passes-through", z3.Implies(z3.Not(has_other(e)), c.result.z == first(e)))]

        def and_raises(c):
            e = c.args["e"].z
            x, y = z3.Ints("arx ary")
            return z3.And(has_other(e), z3.Not(z3.Exists([x], z3.And(ops(c, x), ebv_kind(x) == 0))),
                          z3.Exists([y], z3.And(ops(c, y), ebv_kind(y) == 2)))
        self.add(Contract("C04", REL, "ConditionalAndExpression", [Param("e", EXPR), Param("ctx", INT)], ret=INT,
                          pre=lambda c: c.args["e"].z > 0, post=and_post,
                          raises={"SPARQLError": and_raises}, modifies=[],
                          loops={0: LoopSpec(and_inv, var_types={"x": INT, "error": havoc_error, "e": "poison"},
                                             fingerprint="[expr] + other")},
                          note="A && B: FALSE iff some operand is FALSE (also when another errs); error iff none is FALSE "
                               "and some operand errs; TRUE otherwise"))

        # ---- FrozenBindings.forget: the scoping helper of OPTIONAL / sub-queries
        def fmap(st, cls, fld, z):
            return st.content(MAP, st.field(cls, fld, z))

        def exc_make(path, interp):
            arr = z3.Array("arg__except", TermSort, z3.BoolSort())
            if path.choose(z3.Bool("except_is_none")):
                return None
            return Snapshot(TERM, lambda z: arr[z], True)

        def forget_post(c):
            st0, st1 = c.old, c.new
            s, b = c.self.z, c.args["before"].z
            exc = c.args["_except"]
            k = z3.Const("forget_any_variable", TermSort)      # free: the clause is proved for an arbitrary variable
            ds = fmap(st0, "FrozenBindings", "_d", s)
            c.path.hint(PAIRT.mk(k, OT.get(ds[k])))
            dr = fmap(st1, "FrozenBindings", "_d", c.result.z)
            init = fmap(st0, "QueryContext", "initBindings", st0.field("FrozenBindings", "ctx", s))
            bb = fmap(st0, "QueryContext", "bindings", b)
            keep = z3.Or(exc.member(k) if exc is not None else z3.BoolVal(False), OT.is_some(init[k]), OT.is_none(bb[k]))
            return [("keeps-exactly-new-init-and-excepted-bindings",
                     dr[k] == z3.If(z3.And(OT.is_some(ds[k]), keep), ds[k], OT.none))]

        def forget_pre(c):
            st = c.old
            s, b = c.self.z, c.args["before"].z
            cx = st.field("FrozenBindings", "ctx", s)
            return z3.And(s > 0, b > 0, cx > 0, st.field("FrozenBindings", "_d", s) > 0,
                          st.field("QueryContext", "initBindings", cx) > 0, st.field("QueryContext", "bindings", b) > 0)
        self.add(Contract("C04", REL_S, "FrozenBindings.forget",
                          [Param("before", QC), Param("_except", None, make=exc_make)], ret=FB, self_ty=FB,
                          pre=forget_pre, post=forget_post, modifies=[], allocates=True,
                          note="forget(before, except): keeps a binding iff its variable was unbound before (is None - a "
                               "falsy term such as 0 or \"\" IS bound), or comes from initBindings, or is excepted"))


        # ---- QueryContext.__setitem__: binding a variable twice to different terms is an error (join consistency)
        def set_post(c):
            st0, st1, s = c.old, c.new, c.self.z
            b0, b1 = fmap(st0, "QueryContext", "bindings", s), fmap(st1, "QueryContext", "bindings", s)
            k, v = c.args["key"].z, c.args["value"].z
            return [("binds-the-variable", b1 == z3.Store(b0, k, OT.some(v))),
                    ("never-overwrites-a-different-binding", z3.Or(OT.is_none(b0[k]), b0[k] == OT.some(v)))]

        def set_raises(c):
            st0, s = c.old, c.self.z
            b0 = fmap(st0, "QueryContext", "bindings", s)
            k, v = c.args["key"].z, c.args["value"].z
            return z3.And(OT.is_some(b0[k]), b0[k] != OT.some(v))
        declare_exception("AlreadyBound", "SPARQLError")
        from pyvc.interp import ExcValue
        self.globals["AlreadyBound"] = ClassRef("AlreadyBound", construct=lambda it, a, k: ExcValue("AlreadyBound", tuple(a)))
        self.add(Contract("C04", REL_S, "QueryContext.__setitem__", [Param("key", TERM), Param("value", TERM)],
                          self_ty=QC, pre=lambda c: z3.And(c.self.z > 0, c.old.field("QueryContext", "bindings", c.self.z) > 0),
                          post=set_post, raises={"AlreadyBound": set_raises},
                          on_raise_state=lambda c: fmap(c.new, "QueryContext", "bindings", c.self.z) ==
                          fmap(c.old, "QueryContext", "bindings", c.self.z),
                          modifies=[MAP],
                          note="ctx[var] = term: AlreadyBound iff var is bound to a DIFFERENT term (a falsy term such as 0 "
                               "is a binding); otherwise the binding is recorded; the Bindings chain is abstracted as one map"))


def build():
    return ExprModel()
