"""C18: AuditableStore - rollback restores, commit keeps.

Ghost S0: the quad view G of the wrapped store when the transaction began (a universally quantified
logical variable of the contracts).  Transaction invariant RI_tx(state, S0) over the undo log:
  I1  no quad (triple, graph name) has two log entries;
  I2  an entry (q, "remove") means q was added in this transaction:  G[q] and not S0[q];
      an entry (q, "add")    means q was removed in this transaction: not G[q] and S0[q];
  I3  a quad without a log entry is untouched:  G[q] == S0[q].
add/remove preserve RI_tx and have their set effect on G; rollback establishes G == S0 with an empty log;
commit empties the log and keeps G.  Two wrappers over one store: RI_tx of one is stable under the other's
operations on other quads (stability lemma, checked as a separate obligation).
"""
from __future__ import annotations

import z3

from pyvc.core import (BOOL, INT, STR, SV, TAList, TObj, TOpt, TTuple, option_sort, Snapshot, SymIter, ConcreteSeq,
                       PyExc, Unsupported, declare_class)
from pyvc.interp import LoopSpec, _zb, ClassRef, ModuleNS, Builtin
from pyvc.model import Contract, GenSpec, Param
from contracts.rdfmodel import (TERM, TRIPLE, OTERM, TermSort, match_triple, match_component, tr_s, tr_p, tr_o,
                                term_truthy, kind, K_URIREF, K_BNODE)
from contracts.graphmodel import (opt_case, GRAPH, OGRAPH, STORE, STORE_G, STORE_K, PAT, QUAD, G_of, K_of, in_graph,
                                  in_union, TripleSort, DYN_GRAPH, DYN_CG, DYN_DS, tcard, GSORT)
import contracts.c02_dataset as c02

REL = "rdflib/plugins/stores/auditable.py"
OP = TTuple(OTERM, OTERM, OTERM, OTERM, STR, name="UndoOp")
LOG = TAList(OP)
AUD = TObj("AuditableStore")
OT = option_sort(TermSort)


def build():
    M = c02.build()
    M.name = "c18_auditable"
    for k in list(M.contracts):
        c = M.contracts[k]
        if c.relpath == "rdflib/graph.py" or c.cls == "Store":
            c.trusted = True
    declare_class("AuditableStore", bases=("Store",), fields={
        "store": STORE, "reverseOps": LOG, "rollbackLock": INT, "context_aware": BOOL, "formula_aware": BOOL,
        "transaction_aware": BOOL})
    M.assumptions += [
        "C18 is verified against the abstract Store contract of the wrapped store (refined by Memory per C01)",
        "threading.RLock()/`with lock` are no-ops (A4: single thread); destructiveOpLocks holds None for both keys "
        "(read from the module source)",
        "contexts handed to the wrapper are plain Graph objects; context.__class__(store, id) builds a Graph view",
    ]
    g = M.globals
    LOCK = object()
    g["threading"] = ModuleNS("threading", {"RLock": Builtin("RLock", lambda it, a, k: LOCK)})
    g["destructiveOpLocks"] = {"add": None, "remove": None}
    M.is_lock = lambda it, v: v is LOCK or (isinstance(v, SV) and v.ty.sort() == z3.IntSort())
    base_getitem = M.getitem

    def getitem(it, obj, key, node):
        if isinstance(obj, dict) and isinstance(key, str):
            return obj[key]
        return base_getitem(it, obj, key, node)
    M.getitem = getitem
    base_getattr = M.getattr

    def getattr_(it, obj, name, node):
        if name == "__class__" and isinstance(obj, SV) and isinstance(obj.ty, TObj) and obj.ty.cls == "Graph":
            dyn = it.path.get_field_z(obj.z, "Graph", "__dyn__")
            it.path.oblige("context-is-a-plain-Graph", dyn == DYN_GRAPH, "", "typing")
            return M.globals["Graph"]
        return base_getattr(it, obj, name, node)
    M.getattr = getattr_

    # ConjunctiveGraph(store): a fresh conjunctive view on an existing store
    def construct_cg(it, args, kw):
        p = it.path
        store = args[0] if args else kw.get("store")
        if not (isinstance(store, SV) and isinstance(store.ty, TObj)):
            raise Unsupported("ConjunctiveGraph() without an existing store")
        cg = p.new_ref(TObj("ConjunctiveGraph"))
        d = p.new_ref(TObj("Graph"))
        b = M.fresh_bnode(it)
        for o, dyn in ((cg, DYN_CG), (d, DYN_GRAPH)):
            p.set_field(o, "_Graph__store", store)
            p.set_field(o, "_Graph__identifier", b)
            p.set_field(o, "__dyn__", dyn)
        p.set_field(cg, "default_union", True)
        p.set_field(cg, "_default_context", d)
        p.oblige("ConjunctiveGraph-needs-context-aware-store",
                 p.snapshot_state().field("Store", "context_aware", store.z), "", "typing")
        return cg
    g["ConjunctiveGraph"] = ClassRef("ConjunctiveGraph", construct=construct_cg)

    F = lambda st, f, z: st.field("Graph", f, z)
    inner = lambda st, c: st.field("AuditableStore", "store", c.self.z)
    S0 = z3.Const("S0_at_transaction_start", GSORT)

    def log_of(st, c):
        return st.content(LOG, st.field("AuditableStore", "reverseOps", c.self.z))

    def e_quad(e):
        """(triple, name) of a log entry"""
        t = TRIPLE.mk(OT.get(OP.proj(0, e)), OT.get(OP.proj(1, e)), OT.get(OP.proj(2, e)))
        return t, OT.get(OP.proj(3, e))

    def e_ok(e):
        return z3.And(*[OT.is_some(OP.proj(i, e)) for i in range(4)], term_truthy(OT.get(OP.proj(3, e))),
                      z3.Or(OP.proj(4, e) == z3.StringVal("add"), OP.proj(4, e) == z3.StringVal("remove")))

    def RI_tx(st, c):
        s = inner(st, c)
        G = G_of(st, s)
        lg = log_of(st, c)
        n, arr = LOG.length(lg), LOG.elems(lg)
        i, j = z3.Ints("tx_i tx_j")
        t = z3.Const("tx_t", TripleSort)
        nm = z3.Const("tx_n", TermSort)
        ti, ni = e_quad(arr[i])
        tj, nj = e_quad(arr[j])
        inlog = z3.Exists([i], z3.And(i >= 0, i < n, ti == t, ni == nm))
        return [
            ("log-well-formed", z3.And(n >= 0, z3.ForAll([i], z3.Implies(z3.And(i >= 0, i < n), e_ok(arr[i]))))),
            ("I1-one-entry-per-quad", z3.ForAll([i, j], z3.Implies(z3.And(0 <= i, i < j, j < n),
                                                                   z3.Or(ti != tj, ni != nj)))),
            ("I2-entries-describe-the-change", z3.ForAll([i], z3.Implies(z3.And(i >= 0, i < n), z3.If(
                OP.proj(4, arr[i]) == z3.StringVal("remove"),
                z3.And(G[ti][ni], z3.Not(S0[ti][ni])), z3.And(z3.Not(G[ti][ni]), S0[ti][ni]))))),
            ("I3-unlogged-quads-untouched", z3.ForAll([t, nm], z3.Implies(z3.Not(inlog), G[t][nm] == S0[t][nm]))),
        ]

    def wf(c):
        st = c.old
        s = inner(st, c)
        lr = st.field("AuditableStore", "reverseOps", c.self.z)
        return z3.And(c.self.z > 0, c.self.z < st.alloc, s > 0, s < st.alloc, s != c.self.z, lr > 0, lr < st.alloc,
                      st.field("Store", "context_aware", s), st.field("Store", "graph_aware", s))

    def ctx_ok(c, v):
        if v is None:
            return z3.BoolVal(True)
        st = c.old
        return z3.And(v.z > 0, v.z < st.alloc, F(st, "__dyn__", v.z) == DYN_GRAPH, term_truthy(F(st, "_Graph__identifier", v.z)))

    def pre_tx(c, ctxname="context"):
        return z3.And(wf(c), ctx_ok(c, c.args.get(ctxname)), *[f for _, f in RI_tx(c.old, c)])

    def other_stores(c):
        st0, st1 = c.old, c.new
        s = inner(st0, c)
        sr = z3.Const("f_s", z3.IntSort())
        return z3.ForAll([sr], z3.Implies(z3.And(sr != s, sr > 0, sr < st0.alloc), G_of(st1, sr) == G_of(st0, sr)))

    MODS = lambda c: [(STORE_G, inner(c.old, c)), (STORE_K, inner(c.old, c)),
                      (LOG, c.old.field("AuditableStore", "reverseOps", c.self.z))] + \
        [("Graph", f) for f in ("_Graph__store", "_Graph__identifier", "__dyn__", "_default_context", "default_union",
                                "context_aware", "formula_aware", "base")]

    # ---------------------------------------------------------------- add
    def add_post(c):
        st0, st1 = c.old, c.new
        s = inner(st0, c)
        t0 = c.path.inject(TRIPLE, c.args["triple"])
        n0 = F(st0, "_Graph__identifier", c.args["context"].z)
        G0, G1 = G_of(st0, s), G_of(st1, s)
        return [("effect", G1 == z3.Store(G0, t0, z3.Store(G0[t0], n0, True))),
                ("other-stores-unchanged", other_stores(c))] + [("RI_tx:" + n, f) for n, f in RI_tx(st1, c)]
    M.add(Contract("C18", REL, "AuditableStore.add",
                   [Param("triple", TRIPLE), Param("context", GRAPH), Param("quoted", BOOL, default=False)],
                   self_ty=AUD, pre=lambda c: z3.And(pre_tx(c), z3.Not(c.path.inject(BOOL, c.args["quoted"]))),
                   post=add_post, modifies=MODS, allocates=True,
                   note="adds the quad to the wrapped store and keeps the undo log describing exactly the difference "
                        "to the transaction start (also for re-adding a quad removed earlier in the transaction)"))

    # ---------------------------------------------------------------- remove
    def rm_inv_ctx(lc):
        """loop over context.triples(pattern): log gains/cancels entries, store untouched so far"""
        c = lc.interp.callctx
        return tx_loop_inv(lc, c, by_quads=False)

    def tx_loop_inv(lc, c, by_quads):
        st = lc.st
        s = inner(c.old, c)
        G0 = G_of(c.old, s)
        lg0, lg1 = log_of(c.old, c), log_of(st, c)
        n0, a0 = LOG.length(lg0), LOG.elems(lg0)
        n1, a1 = LOG.length(lg1), LOG.elems(lg1)
        i, j = z3.Ints("li lj")
        t = z3.Const("l_t", TripleSort)
        nm = z3.Const("l_n", TermSort)

        def has(n_, a_, tt, nn, op):
            return z3.Exists([i], z3.And(i >= 0, i < n_, e_quad(a_[i])[0] == tt, e_quad(a_[i])[1] == nn,
                                         OP.proj(4, a_[i]) == z3.StringVal(op)))
        if by_quads:
            QN = c02.QUADN
            q = z3.Const("l_q", QN.sort())
            processed = z3.Exists([q], z3.And(lc.done[q], TRIPLE.mk(QN.proj(0, q), QN.proj(1, q), QN.proj(2, q)) == t,
                                              OT.is_some(QN.proj(3, q)), OT.get(QN.proj(3, q)) == nm))
        else:
            cn = F(c.old, "_Graph__identifier", c.args["context"].z)
            processed = z3.And(lc.done[t], nm == cn)
        ti, ni = e_quad(a1[i])
        tj, nj = e_quad(a1[j])
        return z3.And(
            G_of(st, s) == G0, st.alloc == lc.path.alloc,
            st.field("AuditableStore", "store", c.self.z) == s,
            st.field("AuditableStore", "reverseOps", c.self.z) == c.old.field("AuditableStore", "reverseOps", c.self.z),
            n1 >= 0, z3.ForAll([i], z3.Implies(z3.And(i >= 0, i < n1), e_ok(a1[i]))),
            z3.ForAll([i, j], z3.Implies(z3.And(0 <= i, i < j, j < n1), z3.Or(ti != tj, ni != nj))),
            # processed quads: a pending "remove" entry is cancelled, otherwise an "add" entry is recorded
            z3.ForAll([t, nm], z3.If(processed,
                                     z3.And(z3.Not(has(n1, a1, t, nm, "remove")),
                                            has(n1, a1, t, nm, "add") == z3.Not(has(n0, a0, t, nm, "remove"))),
                                     z3.And(has(n1, a1, t, nm, "remove") == has(n0, a0, t, nm, "remove"),
                                            has(n1, a1, t, nm, "add") == has(n0, a0, t, nm, "add")))))

    def rm_post(c):
        st0, st1 = c.old, c.new
        s = inner(st0, c)
        G0, G1 = G_of(st0, s), G_of(st1, s)
        t = z3.Const("q_t", TripleSort)
        n = z3.Const("q_n", TermSort)
        ctxv = c.args["context"]
        hit = z3.BoolVal(True) if ctxv is None else n == F(st0, "_Graph__identifier", ctxv.z)
        return [("effect", z3.ForAll([t, n], G1[t][n] == z3.And(G0[t][n], z3.Not(z3.And(match_triple(c.args["spo"], t), hit))))),
                ("other-stores-unchanged", other_stores(c))] + [("RI_tx:" + nn, f) for nn, f in RI_tx(st1, c)]
    M.add(Contract("C18", REL, "AuditableStore.remove",
                   [Param("spo", PAT), Param("context", OGRAPH, default=None)],
                   self_ty=AUD, pre=lambda c: pre_tx(c), post=rm_post, modifies=MODS, allocates=True,
                   loops={0: LoopSpec(rm_inv_ctx, modifies=[LOG], var_types={"s": TERM, "p": TERM, "o": TERM},
                                      fingerprint="context.triples((subject, predicate, object_))"),
                          1: LoopSpec(lambda lc: tx_loop_inv(lc, lc.interp.callctx, True), modifies=[LOG],
                                      var_types={"s": TERM, "p": TERM, "o": TERM, "ctx": GRAPH},
                                      fingerprint="ConjunctiveGraph(self.store).quads((subject, predicate, object_))")},
                   note="removes the matching quads (one graph or all graphs) and logs the inverse of exactly the "
                        "quads that disappear; a quad added earlier in the transaction is simply un-logged"))
    M.contracts[("AuditableStore", "remove")].thorough_only = True

    # ---------------------------------------------------------------- triples / __len__ / contexts
    def tr_member(c, z):
        st = c.old
        s = inner(st, c)
        ctxv = c.args["context"]
        scope = in_union(st, s, z) if ctxv is None else G_of(st, s)[z][F(st, "_Graph__identifier", ctxv.z)]
        return z3.And(match_triple(c.args["triple"], z), scope)
    M.add(Contract("C18", REL, "AuditableStore.triples", [Param("triple", PAT), Param("context", OGRAPH, default=None)],
                   self_ty=AUD, pre=lambda c: z3.And(wf(c), ctx_ok(c, c.args["context"])),
                   gen=GenSpec(TRIPLE, tr_member, distinct=True, abstract=lambda it, v: it.path.inject(TRIPLE, v[0])),
                   modifies=lambda c: MODS(c)[3:], allocates=True,
                   note="reads go straight to the wrapped store (same answers as the wrapped store: C15 store independence)"))

    # ---------------------------------------------------------------- commit / rollback
    def commit_post(c):
        st0, st1 = c.old, c.new
        s = inner(st0, c)
        return [("content-kept", G_of(st1, s) == G_of(st0, s)),
                ("log-empty", LOG.length(log_of(st1, c)) == 0),
                ("other-stores-unchanged", other_stores(c))]
    M.add(Contract("C18", REL, "AuditableStore.commit", [], self_ty=AUD, pre=wf, post=commit_post,
                   modifies=lambda c: [("AuditableStore", "reverseOps"), LOG], allocates=True,
                   note="commit keeps exactly the content reached and empties the undo log"))

    def rb_inv(lc):
        c = lc.interp.callctx
        st = lc.st
        s = inner(c.old, c)
        G0, G1 = G_of(c.old, s), G_of(st, s)
        t = z3.Const("rb_t", TripleSort)
        nm = z3.Const("rb_n", TermSort)
        e = z3.Const("rb_e", OP.sort())
        undone = z3.Exists([e], z3.And(lc.done[e], e_quad(e)[0] == t, e_quad(e)[1] == nm))
        return z3.And(
            z3.ForAll([t, nm], G1[t][nm] == z3.If(undone, S0[t][nm], G0[t][nm])),
            st.field("AuditableStore", "store", c.self.z) == s,
            st.field("AuditableStore", "reverseOps", c.self.z) == c.old.field("AuditableStore", "reverseOps", c.self.z),
            log_of(st, c) == log_of(c.old, c),
            z3.ForAll([z3.Const("f_s", z3.IntSort())], z3.Implies(
                z3.And(z3.Const("f_s", z3.IntSort()) != s, z3.Const("f_s", z3.IntSort()) > 0,
                       z3.Const("f_s", z3.IntSort()) < c.old.alloc),
                G_of(st, z3.Const("f_s", z3.IntSort())) == G_of(c.old, z3.Const("f_s", z3.IntSort())))))

    def rb_post(c):
        st0, st1 = c.old, c.new
        s = inner(st0, c)
        return [("content-restored", G_of(st1, s) == S0),
                ("log-empty", LOG.length(log_of(st1, c)) == 0),
                ("other-stores-unchanged", other_stores(c))]
    M.add(Contract("C18", REL, "AuditableStore.rollback", [], self_ty=AUD, pre=lambda c: pre_tx(c), post=rb_post,
                   modifies=lambda c: MODS(c) + [("AuditableStore", "reverseOps")], allocates=True,
                   loops={0: LoopSpec(rb_inv, modifies=[STORE_G, STORE_K, ("Graph", "_Graph__store"),
                                                        ("Graph", "_Graph__identifier"), ("Graph", "__dyn__")],
                                      var_types={"subject": TERM, "predicate": TERM, "obj": TERM, "context": TERM,
                                                 "op": STR},
                                      fingerprint="self.reverseOps")},
                   note="rollback leaves the wrapped store with exactly the content it had when the transaction began "
                        "and an empty log (so a further rollback changes nothing)"))
    return M
