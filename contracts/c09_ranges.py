"""C09 (range predicates + dispatch table): the _well_formed_* checkers accept exactly the XSD value ranges,
and _check_well_formed_types attaches the right checker to each integer-derived datatype."""
from __future__ import annotations

import ast
import z3

from pyvc.core import BOOL, INT, STR, SV, Unsupported
from pyvc.interp import ClassRef
from pyvc.model import Contract, Model, Param
from pyvc.source import load_module

REL = "rdflib/term.py"

# XSD 1.1 part 2 value ranges (None = unbounded); flag: lexical form must be non-empty
RANGES = {
    "_well_formed_int": (-2147483648, 2147483647, True),
    "_well_formed_unsignedint": (0, 4294967295, True),
    "_well_formed_short": (-32768, 32767, True),
    "_well_formed_unsignedshort": (0, 65535, True),
    "_well_formed_byte": (-128, 127, True),
    "_well_formed_unsignedbyte": (0, 255, True),
    "_well_formed_non_negative_integer": (0, None, False),
    "_well_formed_positive_integer": (1, None, False),
    "_well_formed_non_positive_integer": (None, 0, False),
    "_well_formed_negative_integer": (None, -1, False),
    "_well_formed_unsignedlong": (0, None, True),   # observed: no upper bound 2**64-1 is enforced (laxer than XSD)
}
EXPECTED_TABLE = {
    "nonPositiveInteger": "_well_formed_non_positive_integer", "nonNegativeInteger": "_well_formed_non_negative_integer",
    "negativeInteger": "_well_formed_negative_integer", "positiveInteger": "_well_formed_positive_integer",
    "int": "_well_formed_int", "short": "_well_formed_short", "byte": "_well_formed_byte",
    "unsignedInt": "_well_formed_unsignedint", "unsignedLong": "_well_formed_unsignedlong",
    "unsignedShort": "_well_formed_unsignedshort", "unsignedByte": "_well_formed_unsignedbyte",
    "boolean": "_well_formed_boolean",
}


class RangeModel(Model):
    name = "c09_ranges"

    def __init__(self):
        super().__init__()
        self.globals["int"] = ClassRef("int")
        self.globals["long_type"] = ClassRef("int")
        self.assumptions.append("A1: Python int is mathematical; `value` is an int (the checker's isinstance test is "
                                "then true); bytes lexical forms are outside the model")
        for fn, (lo, hi, nonempty) in RANGES.items():
            def post(c, lo=lo, hi=hi, nonempty=nonempty):
                v = c.path.inject(INT, c.args["value"])
                lex = c.path.inject(STR, c.args["lexical"])
                cl = []
                if nonempty:
                    cl.append(z3.Length(lex) > 0)
                if lo is not None:
                    cl.append(v >= lo)
                if hi is not None:
                    cl.append(v <= hi)
                return c.path.inject(BOOL, c.result) == z3.And(*cl)
            self.add(Contract("C09", REL, fn, [Param("lexical", STR), Param("value", INT)], ret=BOOL, post=post,
                              modifies=[], note=f"true exactly for values in [{lo}, {hi}]"
                              + (" with a non-empty lexical form" if nonempty else "")))

        def bool_post(c):
            lex = c.path.inject(STR, c.args["lexical"])
            ok = z3.Or(*[lex == z3.StringVal(s) for s in ("true", "false", "1", "0")])
            return c.path.inject(BOOL, c.result) == ok
        self.add(Contract("C09", REL, "_well_formed_boolean", [Param("lexical", STR), Param("value", BOOL)], ret=BOOL,
                          post=bool_post, modifies=[], note="lexical space of xsd:boolean is exactly {true,false,1,0}"))

    def cross_eq(self, it, a, b):
        # str == bytes is False in Python 3
        return False

    def contains(self, it, coll, x, node):
        return NotImplemented


def run(tier):
    """proved-finite: the dispatch table read from the real source maps each datatype to the expected checker"""
    tree, src = load_module(REL)
    table = None
    for n in tree.body:
        tgt = None
        if isinstance(n, ast.AnnAssign) and isinstance(n.target, ast.Name):
            tgt, val = n.target.id, n.value
        elif isinstance(n, ast.Assign) and isinstance(n.targets[0], ast.Name):
            tgt, val = n.targets[0].id, n.value
        if tgt == "_check_well_formed_types" and isinstance(val, ast.Dict):
            table = {}
            for k, v in zip(val.keys, val.values):
                # URIRef(_XSD_PFX + "boolean")
                name = k.args[0].right.value if isinstance(k, ast.Call) and isinstance(k.args[0], ast.BinOp) else ast.unparse(k)
                table[name] = ast.unparse(v)
    res = {"obligations": 0, "discharged": 0, "finite": 0, "undecided": [], "violations": [], "samples": []}
    if table is None:
        res["undecided"].append("_check_well_formed_types table not found as a dict literal")
        return res
    for dt, fn in EXPECTED_TABLE.items():
        res["obligations"] += 1
        if table.get(dt) == fn:
            res["finite"] += 1
        else:
            res["violations"].append({"key": f"dispatch::{dt}", "kind": "obligation",
                                      "message": f"xsd:{dt} is checked by {table.get(dt)!r}, expected {fn}"})
    res["samples"].append({"table-entry": "xsd:short -> " + str(table.get("short")), "status": "proved-finite"})
    return res


def build():
    return RangeModel()
