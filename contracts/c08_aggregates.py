"""C08 (accumulators as folds): one update step of COUNT, MIN/MAX, SUM, AVG, SAMPLE, GROUP_CONCAT.

Each accumulator is a fold over the rows of a group; update(row) is the step function.  The contracts state the
step: e = eval(expr, row) (an external function that returns a term or raises NotBoundError / SPARQLTypeError):
  COUNT:  unbound -> unchanged; otherwise count' = count + 1 (and e joins the DISTINCT set when DISTINCT)
  MIN/MAX: value' = e when nothing was seen yet (value is None - NOT "falsy"), else pick(value, e); errors skip
  SUM/AVG: sum' = sum + numeric(e), counter' = counter + 1; unbound rows skip
  GROUP_CONCAT: value' = value + [e]
The fold over all rows of a group (and DISTINCT filtering through use_row) composes these steps; the composition
with the aggregate rewriting of the translator is not decided (DESIGN 6.8).
"""
from __future__ import annotations

import z3

from pyvc.core import (BOOL, INT, SV, TDict, TList, TObj, TOpt, TSet, TTuple, option_sort, PyExc, Unsupported,
                       declare_class, declare_exception)
from pyvc.interp import Builtin, ClassRef, BoundMethod, _zb
from pyvc.model import Contract, Param
from contracts.rdfmodel import RDFModel, TERM, TermSort

REL = "rdflib/plugins/sparql/aggregates.py"
ROW = TObj("Row")
AGG = TObj("Aggregator")
OT = option_sort(TermSort)
eval_of = z3.Function("eval_expr_on_row", z3.IntSort(), z3.IntSort(), TermSort)      # (expr, row) -> term
eval_err = z3.Function("eval_error_kind", z3.IntSort(), z3.IntSort(), z3.IntSort())  # 0 ok, 1 NotBound, 2 TypeError
pick = z3.Function("compare_pick", TermSort, TermSort, TermSort)                      # min/max by _val
numeric_of = z3.Function("numeric_value", TermSort, z3.IntSort())
is_numeric = z3.Function("is_numeric_literal", TermSort, z3.BoolSort())
dt_of = z3.Function("datatype_of", TermSort, z3.IntSort())
promote = z3.Function("type_promotion", z3.IntSort(), z3.IntSort(), z3.IntSort())


class AggModel(RDFModel):
    name = "c08_aggregates"

    def __init__(self):
        super().__init__()
        declare_exception("NotBoundError", "SPARQLError")
        declare_exception("SPARQLTypeError", "SPARQLError")
        declare_exception("SPARQLError", "Exception")
        for cls in ("Counter", "Extremum", "Sum", "Average", "GroupConcat"):
            declare_class(cls, fields={"value": INT if cls in ("Counter", "Sum") else
                                       (TOpt(TERM) if cls == "Extremum" else TList(TERM) if cls == "GroupConcat" else INT),
                                       "expr": INT, "distinct": BOOL, "seen": TSet(TERM), "counter": INT, "sum": INT,
                                       "datatype": TOpt(INT), "error": BOOL})
        declare_class("Row", fields={})
        declare_class("Aggregator", fields={})
        g = self.globals
        g["NotBoundError"] = ClassRef("NotBoundError")
        g["SPARQLTypeError"] = ClassRef("SPARQLTypeError")
        g["_eval"] = Builtin("_eval", self.b_eval)
        g["numeric"] = Builtin("numeric", self.b_numeric)
        g["type_promotion"] = Builtin("type_promotion", lambda it, a, k: SV(INT, promote(it.path.inject(INT, a[0]), it.path.inject(INT, a[1]))))
        g["type_safe_numbers"] = Builtin("type_safe_numbers", lambda it, a, k: tuple(a))
        g["sum"] = Builtin("sum", lambda it, a, k: it.binop(__import__("ast").Add(), a[0][0], a[0][1]))
        self.assumptions += [
            "_eval(expr, row) is an external function: returns a term or raises NotBoundError / SPARQLTypeError",
            "A1: numeric(v), sum(...) are mathematical (integers stand for the XSD numeric tower: machine arithmetic "
            "treated as mathematical); type_promotion is an uninterpreted table (checked finite in the thorough tier)",
            "min/max(key=_val) picks one of its two arguments (uninterpreted choice function)",
        ]
        self.declare()

    def b_numeric(self, it, a, k):
        """numeric(term): the number, or SPARQLTypeError for a term that is not a numeric literal"""
        if it.path.choose(z3.Not(is_numeric(a[0].z))):
            raise PyExc("SPARQLTypeError", ())
        return SV(INT, numeric_of(a[0].z))

    def b_eval(self, it, a, k):
        p = it.path
        e = p.inject(INT, a[0])
        r = a[1].z
        kind_ = eval_err(e, r)
        if p.choose(kind_ == 1):
            raise PyExc("NotBoundError", ())
        if p.choose(kind_ == 2):
            raise PyExc("SPARQLTypeError", ())
        p.assume(kind_ == 0)
        return SV(TERM, eval_of(e, r))

    def getattr(self, it, obj, name, node):
        if isinstance(obj, SV) and isinstance(obj.ty, TObj) and obj.ty.cls in ("Sum", "Average") and name == "get_value":
            return BoundMethod(obj, name, lambda it2, o, a, k: SV(TERM, z3.Const(it2.path.fresh_name("aggregate_value"), TermSort)))
        if isinstance(obj, SV) and obj.ty.sort() == TermSort and name == "datatype":
            return SV(INT, dt_of(obj.z))
        if isinstance(obj, SV) and isinstance(obj.ty, TObj) and name == "compare":
            return BoundMethod(obj, "compare", lambda it2, o, a, k: SV(TERM, pick(a[0].z, a[1].z)))
        if isinstance(obj, SV) and isinstance(obj.ty, TObj) and name == "eval_row":
            return BoundMethod(obj, "eval_row", lambda it2, o, a, k: self.b_eval(it2, [it2.path.get_field(o, "expr"), a[0]], {}))
        return NotImplemented

    def declare(self):
        M = self

        def F(st, cls, f, z):
            return st.field(cls, f, z)

        def common(c, cls):
            return z3.And(c.self.z > 0, c.args["row"].z > 0, F(c.old, cls, "seen", c.self.z) > 0)
        row_p = [Param("row", ROW), Param("aggregator", AGG)]

        # COUNT
        def cnt_post(c):
            st0, st1, s = c.old, c.new, c.self.z
            e, r = F(st0, "Counter", "expr", s), c.args["row"].z
            ok = eval_err(e, r) == 0
            seen0 = st0.content(TSet(TERM), F(st0, "Counter", "seen", s))
            seen1 = st1.content(TSet(TERM), F(st1, "Counter", "seen", s))
            return [("counts-bound-rows-only", F(st1, "Counter", "value", s) == F(st0, "Counter", "value", s) + z3.If(ok, 1, 0)),
                    ("distinct-set", seen1 == z3.If(z3.And(ok, F(st0, "Counter", "distinct", s)),
                                                    z3.Store(seen0, eval_of(e, r), True), seen0))]
        self.add(Contract("C08", REL, "Counter.update", row_p, self_ty=TObj("Counter"),
                          pre=lambda c: z3.And(common(c, "Counter"), eval_err(F(c.old, "Counter", "expr", c.self.z), c.args["row"].z) != 2),
                          post=cnt_post, modifies=[("Counter", "value"), TSet(TERM)],
                          note="COUNT step: +1 for a row whose expression is bound, unchanged otherwise"))

        # MIN / MAX
        def ext_post(c):
            st0, st1, s = c.old, c.new, c.self.z
            e, r = F(st0, "Extremum", "expr", s), c.args["row"].z
            ok = eval_err(e, r) == 0
            v0, v1 = F(st0, "Extremum", "value", s), F(st1, "Extremum", "value", s)
            ev = eval_of(e, r)
            return [("extremum-step", v1 == z3.If(ok, z3.If(OT.is_none(v0), OT.some(ev), OT.some(pick(OT.get(v0), ev))), v0))]
        self.add(Contract("C08", REL, "Extremum.update", row_p, self_ty=TObj("Extremum"),
                          pre=lambda c: common(c, "Extremum"), post=ext_post, modifies=[("Extremum", "value")],
                          note="MIN/MAX step: the first value is taken as is, later ones go through compare - also when "
                               "the running extremum is a falsy term (0, '', false); unbound/type errors skip the row"))

        # SUM
        def sum_post(c):
            st0, st1, s = c.old, c.new, c.self.z
            e, r = F(st0, "Sum", "expr", s), c.args["row"].z
            ev = eval_of(e, r)
            ok = z3.And(eval_err(e, r) == 0, is_numeric(ev))
            bad = z3.And(eval_err(e, r) == 0, z3.Not(is_numeric(ev)))
            oi = option_sort(z3.IntSort())
            d0, d1 = F(st0, "Sum", "datatype", s), F(st1, "Sum", "datatype", s)
            return [("sum-step", F(st1, "Sum", "value", s) == F(st0, "Sum", "value", s) + z3.If(ok, numeric_of(ev), 0)),
                    ("datatype-is-the-fold-of-type-promotion", d1 == z3.If(
                        ok, z3.If(oi.is_none(d0), oi.some(dt_of(ev)), oi.some(promote(oi.get(d0), dt_of(ev)))), d0)),
                    ("a-non-numeric-member-makes-the-sum-an-error", F(st1, "Sum", "error", s) == z3.Or(F(st0, "Sum", "error", s), bad))]
        self.add(Contract("C08", REL, "Sum.update", row_p, self_ty=TObj("Sum"),
                          pre=lambda c: z3.And(common(c, "Sum"), eval_err(F(c.old, "Sum", "expr", c.self.z), c.args["row"].z) != 2),
                          post=sum_post, modifies=[("Sum", "value"), ("Sum", "datatype"), ("Sum", "error"), TSet(TERM)],
                          note="SUM step: value' = value + numeric(e); datatype' = promotion(datatype, datatype(e)); a member "
                               "that is not a numeric literal sets the error flag and changes nothing else; unbound rows skip"))

        # AVG
        def avg_post(c):
            st0, st1, s = c.old, c.new, c.self.z
            e, r = F(st0, "Average", "expr", s), c.args["row"].z
            ev = eval_of(e, r)
            ok = z3.And(eval_err(e, r) == 0, is_numeric(ev))
            bad = z3.Or(eval_err(e, r) == 2, z3.And(eval_err(e, r) == 0, z3.Not(is_numeric(ev))))
            return [("avg-step", z3.And(
                F(st1, "Average", "sum", s) == F(st0, "Average", "sum", s) + z3.If(ok, numeric_of(ev), 0),
                F(st1, "Average", "counter", s) == F(st0, "Average", "counter", s) + z3.If(ok, 1, 0))),
                ("a-type-error-makes-the-average-an-error",
                 F(st1, "Average", "error", s) == z3.Or(F(st0, "Average", "error", s), bad))]
        self.add(Contract("C08", REL, "Average.update", row_p, self_ty=TObj("Average"),
                          pre=lambda c: common(c, "Average"), post=avg_post,
                          modifies=[("Average", "sum"), ("Average", "counter"), ("Average", "datatype"), ("Average", "error"), TSet(TERM)],
                          note="AVG step: sum and counter advance together, only for rows whose expression is a number; a "
                               "type error sets the error flag (the group's average is then unbound)"))

        # ---- set_value: what a finished group contributes to its solution
        BIND = TDict(TERM, TERM)
        for cls in ("Sum", "Average"):
            declare_class(cls, fields={"var": TERM})

            def sv_post(c, cls=cls):
                st0, st1, s = c.old, c.new, c.self.z
                b0, b1 = st0.content(BIND, c.args["bindings"].z), st1.content(BIND, c.args["bindings"].z)
                var = F(st0, cls, "var", s)
                k = z3.Const("sv_k", TermSort)
                return [("an-aggregate-in-error-stays-unbound", z3.Implies(F(st0, cls, "error", s), b1 == b0)),
                        ("otherwise-exactly-its-variable-is-bound", z3.Implies(z3.Not(F(st0, cls, "error", s)), z3.And(
                            OT.is_some(b1[var]), z3.ForAll([k], z3.Implies(k != var, b1[k] == b0[k])))))]
            self.add(Contract("C08", REL, f"{cls}.set_value", [Param("bindings", BIND)], self_ty=TObj(cls),
                              pre=lambda c: z3.And(c.self.z > 0, c.args["bindings"].z > 0), post=sv_post, modifies=[BIND],
                              note=f"{cls}.set_value: binds the result variable unless a member of the group was not a number"))


def build():
    return AggModel()
