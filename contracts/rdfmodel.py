"""Shared RDF modelling layer for the contract modules (terms, triples, RDF constants)."""
from __future__ import annotations

import z3

from pyvc.core import (BOOL, INT, STR, SV, TDict, TList, TObj, TOpt, TSet, TTuple, TUn, Unsupported,
                       declare_class, declare_exception)
from pyvc.interp import Builtin, ClassRef, ModuleNS
from pyvc.model import Contract, GenSpec, Model, Param

# --- RDF terms -----------------------------------------------------------------
TermSort = z3.DeclareSort("Term")
Kind, (K_URIREF, K_BNODE, K_LITERAL, K_VARIABLE) = z3.EnumSort(
    "Kind", ["URIRef", "BNode", "Literal", "Variable"])
kind = z3.Function("kind", TermSort, Kind)
# Python truthiness of a term: URIRef/BNode are str subclasses (truthy iff non-empty),
# Literal.__bool__ looks at the value; contracts quantify over both.
term_truthy = z3.Function("term_truthy", TermSort, z3.BoolSort())
term_str = z3.Function("term_str", TermSort, z3.StringSort())

term_is = z3.Function("term_is_same_object", TermSort, TermSort, z3.BoolSort())
TERM = TUn("Term", truthy=term_truthy)
TRIPLE = TTuple(TERM, TERM, TERM, name="Triple")
OTERM = TOpt(TERM)
PATTERN = TTuple(OTERM, OTERM, OTERM, name="Pattern")

declare_exception("ParserError", "Exception")
declare_exception("UniquenessError", "Exception")


def tr_s(t):
    return TRIPLE.proj(0, t)


def tr_p(t):
    return TRIPLE.proj(1, t)


def tr_o(t):
    return TRIPLE.proj(2, t)


def match_component(pat_val, z):
    """pattern component (runtime value None or SV term) matches z3 term z"""
    if pat_val is None:
        return z3.BoolVal(True)
    if isinstance(pat_val, SV) and isinstance(pat_val.ty, TOpt):
        os_ = OTERM.sort()
        return z3.Or(os_.is_none(pat_val.z), os_.get(pat_val.z) == z)
    return pat_val.z == z


def match_triple(pattern, t):
    """pattern: python 3-tuple of runtime values; t: z3 Triple"""
    s, p, o = pattern
    return z3.And(match_component(s, tr_s(t)), match_component(p, tr_p(t)), match_component(o, tr_o(t)))


class RDFModel(Model):
    """Adds RDF constants and term classes to the base model."""

    def __init__(self):
        super().__init__()
        g = self.globals
        self.rdf_consts = {}
        for n in ("first", "rest", "nil", "type", "List"):
            c = z3.Const("RDF_" + n, TermSort)
            self.rdf_consts[n] = c
            self.axioms.append(kind(c) == K_URIREF)
            self.axioms.append(term_truthy(c))
        cs = list(self.rdf_consts.values())
        self.axioms.append(z3.Distinct(*cs))
        ia, ib = z3.Consts("is_a is_b", TermSort)
        self.axioms.append(z3.ForAll([ia, ib], z3.Implies(term_is(ia, ib), ia == ib)))
        g["RDF"] = ModuleNS("RDF", {n: SV(TERM, c) for n, c in self.rdf_consts.items()})
        for cname, k in (("URIRef", K_URIREF), ("BNode", K_BNODE), ("Literal", K_LITERAL),
                         ("Variable", K_VARIABLE)):
            g[cname] = ClassRef(cname, isinstance_fn=(lambda it, v, k=k: kind(v.z) == k))
        g["Identifier"] = ClassRef("Identifier", isinstance_fn=lambda it, v: z3.BoolVal(True))
        g["Node"] = ClassRef("Node", isinstance_fn=lambda it, v: z3.BoolVal(True))
        g["IdentifiedNode"] = ClassRef("IdentifiedNode", isinstance_fn=lambda it, v: z3.Or(
            kind(v.z) == K_URIREF, kind(v.z) == K_BNODE))
        self.assumptions.append(
            "A2: dict/set membership on RDF terms is modelled as SMT equality on the Term sort "
            "(justified by the C07 term-law obligations: == is an equivalence, equal terms hash equal)")

    def un_isinstance(self, it, v, n):
        if v.ty.sort() == TermSort:
            table = {"URIRef": K_URIREF, "BNode": K_BNODE, "Literal": K_LITERAL, "Variable": K_VARIABLE}
            if n in table:
                return kind(v.z) == table[n]
            if n in ("Identifier", "Node", "str", "object"):
                # URIRef/BNode/Literal/Variable are all str subclasses
                return True
            if n == "IdentifiedNode":
                return z3.Or(kind(v.z) == K_URIREF, kind(v.z) == K_BNODE)
            return False
        return NotImplemented

    def value_identity(self, it, a, b):
        """`a is b` on terms: object identity implies equality, nothing more is known (two equal terms
        may or may not be the same Python object)."""
        if a.ty.sort() == TermSort:
            za, zb = a.z, b.z
            if z3.is_select(za) and z3.is_select(zb) and za.arg(0).eq(zb.arg(0)):
                # the same attribute of the same object is the same Python object
                return z3.Or(za.arg(1) == zb.arg(1), term_is(za, zb))
            return term_is(za, zb)
        return NotImplemented

    def fresh_bnode(self, it):
        """BNode(): a term distinct from every term that exists in the current state (freshness
        axiom A3: uuid4-based ids never collide)."""
        p = it.path
        b = z3.Const(p.fresh_name("bnode"), TermSort)
        p.assume(kind(b) == K_BNODE)
        p.assume(term_truthy(b))
        for c in self.rdf_consts.values():
            p.assume(b != c)
        for t in p.terms_created:
            p.assume(b != t)
        p.terms_created.append(b)
        self.assume_fresh_term(it, b)
        return SV(TERM, b)

    def assume_fresh_term(self, it, b):
        pass

    def describe_model(self, mdl, contract, ob):
        out = {}
        try:
            for d in mdl.decls():
                n = d.name()
                if n.startswith("arg_") or n in ("self",):
                    out[n] = str(mdl[d])[:300]
            uni = mdl.get_universe(TermSort) or []
            terms = {}
            for u in uni:
                terms[str(u)] = {"kind": str(mdl.eval(kind(u), True)),
                                 "truthy": str(mdl.eval(term_truthy(u), True))}
            if terms:
                out["terms"] = terms
        except Exception as e:  # noqa
            out["describe_error"] = str(e)
        return out
