"""C06 (serializer side, N-Quads): every (triple, graph) pair of the dataset is written as one row carrying that
graph's name, and nothing else is written.

Abstract view: the dataset has a collection of graphs contexts(ds); graph g holds the triples has(g, t) and has the
name ident(g).  row(t, n) = _nq_row(t, n) is the row text (its escaping is bounded-checked against the W3C grammar in
C05), enc() the byte encoding; stream.write appends to the ghost set `written`.
   written' = { enc(row(t, ident(g))) | g in contexts(ds), has(g, t) }  u  { the final newline }
so a triple is written with the name of exactly the graphs it is in (the parser side - parseline adding to
get_context(name) - and the other five quad syntaxes are bounded only).
"""
from __future__ import annotations

import z3

from pyvc.core import INT, STR, SV, TObj, Snapshot, declare_class
from pyvc.interp import LoopSpec, Builtin, BoundMethod
from pyvc.model import Contract, Model, Param

REL = "rdflib/plugins/serializers/nquads.py"
SER, DS, GR, STREAM = TObj("NQuadsSerializer"), TObj("Dataset"), TObj("Graph"), TObj("Stream")
ctxs = z3.Function("contexts_of", z3.IntSort(), z3.ArraySort(z3.IntSort(), z3.BoolSort()))
has = z3.Function("graph_has_triple", z3.IntSort(), z3.IntSort(), z3.BoolSort())
ident = z3.Function("graph_identifier", z3.IntSort(), z3.IntSort())
row = z3.Function("_nq_row", z3.IntSort(), z3.IntSort(), z3.IntSort())
enc = z3.Function("encode", z3.IntSort(), z3.IntSort())
NEWLINE = z3.Int("final_newline_bytes")
WSET = z3.ArraySort(z3.IntSort(), z3.BoolSort())


class NQModel(Model):
    name = "c06_nquads"

    def __init__(self):
        super().__init__()
        declare_class("NQuadsSerializer", fields={"store": DS, "encoding": INT})
        declare_class("Dataset", fields={})
        declare_class("Graph", fields={})
        declare_class("Stream", fields={})
        g = self.globals
        g["_nq_row"] = Builtin("_nq_row", lambda it, a, k: SV(INT, row(a[0].z, it.path.inject(INT, a[1]))))
        g["warnings"] = None
        self.assumptions += ["_nq_row / str.encode are functions of their arguments; stream.write appends its argument to "
                             "the output (ghost set `written`); iterating a Graph yields its triples (C01)"]
        self.declare()

    def setup_path(self, path, interp, contract, selfv, args):
        super().setup_path(path, interp, contract, selfv, args)
        path.ghost["written"] = z3.K(z3.IntSort(), z3.BoolVal(False))

    def havoc_ghost(self, it, name):
        return z3.Const(it.path.fresh_name("written"), WSET)

    def iter_descr(self, it, v):
        if isinstance(v, SV) and isinstance(v.ty, TObj) and v.ty.cls == "Graph":
            g = v.z
            from pyvc.interp import Interp
            return Interp.IterDescr(INT, lambda t: has(g, t), True)
        return None

    def getattr(self, it, obj, name, node):
        if isinstance(obj, SV) and isinstance(obj.ty, TObj):
            c = obj.ty.cls
            if c == "Dataset" and name == "contexts":
                arr = ctxs(obj.z)
                return BoundMethod(obj, name, lambda it2, o, a, k: Snapshot(GR, lambda z: arr[z], True))
            if c == "Graph" and name == "identifier":
                return SV(INT, ident(obj.z))
            if c == "Stream" and name == "write":
                def write(it2, o, a, k):
                    p = it2.path
                    x = a[0].z if isinstance(a[0], SV) else NEWLINE
                    p.ghost["written"] = z3.Store(p.ghost["written"], x, True)
                    return None
                return BoundMethod(obj, name, write)
        if isinstance(obj, SV) and obj.ty.sort() == z3.IntSort() and name == "encode":
            return BoundMethod(obj, name, lambda it2, o, a, k: SV(INT, enc(o.z)))
        if isinstance(obj, str) and name == "encode":
            return BoundMethod(obj, name, lambda it2, o, a, k: "NEWLINE-BYTES")
        if isinstance(obj, SV) and obj.ty.sort() == z3.IntSort() and name == "lower":
            return BoundMethod(obj, name, lambda it2, o, a, k: SV(INT, z3.Int(it2.path.fresh_name("lowered"))))
        return NotImplemented

    def declare(self):
        def spec(c, x, gs_done=None, cur=None, ts_done=None):
            """x is a row written for a (graph, triple) pair among: all graphs / done graphs + done triples of cur"""
            g, t = z3.Ints("sp_g sp_t")
            ds = c.old.field("NQuadsSerializer", "store", c.self.z)
            in_scope = ctxs(ds)[g] if gs_done is None else gs_done[g]
            body = z3.And(in_scope, has(g, t), x == enc(row(t, ident(g))))
            r = z3.Exists([g, t], body)
            if cur is not None:
                r = z3.Or(r, z3.Exists([t], z3.And(ts_done[t], has(cur, t), x == enc(row(t, ident(cur))))))
            return r

        def outer_inv(lc):
            c = lc.interp.callctx
            x = z3.Int("w_x")
            lc.path.ghost["__outer_done__"] = lc.done       # the graphs finished so far, for the inner loop's invariant
            return z3.ForAll([x], lc.path.ghost["written"][x] == spec(c, x, gs_done=lc.done))

        def inner_inv(lc):
            c = lc.interp.callctx
            x = z3.Int("w_x")
            cur = lc.env["context"].z
            gd = lc.path.ghost["__outer_done__"]
            return z3.ForAll([x], lc.path.ghost["written"][x] == spec(c, x, gs_done=gd, cur=cur, ts_done=lc.done))

        def post(c):
            x = z3.Int("p_x")
            return [("exactly-one-row-per-triple-and-graph-with-that-graph's-name",
                     z3.ForAll([x], c.path.ghost["written"][x] == z3.Or(x == NEWLINE, spec(c, x))))]
        self.add(Contract("C06", REL, "NQuadsSerializer.serialize",
                          [Param("stream", STREAM), Param("base", INT, default=None), Param("encoding", INT, default=None)],
                          self_ty=SER, pre=lambda c: z3.And(c.self.z > 0, c.old.field("NQuadsSerializer", "store", c.self.z) > 0),
                          post=post, modifies=[],
                          loops={0: LoopSpec(outer_inv, modifies=["written"], var_types={"context": GR, "triple": "poison"}),
                                 1: LoopSpec(inner_inv, modifies=["written"], var_types={"triple": INT})},
                          note="N-Quads output = one row per (triple, graph) pair with the graph's own name"))


def build():
    return NQModel()
