"""C04 (algebra primitives): solution-mapping compatibility, join and minus against their SPARQL 1.1 definitions.

A solution mapping is a FrozenDict object whose _d maps variables to terms (a partial function Var -> Term).
  compatible(m1, m2)  <=>  for every v in dom(m1) & dom(m2): m1(v) = m2(v)
  merge(m1, m2)        =   m1 u m2 (m2 wins on a conflict - only used on compatible mappings)
  Join(A, B)           =   { merge(x, y) | x in A, y in B, compatible(x, y) }   one yield per pair of occurrences
  Minus(A, B)          =   { x in A | for all y in B: not compatible(x, y) or dom(x) & dom(y) = {} }
A and B are collections of occurrences (object references): multiplicities are preserved because each pair of
occurrences yields exactly once; B must be re-iterable (a list/set), which is what the callers pass.
"""
from __future__ import annotations

import z3

from pyvc.core import (BOOL, INT, SV, TDict, TObj, TOpt, TTuple, option_sort, Snapshot, SymIter, ConcreteSeq, PyExc,
                       Unsupported, declare_class)
from pyvc.interp import LoopSpec, _zb, Builtin, ClassRef, BoundMethod
from pyvc.model import Contract, GenSpec, Param
from contracts.rdfmodel import RDFModel, TERM, TermSort

REL_S = "rdflib/plugins/sparql/sparql.py"
REL_U = "rdflib/plugins/sparql/evalutils.py"
MAP = TDict(TERM, TERM)
FD = TObj("FrozenDict")
OT = option_sort(TermSort)
PAIR = TTuple(FD, FD, name="SolutionPair")
merge_of = z3.Function("merge_result_object", z3.IntSort(), z3.IntSort(), z3.IntSort())


class AlgebraModel(RDFModel):
    name = "c04_primitives"

    def __init__(self):
        super().__init__()
        declare_class("FrozenDict", fields={"_d": MAP})
        self.assumptions += [
            "a solution mapping is a FrozenDict whose _d is a dict Var -> Term; dict(itertools.chain(a.items(), "
            "b.items())) is the right-biased union (A3)",
            "collections of solutions are collections of occurrences (object references); the right operand of "
            "_join/_minus is re-iterable",
        ]
        self.declare()

    @staticmethod
    def dmap(st, z):
        return st.content(MAP, st.field("FrozenDict", "_d", z))

    @classmethod
    def compat(cls, st, a, b):
        v = z3.Const("cv", TermSort)
        da, db = cls.dmap(st, a), cls.dmap(st, b)
        return z3.ForAll([v], z3.Implies(z3.And(OT.is_some(da[v]), OT.is_some(db[v])), da[v] == db[v]))

    @classmethod
    def disjoint(cls, st, a, b):
        v = z3.Const("dv", TermSort)
        da, db = cls.dmap(st, a), cls.dmap(st, b)
        return z3.ForAll([v], z3.Not(z3.And(OT.is_some(da[v]), OT.is_some(db[v]))))

    @classmethod
    def is_merge(cls, st, r, a, b):
        v = z3.Const("mv", TermSort)
        da, db, dr = cls.dmap(st, a), cls.dmap(st, b), cls.dmap(st, r)
        return z3.ForAll([v], dr[v] == z3.If(OT.is_some(db[v]), db[v], da[v]))

    # iteration over a FrozenDict iterates the keys of _d; fd[k] reads _d[k]
    def iter_descr(self, it, v):
        if isinstance(v, SV) and isinstance(v.ty, TObj) and v.ty.cls == "FrozenDict":
            d = it.path.get_field(v, "_d")
            return it.iter_descr(d)
        return None

    def getitem(self, it, obj, key, node):
        if isinstance(obj, SV) and isinstance(obj.ty, TObj) and obj.ty.cls == "FrozenDict":
            return it.getitem(it.path.get_field(obj, "_d"), key, node)
        return NotImplemented

    def declare(self):
        M = self

        def valid(st, z):
            d = st.field("FrozenDict", "_d", z)
            return z3.And(z > 0, z < st.alloc, d > 0, d < st.alloc)

        # ---- FrozenDict.compatible
        def comp_inv(lc):
            c = lc.interp.callctx
            st = c.old
            a, b = c.self.z, c.args["other"].z
            v = z3.Const("iv", TermSort)
            da, db = M.dmap(st, a), M.dmap(st, b)
            return z3.ForAll([v], z3.Implies(z3.And(lc.done[v], OT.is_some(db[v])), da[v] == db[v]))
        self.add(Contract("C04", REL_S, "FrozenDict.compatible", [Param("other", FD)], ret=BOOL, self_ty=FD,
                          pre=lambda c: z3.And(valid(c.old, c.self.z), valid(c.old, c.args["other"].z)),
                          post=lambda c: c.path.inject(BOOL, c.result) == M.compat(c.old, c.self.z, c.args["other"].z),
                          modifies=[], loops={0: LoopSpec(comp_inv, var_types={"k": TERM}, fingerprint="self")},
                          note="compatible(m1, m2) <=> the mappings agree on every common variable"))

        # ---- FrozenDict.merge: right-biased union (constructor + itertools.chain are axiomatised)
        def merge_post(c):
            st1 = c.new
            return z3.And(valid(st1, c.result.z), c.result.z == merge_of(c.self.z, c.args["other"].z),
                          M.is_merge(st1, c.result.z, c.self.z, c.args["other"].z))
        self.add(Contract("C04", REL_S, "FrozenDict.merge", [Param("other", FD)], ret=FD, self_ty=FD,
                          post=merge_post, modifies=[], trusted=True, allocates=True,
                          note="merge(m1, m2) = m1 u m2 (m2 wins): dict(chain(items, items)) - builtin axiom"))

        self.contracts[("FrozenDict", "compatible")].pure_value = \
            lambda c: M.compat(c.old, c.self.z, c.args["other"].z)

        def dd_post(c):
            return c.path.inject(BOOL, c.result) == M.disjoint(c.old, c.self.z, c.args["other"].z)
        self.add(Contract("C04", REL_S, "FrozenDict.disjointDomain", [Param("other", FD)], ret=BOOL, self_ty=FD,
                          post=dd_post, modifies=[], trusted=True,
                          note="disjointDomain <=> no common variable: set(self).intersection(other) - builtin axiom"))

        self.contracts[("FrozenDict", "disjointDomain")].pure_value = \
            lambda c: M.disjoint(c.old, c.self.z, c.args["other"].z)

        # ---- _join / _minus
        def coll(name):
            def make(path, interp):
                arr = z3.Array("arg_" + name, z3.IntSort(), z3.BoolSort())
                s = Snapshot(FD, lambda z: z3.And(arr[z], z > 0), True)
                return s
            return make

        def coll_valid(c):
            st = c.old
            x = z3.Int("cvx")
            a, b = c.args["a"], c.args["b"]
            return z3.ForAll([x], z3.Implies(z3.Or(a.member(x), b.member(x)), valid(st, x)))

        def join_member(c, z):
            x, y = PAIR.proj(0, z), PAIR.proj(1, z)
            return z3.And(c.args["a"].member(x), c.args["b"].member(y), M.compat(c.old, x, y))

        def join_abstract(it, v):
            # a yielded solution is the merge of the current pair: identify the yield by the pair it comes from
            lv = it.path.ghost.get("__loopvars__", [])
            return PAIR.mk(lv[-2][0], lv[-1][0])

        def join_extra(c, v):
            lv = c.path.ghost.get("__loopvars__", [])
            x, y = lv[-2][0], lv[-1][0]
            return [("yields-the-merge-of-the-pair", z3.And(v.z == merge_of(x, y)))]
        self.add(Contract("C04", REL_U, "_join", [Param("a", None, make=coll("a")), Param("b", None, make=coll("b"))],
                          pre=coll_valid, gen=GenSpec(PAIR, join_member, distinct=True, complete=True,
                                                      abstract=join_abstract, extra=join_extra),
                          modifies=[], allocates=True,
                          note="Join: exactly one solution merge(x, y) per pair of compatible occurrences (x in a, y in b)"))

        def minus_member(c, x):
            y = z3.Int("my")
            b = c.args["b"]
            st = c.old
            return z3.And(c.args["a"].member(x), z3.ForAll([y], z3.Implies(
                b.member(y), z3.Or(z3.Not(M.compat(st, x, y)), M.disjoint(st, x, y)))))
        self.add(Contract("C04", REL_U, "_minus", [Param("a", None, make=coll("a")), Param("b", None, make=coll("b"))],
                          pre=coll_valid, gen=GenSpec(FD, minus_member, distinct=True, complete=True), modifies=[],
                          note="Minus: x is kept iff no y in b is compatible with x and shares a variable with it"))


def build():
    return AlgebraModel()
