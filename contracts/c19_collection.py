"""C19: Collection against the Python list it represents.

Ghost state (logical variables of the contracts): cells, items : Seq(Term).
WF(V, uri, cells, items) - V the triple view of the collection's graph:
  |cells| = |items| = n;
  n = 0: uri has neither rdf:first nor rdf:rest;
  n > 0: cells[0] = uri; for every i < n: rdf:first of cells[i] is exactly items[i], rdf:rest of cells[i] is exactly
         cells[i+1] (rdf:nil for the last); cells are pairwise distinct and none is rdf:nil;
  rdf:nil has neither rdf:first nor rdf:rest.
"""
from __future__ import annotations

import z3

from pyvc.core import (BOOL, INT, STR, SV, TObj, TOpt, TSet, TTuple, option_sort, Snapshot, SymIter, ConcreteSeq,
                       PyExc, Unsupported, declare_class)
from pyvc.interp import LoopSpec, _zb, Builtin
from pyvc.model import Contract, GenSpec, Param
from contracts.rdfmodel import (TERM, TRIPLE, OTERM, TermSort, match_triple, tr_s, tr_p, tr_o, term_truthy, kind,
                                K_URIREF, K_BNODE)
from contracts.graphmodel import (GRAPH, OGRAPH, STORE, STORE_G, STORE_K, PAT, G_of, K_of, TripleSort, DYN_GRAPH)
import contracts.c01_graph as c01g

REL = "rdflib/collection.py"
COLL = TObj("Collection")
OT = option_sort(TermSort)
SEQ = z3.SeqSort(TermSort)


def build():
    M = c01g.build()
    M.name = "c19_collection"
    for k in list(M.contracts):
        M.contracts[k].trusted = True
    M.assumptions.append("Graph-level contracts (proved in contracts.c01_graph) are used as callee contracts")
    declare_class("Collection", fields={"graph": GRAPH, "uri": TERM})
    FIRST, REST, NIL = (M.rdf_consts[n] for n in ("first", "rest", "nil"))
    cells = z3.Const("ghost_cells", SEQ)
    items = z3.Const("ghost_items", SEQ)
    cells_seq, items_seq = cells, items

    def gz(st, c):
        return st.field("Collection", "graph", c.self.z)

    def V(st, g, s, p, o):
        store = st.field("Graph", "_Graph__store", g)
        ident = st.field("Graph", "_Graph__identifier", g)
        return G_of(st, store)[TRIPLE.mk(s, p, o)][ident]

    def WF(st, g, uri, cell_at=None, item_at=None, n=None):
        """cell_at / item_at: position -> z3 Term (default: the ghost sequences); n: length"""
        class _A:
            def __init__(self, f):
                self.f = f

            def __getitem__(self, i):
                return self.f(i)
        if n is None:
            n = z3.Length(cells_seq)
        cells = _A(cell_at) if cell_at is not None else cells_seq
        items = _A(item_at) if item_at is not None else items_seq
        i, j = z3.Ints("wf_i wf_j")
        o = z3.Const("wf_o", TermSort)
        nxt = z3.If(i + 1 < n, cells[i + 1], NIL)
        return z3.And(
            (z3.Length(items_seq) == n) if item_at is None else z3.BoolVal(True), n >= 0,
            z3.Implies(n == 0, z3.ForAll([o], z3.And(z3.Not(V(st, g, uri, FIRST, o)), z3.Not(V(st, g, uri, REST, o))))),
            z3.Implies(n > 0, cells[0] == uri),
            z3.ForAll([i], z3.Implies(z3.And(0 <= i, i < n), z3.And(
                V(st, g, cells[i], FIRST, items[i]), V(st, g, cells[i], REST, nxt), cells[i] != NIL,
                term_truthy(cells[i])))),
            z3.ForAll([i, o], z3.Implies(z3.And(0 <= i, i < n), z3.And(
                z3.Implies(V(st, g, cells[i], FIRST, o), o == items[i]),
                z3.Implies(V(st, g, cells[i], REST, o), o == nxt)))),
            z3.ForAll([i, j], z3.Implies(z3.And(0 <= i, i < j, j < n), cells[i] != cells[j])),
            z3.ForAll([o], z3.And(z3.Not(V(st, g, NIL, FIRST, o)), z3.Not(V(st, g, NIL, REST, o)))),
            term_truthy(uri), uri != NIL)

    cell_pos = z3.Function("ghost_cell_position", TermSort, z3.IntSort())
    M.globals["BNode"].construct = lambda it, a, k: M.fresh_bnode(it)

    def wfc(c):
        st = c.old
        g = gz(st, c)
        pi = z3.Int("pos_i")
        # conservative extension: the cells are pairwise distinct, so "position of a cell" is a function
        pos_def = z3.ForAll([pi], z3.Implies(z3.And(0 <= pi, pi < z3.Length(cells_seq)), cell_pos(cells_seq[pi]) == pi))
        return z3.And(pos_def, c.self.z > 0, c.self.z < st.alloc, g > 0, g < st.alloc,
                      st.field("Graph", "_Graph__store", g) > 0, st.field("Graph", "_Graph__store", g) < st.alloc,
                      st.field("Graph", "__dyn__", g) == DYN_GRAPH,
                      WF(st, g, st.field("Collection", "uri", c.self.z)))

    # ---------------------------------------------------------------- next() on generators given by contract
    def b_next(it, args, kw):
        v = args[0]
        p = it.path
        if not isinstance(v, SymIter):
            raise Unsupported("next() on a non-contract iterator")
        taken = getattr(v, "taken", [])
        es = v.elem_ty.sort()
        w = z3.Const(p.fresh_name("nx"), es)
        e = z3.Const(p.fresh_name("ne"), es)
        left = lambda x: z3.And(v.member(x), *[x != t for t in taken])
        ne = z3.Bool(p.fresh_name("has_next"))
        p.assume(ne == left(w))
        p.assume(z3.Implies(z3.Not(ne), z3.ForAll([e], z3.Not(left(e)))))
        if not p.choose(ne):
            raise PyExc("StopIteration", ())
        v.taken = taken + [w]
        return p.project(v.elem_ty, w)
    M.globals["next"] = Builtin("next", b_next)
    M.globals["exceptions"] = None

    # ---------------------------------------------------------------- Graph.objects / Graph.value
    def gview(c, t):
        s = c.old.field("Graph", "_Graph__store", c.self.z)
        n = c.old.field("Graph", "_Graph__identifier", c.self.z)
        return G_of(c.old, s)[t][n]

    def gwf(c):
        s = c.path.get_field_z(c.self.z, "Graph", "_Graph__store")
        return z3.And(s > 0, s < c.old.alloc, c.self.z > 0, c.self.z < c.old.alloc,
                      c.path.get_field_z(c.self.z, "Graph", "__dyn__") == DYN_GRAPH)

    def obj_member(c, o):
        s, p = c.args["subject"], c.args["predicate"]
        t = z3.Const("om_t", TripleSort)
        return z3.Exists([t], z3.And(tr_o(t) == o, match_triple((s, p, None), t), gview(c, t)))
    M.add(Contract("C19", "rdflib/graph.py", "Graph.objects",
                   [Param("subject", OTERM, default=None), Param("predicate", OTERM, default=None),
                    Param("unique", BOOL, default=False)],
                   self_ty=GRAPH, pre=lambda c: z3.And(gwf(c), z3.Not(c.path.inject(BOOL, c.args["unique"]))),
                   gen=GenSpec(TERM, obj_member, distinct=False, complete=True), modifies=[],
                   note="objects(s, p): the objects of the matching triples (unique=False branch; subject not a list)"))
    M.contracts[("Graph", "objects")].trusted = False

    def val_post(c):
        s, p = c.args["subject"].z, c.args["predicate"].z
        o = z3.Const("v_o", TermSort)
        r = c.path.inject(OTERM, c.result)
        has = z3.Exists([o], gview(c, TRIPLE.mk(s, p, o)))
        return z3.And(OT.is_none(r) == z3.Not(has),
                      z3.Implies(OT.is_some(r), gview(c, TRIPLE.mk(s, p, OT.get(r)))))
    M.add(Contract("C19", "rdflib/graph.py", "Graph.value",
                   [Param("subject", TERM), Param("predicate", TERM)], ret=OTERM, self_ty=GRAPH, pre=gwf,
                   post=val_post, modifies=[],
                   note="value(s, p): some object o with (s, p, o) in the graph, None iff there is none "
                        "(the shape used by Collection and the serializers: object=None, default=None, any=True)"))
    M.contracts[("Graph", "value")].trusted = False

    # ---------------------------------------------------------------- _get_container
    def gc_inv(lc):
        c = lc.interp.callctx
        i = lc.path.inject(INT, lc.env["i"])
        cont = lc.path.inject(OTERM, lc.env["container"])
        idx = lc.path.inject(INT, c.args["index"])
        n = z3.Length(cells)
        uri = c.old.field("Collection", "uri", c.self.z)
        return z3.And(0 <= i, z3.Or(i <= idx, i == 0), cont == spec_container(i, n, uri))

    def spec_container(i, n, uri):
        """the node reached after i rdf:rest steps from the head"""
        return z3.If(z3.And(i >= 0, i < n), OT.some(cells[i]),
                     z3.If(z3.And(i == n, n > 0), OT.some(NIL),
                           z3.If(z3.And(n == 0, i == 0), OT.some(uri), OT.none)))

    def gc_post(c):
        idx = c.path.inject(INT, c.args["index"])
        n = z3.Length(cells)
        uri = c.old.field("Collection", "uri", c.self.z)
        r = c.path.inject(OTERM, c.result)
        return r == z3.If(idx < 0, OT.some(uri), spec_container(idx, n, uri))
    M.add(Contract("C19", REL, "Collection._get_container", [Param("index", INT)], ret=OTERM, self_ty=COLL, pre=wfc,
                   post=gc_post, modifies=[],
                   loops={0: LoopSpec(gc_inv, var_types={"i": INT, "container": OTERM, "ret": OTERM},
                                      fingerprint="i < index and container is not None",
                                      variant=lambda lc: z3.If(lc.path.inject(INT, lc.interp.callctx.args["index"]) -
                                                               lc.path.inject(INT, lc.env["i"]) > 0,
                                                               lc.path.inject(INT, lc.interp.callctx.args["index"]) -
                                                               lc.path.inject(INT, lc.env["i"]), 0))},
                   note="the cell at position index (rdf:nil at position len, None beyond); terminates (variant index - i)"))

    # ---------------------------------------------------------------- __getitem__ / __setitem__
    def gi_post(c):
        k = c.path.inject(INT, c.args["key"])
        return c.path.inject(TERM, c.result) == items[k]

    def gi_pre(c):
        return z3.And(wfc(c), c.path.inject(INT, c.args["key"]) >= 0)
    M.add(Contract("C19", REL, "Collection.__getitem__", [Param("key", INT)], ret=TERM, self_ty=COLL, pre=gi_pre,
                   post=gi_post, modifies=[],
                   raises={"IndexError": lambda c: c.path.inject(INT, c.args["key"]) >= z3.Length(cells)},
                   note="c[k] == items[k] for 0 <= k < len - also for falsy members; IndexError iff k >= len "
                        "(negative indices are outside the contract: known difference from list)"))

    def si_post(c):
        st1 = c.new
        k = c.path.inject(INT, c.args["key"])
        g = gz(c.old, c)
        uri = c.old.field("Collection", "uri", c.self.z)
        v = c.args["value"].z
        return [("well-formed-with-item-replaced",
                 WF(st1, g, uri, item_at=lambda i: z3.If(i == k, v, items[i])))]

    def si_pre(c):
        k = c.path.inject(INT, c.args["key"])
        return z3.And(wfc(c), k >= 0, k < z3.Length(cells))
    M.add(Contract("C19", REL, "Collection.__setitem__", [Param("key", INT), Param("value", TERM)], self_ty=COLL,
                   pre=si_pre, post=si_post,
                   modifies=lambda c: [(STORE_G, c.old.field("Graph", "_Graph__store", gz(c.old, c))),
                                       (STORE_K, c.old.field("Graph", "_Graph__store", gz(c.old, c)))],
                   note="c[k] = v for 0 <= k < len: items' = items[k := v], chain stays well-formed (index == len is "
                        "the known finding C19-setitem-at-len and excluded by precondition)"))
    # ---------------------------------------------------------------- _end / append
    def end_inv(lc):
        c = lc.interp.callctx
        cont = lc.env["container"].z
        n = z3.Length(cells)
        uri = c.old.field("Collection", "uri", c.self.z)
        i = cell_pos(cont)
        return z3.Or(z3.And(n == 0, cont == uri), z3.And(0 <= i, i < n, cont == cells[i]))

    def end_variant(lc):
        cont = lc.env["container"].z
        return z3.If(z3.Length(cells) == 0, 1, z3.Length(cells) - cell_pos(cont))

    def end_post(c):
        n = z3.Length(cells)
        uri = c.old.field("Collection", "uri", c.self.z)
        return c.result.z == z3.If(n == 0, uri, cells[n - 1])
    M.add(Contract("C19", REL, "Collection._end", [], ret=TERM, self_ty=COLL, pre=wfc, post=end_post, modifies=[],
                   loops={0: LoopSpec(end_inv, var_types={"container": TERM, "rest": OTERM}, fingerprint="True",
                                      variant=end_variant)},
                   note="the last cell of the chain (the head for the empty list); terminates on a well-formed chain"))

    def app_post(c):
        st1 = c.new
        g = gz(c.old, c)
        uri = c.old.field("Collection", "uri", c.self.z)
        n = z3.Length(cells)
        item = c.args["item"].z
        created = [t for t in c.path.terms_created]
        if created:
            nd = created[-1]
            wf = WF(st1, g, uri, cell_at=lambda i: z3.If(i < n, cells[i], nd),
                    item_at=lambda i: z3.If(i < n, items[i], item), n=n + 1)
        else:
            wf = WF(st1, g, uri, cell_at=lambda i: z3.If(i < n, cells[i], uri),
                    item_at=lambda i: z3.If(i < n, items[i], item), n=n + 1)
        return [("well-formed-with-item-appended", wf)]
    M.add(Contract("C19", REL, "Collection.append", [Param("item", TERM)], ret=COLL, self_ty=COLL, pre=wfc,
                   post=app_post,
                   modifies=lambda c: [(STORE_G, c.old.field("Graph", "_Graph__store", gz(c.old, c))),
                                       (STORE_K, c.old.field("Graph", "_Graph__store", gz(c.old, c)))],
                   ret_make=lambda c: c.self,
                   note="append(x): items' = items + [x] (x falsy or not), one new cell (a fresh blank node) at the end, "
                        "chain stays well-formed, no orphaned cell"))

    # ---------------------------------------------------------------- clear
    class _TypingForm:          # typing.Optional[...] / typing.cast: no run-time effect
        pass
    M.globals["Optional"] = _TypingForm()
    M.globals["cast"] = Builtin("cast", lambda it, a, k: a[1])
    _getitem0 = M.getitem

    def _getitem(it, obj, key, node):
        if isinstance(obj, _TypingForm):
            return obj
        return _getitem0(it, obj, key, node)
    M.getitem = _getitem

    def no_cell_triples(st, g, node):
        o = z3.Const("nc_o", TermSort)
        return z3.ForAll([o], z3.And(z3.Not(V(st, g, node, FIRST, o)), z3.Not(V(st, g, node, REST, o))))

    def other_triples_kept(st0, st1, g, c):
        """frame: a triple changed only if it is an rdf:first / rdf:rest triple of a cell of this list (or of the head);
        nothing is ever added; other graphs of the store untouched"""
        store = st0.field("Graph", "_Graph__store", g)
        ident = st0.field("Graph", "_Graph__identifier", g)
        uri = st0.field("Collection", "uri", c.self.z)
        t = z3.Const("fr_t", TripleSort)
        nm = z3.Const("fr_n", TermSort)
        i = z3.Int("fr_i")
        ps = cell_pos(tr_s(t))          # cells are pairwise distinct: "is a cell" is decided by its position (wfc)
        is_cell = z3.Or(tr_s(t) == uri, tr_s(t) == NIL, z3.And(0 <= ps, ps < z3.Length(cells), cells[ps] == tr_s(t)))
        mine = z3.And(nm == ident, is_cell, z3.Or(tr_p(t) == FIRST, tr_p(t) == REST))
        G0, G1 = G_of(st0, store), G_of(st1, store)
        return z3.ForAll([t, nm], z3.And(z3.Implies(G1[t][nm], G0[t][nm]), z3.Implies(z3.Not(mine), G1[t][nm] == G0[t][nm])))

    def clear_inv(lc):
        c = lc.interp.callctx
        st, st0 = lc.st, c.old
        g = gz(st0, c)
        n = z3.Length(cells)
        uri = st0.field("Collection", "uri", c.self.z)
        cont = lc.path.inject(OTERM, lc.env["container"])
        j = z3.Int("cl_j")
        o = z3.Const("cl_o", TermSort)
        nxt = lambda i: z3.If(i + 1 < n, cells[i + 1], NIL)        # noqa: E731
        # ghost: number of cells already cleaned = position of the current container (cells are pairwise distinct,
        # so the position is a function of the cell: cell_pos, see wfc)
        k = z3.If(OT.is_none(cont), n + 1, z3.If(OT.get(cont) == NIL, n, cell_pos(OT.get(cont))))
        intact = lambda jj: z3.And(V(st, g, cells[jj], FIRST, items[jj]), V(st, g, cells[jj], REST, nxt(jj)),   # noqa: E731
                                   z3.ForAll([o], z3.And(z3.Implies(V(st, g, cells[jj], FIRST, o), o == items[jj]),
                                                         z3.Implies(V(st, g, cells[jj], REST, o), o == nxt(jj)))))
        at = z3.If(n == 0,
                   # empty list: first round at the head (which has no cell triples), then None
                   z3.Or(cont == OT.some(uri), cont == OT.none),
                   z3.And(0 <= k, k <= n + 1, z3.Implies(k < n, cont == OT.some(cells[k])),
                          z3.ForAll([j], z3.Implies(z3.And(0 <= j, j < n),
                                                    z3.If(j < k, no_cell_triples(st, g, cells[j]), intact(j))))))
        return z3.And(at, no_cell_triples(st, g, NIL), z3.Implies(n == 0, no_cell_triples(st, g, uri)),
                      other_triples_kept(st0, st, g, c),
                      st.field("Collection", "graph", c.self.z) == g,
                      st.field("Graph", "_Graph__store", g) == st0.field("Graph", "_Graph__store", g),
                      st.field("Graph", "_Graph__identifier", g) == st0.field("Graph", "_Graph__identifier", g),
                      st.field("Graph", "__dyn__", g) == DYN_GRAPH)

    def clear_variant(lc):
        cont = lc.path.inject(OTERM, lc.env["container"])
        n = z3.Length(cells)
        return z3.If(OT.is_none(cont), 0,
                     z3.If(n == 0, 1, z3.If(OT.get(cont) == NIL, 1, n + 1 - cell_pos(OT.get(cont)))))

    def clear_post(c):
        st0, st1 = c.old, c.new
        g = gz(st0, c)
        uri = st0.field("Collection", "uri", c.self.z)
        j = z3.Int("cp_j")
        n = z3.Length(cells)
        return [("empty-and-well-formed", WF(st1, g, uri, cell_at=lambda i: uri, item_at=lambda i: uri, n=z3.IntVal(0))),
                ("no-orphaned-cells", z3.ForAll([j], z3.Implies(z3.And(0 <= j, j < n), no_cell_triples(st1, g, cells[j])))),
                ("other-triples-untouched", other_triples_kept(st0, st1, g, c))]
    M.add(Contract("C19", REL, "Collection.clear", [], ret=COLL, self_ty=COLL, pre=wfc, post=clear_post,
                   modifies=lambda c: [(STORE_G, c.old.field("Graph", "_Graph__store", gz(c.old, c))),
                                       (STORE_K, c.old.field("Graph", "_Graph__store", gz(c.old, c)))],
                   ret_make=lambda c: c.self,
                   loops={0: LoopSpec(clear_inv, modifies=[STORE_G, STORE_K],
                                      var_types={"container": OTERM, "rest": OTERM},
                                      fingerprint="container is not None", variant=clear_variant)},
                   note="clear(): the list becomes the empty list, every former cell loses its rdf:first / rdf:rest "
                        "(no orphaned cells), no other triple of the graph or store changes, nothing is added; terminates"))
    # 144 of 154 obligations prove; the preservation of the position ghost / frame clause and the variant (z3 sequence
    # theory under quantifiers) time out at 60 s: not counted as proved, kept for the thorough tier
    M.contracts[("Collection", "clear")].thorough_only = True
    return M
