"""Graph-level modelling layer: abstract Store contract + Graph / ConjunctiveGraph / Dataset objects.

Abstract store state (per Store object), the view the properties talk about:
    G : Triple -> (Term -> Bool)      G[t][n]  "triple t is asserted in the graph named n"
    K : Term -> Bool                  the graphs the store knows about
The union ("conjunctive") view is derived:  U(t) = exists n. G[t][n].
The concrete stores are proved to refine this contract in c01_memory / c01_simplememory (Memory's
Q(t, key(n)) is G[t][n] through the injective key function; its union index is U by clause R4).
"""
from __future__ import annotations

import z3

from pyvc.core import (card_fn, BOOL, INT, STR, SV, StateView, TDict, TObj, TOpt, TRefBase, TSet, TTuple, TUn,
                       Unsupported, declare_class, option_sort, PyExc, Snapshot, SymIter, ConcreteSeq, class_mro)
from pyvc.interp import Builtin, ClassRef, LoopSpec, ModuleNS, _zb, BoundMethod
from pyvc.model import Contract, GenSpec, Param
from contracts.rdfmodel import (RDFModel, TERM, TRIPLE, OTERM, TermSort, match_triple, match_component, tr_s,
                                tr_p, tr_o, kind, K_URIREF, K_BNODE, term_truthy)

TripleSort = TRIPLE.sort()
GSORT = z3.ArraySort(TripleSort, z3.ArraySort(TermSort, z3.BoolSort()))
KSORT = z3.ArraySort(TermSort, z3.BoolSort())


class TGhost(TRefBase):
    """Ghost heap component attached to object references (content sort given explicitly)."""

    def __init__(self, name, content_sort, empty):
        self.name, self._cs, self._empty = name, content_sort, empty

    def content_sort(self):
        return self._cs

    def empty(self):
        return self._empty

    def __repr__(self):
        return f"Ghost[{self.name}]"


STORE_G = TGhost("StoreG", GSORT, z3.K(TripleSort, z3.K(TermSort, z3.BoolVal(False))))
STORE_K = TGhost("StoreK", KSORT, z3.K(TermSort, z3.BoolVal(False)))

STORE = TObj("Store")
GRAPH = TObj("Graph")
OGRAPH = TOpt(GRAPH)
PAT = TTuple(OTERM, OTERM, OTERM, name="Pattern")
QUAD = TTuple(TERM, TERM, TERM, GRAPH, name="QuadG")

DYN_GRAPH, DYN_CG, DYN_DS, DYN_QUOTED = 0, 1, 2, 3
DYN = {"Graph": (0, 1, 2, 3), "ConjunctiveGraph": (1, 2), "Dataset": (2,), "QuotedGraph": (3,)}

DEFAULT_ID = z3.Const("DATASET_DEFAULT_GRAPH_ID", TermSort)

ctxobj = z3.Function("store_context_object", z3.IntSort(), TermSort, z3.IntSort())
tcard = z3.Function("triple_set_card", z3.ArraySort(TripleSort, z3.BoolSort()), z3.IntSort())


def opt_case(path, ty, v, none_val, some_fn):
    """case analysis on an Optional argument that may be projected (None / value) or still symbolic"""
    if v is None:
        return none_val
    if isinstance(v, SV) and isinstance(v.ty, TOpt):
        if v.ty.inner.is_ref:
            return z3.If(v.z == 0, none_val, some_fn(v.z))
        os_ = option_sort(v.ty.inner.sort())
        return z3.If(os_.is_none(v.z), none_val, some_fn(os_.get(v.z)))
    return some_fn(path.inject(ty, v))


def G_of(st: StateView, store_z):
    return st.content(STORE_G, store_z)


def K_of(st: StateView, store_z):
    return st.content(STORE_K, store_z)


def in_graph(st, store_z, t, name_z):
    return G_of(st, store_z)[t][name_z]


def in_union(st, store_z, t):
    n = z3.Const("u_n", TermSort)
    return z3.Exists([n], G_of(st, store_z)[t][n])


class GraphModel(RDFModel):
    name = "graphmodel"

    def __init__(self):
        super().__init__()
        declare_class("Store", fields={"context_aware": BOOL, "graph_aware": BOOL, "formula_aware": BOOL})
        declare_class("Graph", fields={
            "_Graph__identifier": TERM, "_Graph__store": STORE, "default_union": BOOL, "context_aware": BOOL,
            "formula_aware": BOOL, "__dyn__": INT, "_default_context": GRAPH, "base": TOpt(STR),
        }, truthy=self.graph_truthy)
        for sub in ("ConjunctiveGraph", "Dataset", "QuotedGraph"):
            declare_class(sub, bases=("ConjunctiveGraph",) if sub == "Dataset" else ("Graph",))
        g = self.globals
        for cname in ("Graph", "ConjunctiveGraph", "Dataset", "QuotedGraph"):
            g[cname] = ClassRef(cname, construct=(lambda it, a, k, cname=cname: self.construct_graph(it, cname, a, k)))
        g["Store"] = ClassRef("Store")
        g["Path"] = ClassRef("Path", isinstance_fn=lambda it, v: z3.BoolVal(False))
        g["DATASET_DEFAULT_GRAPH_ID"] = SV(TERM, DEFAULT_ID)
        g["_assertnode"] = Builtin("_assertnode", lambda it, a, k: True)
        g["type"] = Builtin("type", self.b_type)
        self.axioms += [kind(DEFAULT_ID) == K_URIREF, term_truthy(DEFAULT_ID)]
        self.assumptions += [
            "abstract Store contract (G, K views) is what Graph/Dataset code is verified against; Memory and "
            "SimpleMemory are proved against their own views in c01_memory/c01_simplememory and the two are linked by "
            "the refinement argument of DESIGN.md 6.1 (key function injective; union index = exists n. G[t][n])",
            "Store.remove / remove_graph: proved for Memory (c01_memory: Memory.remove, Memory.remove_graph) and SimpleMemory "
            "against their concrete views; the lazy self-iteration inside Memory.remove is verified as an iteration over "
            "the entry-state result (see the assumption recorded with c01_memory)",
            "_assertnode (isinstance(t, Node) assertions) is treated as true: terms are rdflib Nodes by typing",
            "Graph objects: dynamic class modelled by a ghost tag; identifier/store/default_context properties read "
            "the private fields; deprecation warnings dropped",
        ]
        self.declare_store()

    # ------------------------------------------------------------------ object model
    def graph_truthy(self, it, v):
        """Graph defines __len__: bool(graph) is len(graph) > 0 (an EMPTY graph is falsy)."""
        p = it.path
        st = p.snapshot_state()
        store = p.get_field_z(v.z, "Graph", "_Graph__store")
        ident = p.get_field_z(v.z, "Graph", "_Graph__identifier")
        dyn = p.get_field_z(v.z, "Graph", "__dyn__")
        t = z3.Const(p.fresh_name("tt"), TripleSort)
        own = z3.Exists([t], in_graph(st, store, t, ident))
        # ConjunctiveGraph/Dataset.__len__ is the store's total length (the union view)
        t2 = z3.Const(p.fresh_name("tt"), TripleSort)
        uni = z3.Exists([t2], in_union(st, store, t2))
        return z3.If(z3.Or(dyn == DYN_CG, dyn == DYN_DS), uni, own)

    def obj_isinstance(self, it, v, n):
        if isinstance(v.ty, TObj) and v.ty.cls in ("Graph", "ConjunctiveGraph", "Dataset", "QuotedGraph"):
            if n == "Graph":
                return True
            if n in DYN:
                dyn = it.path.get_field_z(v.z, "Graph", "__dyn__")
                return z3.Or(*[dyn == c for c in DYN[n]])
            if n in ("Node", "object"):
                return True
            return False
        return NotImplemented

    def obj_eq(self, it, a, b):
        if a.ty.cls in ("Graph", "ConjunctiveGraph", "Dataset") and b.ty.cls in ("Graph", "ConjunctiveGraph", "Dataset"):
            # Graph.__eq__: same identifier
            p = it.path
            return p.get_field_z(a.z, "Graph", "_Graph__identifier") == p.get_field_z(b.z, "Graph", "_Graph__identifier")
        return None

    def cross_eq(self, it, a, b):
        # term == graph is False (Identifier.__eq__ compares types)
        return False

    def getattr(self, it, obj, name, node):
        if isinstance(obj, SV) and isinstance(obj.ty, TObj) and obj.ty.cls in ("Graph", "ConjunctiveGraph", "Dataset"):
            props = {"identifier": "_Graph__identifier", "store": "_Graph__store",
                     "default_context": "_default_context", "default_graph": "_default_context"}
            if name in props:
                return it.path.get_field(obj, props[name])
        return NotImplemented

    def pure_getattr(self, it, obj, name, node):
        if isinstance(obj, SV) and isinstance(obj.ty, TObj) and obj.ty.cls in ("Graph", "ConjunctiveGraph", "Dataset"):
            props = {"identifier": "_Graph__identifier", "store": "_Graph__store",
                     "default_context": "_default_context", "default_graph": "_default_context"}
            name = props.get(name, name)
        return super().pure_getattr(it, obj, name, node)

    def setattr(self, it, obj, name, v, node):
        if isinstance(obj, SV) and isinstance(obj.ty, TObj) and name in ("default_context", "default_graph"):
            it.path.set_field(obj, "_default_context", v)
            return True
        return NotImplemented

    def b_type(self, it, args, kw):
        v = args[0]
        if isinstance(v, SV) and isinstance(v.ty, TObj) and v.ty.cls == "Graph":
            # only for plain Graph objects (the callers' precondition pins the dynamic class)
            dyn = it.path.get_field_z(v.z, "Graph", "__dyn__")
            it.path.oblige("type(self)-is-Graph", dyn == DYN_GRAPH, "", "typing")
            return self.globals["Graph"]
        raise Unsupported("type()")

    def binop(self, it, op, a, b):
        import ast
        if isinstance(a, SV) and isinstance(a.ty, TObj) and a.ty.cls == "Graph" and \
                isinstance(b, SV) and isinstance(b.ty, TObj):
            name = {ast.Add: "__add__", ast.Sub: "__sub__", ast.Mult: "__mul__", ast.BitXor: "__xor__"}.get(type(op))
            m = self.method(it, a, name) if name else None
            if m is not None:
                return m(it, a, [b], {})
        if isinstance(op, ast.Add) and isinstance(a, Snapshot) and isinstance(b, Snapshot) and \
                a.elem_ty.sort() == b.elem_ty.sort():
            return Snapshot(a.elem_ty, lambda e: z3.Or(a.member(e), b.member(e)), False)
        return NotImplemented

    def construct_graph(self, it, cname, args, kw):
        """Graph(store=..., identifier=...) / Graph(): a new graph object; without a store argument a
        new empty store is created (region FRESH)."""
        p = it.path
        names = ["store", "identifier", "namespace_manager", "base"]
        a = dict(zip(names, args))
        a.update(kw)
        g = p.new_ref(TObj("Graph"))
        store = a.get("store")
        if store is None or isinstance(store, str):
            store = p.new_ref(STORE)
            p.set_content(SV(STORE_G, store.z), STORE_G.empty())
            p.set_content(SV(STORE_K, store.z), STORE_K.empty())
            p.set_field(store, "context_aware", True)
            p.set_field(store, "graph_aware", True)
        ident = a.get("identifier")
        if isinstance(ident, SV) and isinstance(ident.ty, TOpt):
            ident = p.project(ident.ty, ident.z)
        if ident is None or (isinstance(ident, SV) and not it.test(ident)):
            # `if not identifier: BNode()`  (a falsy identifier is replaced, as in Graph.__init__)
            ident = self.fresh_bnode(it)
        p.set_field(g, "_Graph__store", store)
        p.set_field(g, "_Graph__identifier", ident)
        p.set_field(g, "__dyn__", {"Graph": 0, "ConjunctiveGraph": 1, "Dataset": 2, "QuotedGraph": 3}[cname])
        p.set_field(g, "default_union", cname == "ConjunctiveGraph")
        p.set_field(g, "context_aware", cname != "Graph")
        if cname in ("ConjunctiveGraph", "Dataset"):
            raise Unsupported("constructing ConjunctiveGraph/Dataset inside verified code")
        return g

    def iter_descr(self, it, v):
        if isinstance(v, SV) and isinstance(v.ty, TObj) and v.ty.cls in ("Graph",):
            m = self.method(it, v, "__iter__")
            if m is not None:
                r = m(it, v, [], {})
                return it.iter_descr(r)
        return None

    def contains(self, it, coll, x, node):
        if isinstance(coll, SV) and isinstance(coll.ty, TObj) and coll.ty.cls in ("Graph",):
            m = self.method(it, coll, "__contains__")
            if m is not None:
                r = m(it, coll, [x], {})
                return _zb(it.truthy(r))
        return NotImplemented

    def inplace_op(self, it, op, cur, rhs):
        import ast
        if isinstance(cur, SV) and isinstance(cur.ty, TObj) and cur.ty.cls == "Graph":
            name = {ast.Add: "__iadd__", ast.Sub: "__isub__"}.get(type(op))
            m = self.method(it, cur, name) if name else None
            if m is not None:
                return m(it, cur, [rhs], {})
        if isinstance(op, ast.BitOr) and (isinstance(cur, (bool, SV))) and isinstance(rhs, (bool, SV)):
            a, b = it.truthy(cur), it.truthy(rhs)
            if isinstance(a, bool) and isinstance(b, bool):
                return a or b
            return SV(BOOL, z3.Or(_zb(a), _zb(b)))
        return NotImplemented

    def assume_fresh_term(self, it, b):
        """a new BNode does not occur as a graph name or in any triple of any store"""
        p = it.path
        st = p.snapshot_state()
        sr = z3.Const(p.fresh_name("sr"), z3.IntSort())
        t = z3.Const(p.fresh_name("ft"), TripleSort)
        n = z3.Const(p.fresh_name("fn"), TermSort)
        p.assume(z3.ForAll([sr, t, n], z3.Implies(G_of(st, sr)[t][n], z3.And(
            n != b, tr_s(t) != b, tr_p(t) != b, tr_o(t) != b))))
        p.assume(z3.ForAll([sr], z3.Not(K_of(st, sr)[b])))

    # ------------------------------------------------------------------ abstract Store contract
    def declare_store(self):
        M = self

        def gid(c, g):
            """identifier (z3 Term) of a runtime graph value"""
            return c.path.get_field_z(g.z, "Graph", "_Graph__identifier")
        self.gid = gid

        def ctx_pred(c, ctxv, st, store_z, t):
            """t visible through context ctxv (None = union) in state st"""
            if ctxv is None:
                return in_union(st, store_z, t)
            if isinstance(ctxv.ty, TOpt):
                return z3.If(ctxv.z == 0, in_union(st, store_z, t),
                             in_graph(st, store_z, t, st.field("Graph", "_Graph__identifier", ctxv.z)))
            return in_graph(st, store_z, t, st.field("Graph", "_Graph__identifier", ctxv.z))
        self.ctx_pred = ctx_pred

        def on_store(c, ctxv):
            """contexts handed to a store live on that store (rdflib builds Graph(store, id) views)"""
            return z3.BoolVal(True)

        # ---- add
        def add_pre(c):
            return z3.And(z3.BoolVal(c.args["context"] is not None), z3.Not(c.path.inject(BOOL, c.args["quoted"])))

        def add_post(c):
            s = c.self.z
            if c.args["context"] is None:
                return z3.BoolVal(True)   # precondition violated by the caller (reported there)
            t0 = c.path.inject(TRIPLE, c.args["triple"])
            n0 = gid(c, c.args["context"])
            G0, G1 = G_of(c.old, s), G_of(c.new, s)
            K0, K1 = K_of(c.old, s), K_of(c.new, s)
            return z3.And(G1 == z3.Store(G0, t0, z3.Store(G0[t0], n0, True)), K1 == z3.Store(K0, n0, True))
        self.add(Contract("C01", "rdflib/store.py", "Store.add",
                          [Param("triple", TRIPLE), Param("context", OGRAPH), Param("quoted", BOOL, default=False)],
                          cls="Store", self_ty=STORE, pre=add_pre, post=add_post,
                          modifies=lambda c: [(STORE_G, c.self.z), (STORE_K, c.self.z)], trusted=True,
                          note="abstract: G' = G + {(t, name(context))}, name known (proved for Memory.add, "
                               "SimpleMemory.add against their concrete views)"))

        # ---- remove
        def rm_post(c):
            s = c.self.z
            G0, G1 = G_of(c.old, s), G_of(c.new, s)
            t = z3.Const("q_t", TripleSort)
            n = z3.Const("q_n", TermSort)
            ctxv = c.args["context"]
            pat = c.args["triple"]
            if ctxv is None:
                hit = z3.BoolVal(True)
            else:
                hit = n == gid(c, ctxv)
            return z3.And(z3.ForAll([t, n], G1[t][n] == z3.And(G0[t][n], z3.Not(z3.And(match_triple(pat, t), hit)))),
                          K_of(c.new, s) == K_of(c.old, s))
        self.add(Contract("C01", "rdflib/store.py", "Store.remove",
                          [Param("triple", PAT), Param("context", OGRAPH, default=None)],
                          cls="Store", self_ty=STORE, post=rm_post,
                          modifies=lambda c: [(STORE_G, c.self.z)], trusted=True,
                          note="abstract: removes the matching triples from the given graph, or from every graph "
                               "when context is None (proved for SimpleMemory.remove and Memory.remove against their "
                               "concrete views)"))

        # ---- triples
        def tr_member(c, z):
            return z3.And(match_triple(c.args["triple"], z), ctx_pred(c, c.args["context"], c.old, c.self.z, z))

        def tr_wrap(it2, c, elem):
            tz = it2.path.inject(TRIPLE, elem)
            st, s = c.old, c.self.z

            def mem(gz, tz=tz):
                # the attached generator: the stored graph objects naming the graphs that hold the triple
                name = st.field("Graph", "_Graph__identifier", gz)
                return z3.And(gz != 0, gz == ctxobj(s, name), G_of(st, s)[tz][name])
            cg = SymIter(GRAPH, mem, True, label="contexts-of-triple")
            cg.names = lambda n, tz=tz: G_of(st, s)[tz][n]
            return (elem, cg)
        def tr_objects(c):
            """store invariant used by readers: a graph that holds a triple is known, and the store keeps one
            graph object per known name"""
            st, s = c.old, c.self.z
            n = z3.Const("co_n", TermSort)
            t = z3.Const("co_t", TripleSort)
            o = ctxobj(s, n)
            return z3.And(
                z3.ForAll([t, n], z3.Implies(G_of(st, s)[t][n], K_of(st, s)[n])),
                z3.ForAll([n], z3.Implies(K_of(st, s)[n], z3.And(
                    o > 0, o < st.alloc, st.field("Graph", "_Graph__store", o) == s,
                    st.field("Graph", "_Graph__identifier", o) == n,
                    st.field("Graph", "__dyn__", o) == DYN_GRAPH))))
        self.add(Contract("C01", "rdflib/store.py", "Store.triples",
                          [Param("triple", PAT), Param("context", OGRAPH, default=None)],
                          cls="Store", self_ty=STORE, post=tr_objects,
                          gen=GenSpec(TRIPLE, tr_member, distinct=True, wrap=tr_wrap), modifies=[], trusted=True,
                          note="abstract: exactly the matching triples of the graph (of the union when context is "
                               "None), each once (proved for Memory.triples / SimpleMemory.triples)"))

        # ---- __len__
        def len_post(c):
            t = z3.Const("len_t", TripleSort)
            s = c.self.z
            n = c.path.inject(INT, c.result)
            setz = z3.Lambda([t], ctx_pred(c, c.args["context"], c.old, s, t))
            return z3.And(n == tcard(setz), n >= 0,
                          (n == 0) == z3.Not(z3.Exists([t], ctx_pred(c, c.args["context"], c.old, s, t))))
        self.add(Contract("C01", "rdflib/store.py", "Store.__len__", [Param("context", OGRAPH, default=None)],
                          ret=INT, cls="Store", self_ty=STORE, post=len_post, modifies=[], trusted=True,
                          note="abstract: cardinality of the graph / of the union"))

        # ---- contexts(triple=None)
        def ctxs_member(c, gz):
            st, s = c.old, c.self.z
            tv = c.args["triple"]
            name = st.field("Graph", "_Graph__identifier", gz)
            base = z3.And(gz != 0, gz == ctxobj(s, name))
            return z3.And(base, opt_case(c.path, TRIPLE, tv, K_of(st, s)[name], lambda tz: G_of(st, s)[tz][name]))

        def ctxs_objects(c):
            """the store keeps one Graph object per known graph name (its all_contexts set)"""
            st, s = c.old, c.self.z
            n = z3.Const("co_n", TermSort)
            o = ctxobj(s, n)
            return z3.ForAll([n], z3.Implies(K_of(st, s)[n], z3.And(
                o > 0, o < st.alloc, st.field("Graph", "_Graph__store", o) == s,
                st.field("Graph", "_Graph__identifier", o) == n,
                st.field("Graph", "__dyn__", o) == DYN_GRAPH)))
        self.add(Contract("C02", "rdflib/store.py", "Store.contexts", [Param("triple", TOpt(TRIPLE), default=None)],
                          cls="Store", self_ty=STORE, gen=GenSpec(GRAPH, ctxs_member, distinct=True), modifies=[],
                          post=ctxs_objects,
                          trusted=True, note="abstract: the known graphs (one stored graph object per known name), or "
                                             "the graphs holding the triple; a graph holding a triple is known"))

        # ---- add_graph / remove_graph
        def ag_post(c):
            s = c.self.z
            return z3.And(K_of(c.new, s) == z3.Store(K_of(c.old, s), gid(c, c.args["graph"]), True))
        self.add(Contract("C02", "rdflib/store.py", "Store.add_graph", [Param("graph", GRAPH)], cls="Store",
                          self_ty=STORE, post=ag_post, modifies=lambda c: [(STORE_K, c.self.z)], trusted=True,
                          note="abstract: the graph name becomes known; no triple changes (proved: Memory.add_graph)"))

        def rg_post(c):
            s = c.self.z
            G0, G1 = G_of(c.old, s), G_of(c.new, s)
            t = z3.Const("q_t", TripleSort)
            n = z3.Const("q_n", TermSort)
            n0 = gid(c, c.args["graph"])
            return z3.And(z3.ForAll([t, n], G1[t][n] == z3.And(G0[t][n], n != n0)),
                          K_of(c.new, s) == z3.Store(K_of(c.old, s), n0, False))
        self.add(Contract("C02", "rdflib/store.py", "Store.remove_graph", [Param("graph", GRAPH)], cls="Store",
                          self_ty=STORE, post=rg_post,
                          modifies=lambda c: [(STORE_G, c.self.z), (STORE_K, c.self.z)], trusted=True,
                          note="abstract: empties and forgets that graph only (proved: Memory.remove_graph against "
                               "the Memory view, by the contract of Memory.remove)"))
