"""C17 (store level): Memory / SimpleMemory prefix<->namespace maps stay a two-way map.

RI:  forall p, n:  namespace[p] = n  <=>  prefix[n] = p
Top-level postcondition (from the property statement): RI holds after every bind(), whatever
the flags, and lookups in both directions agree with namespaces().
"""
from __future__ import annotations

import z3

from pyvc.core import BOOL, STR, SV, TDict, TObj, TOpt, TTuple, declare_class, option_sort
from pyvc.model import Contract, GenSpec, Param
from contracts.rdfmodel import RDFModel, TERM, TermSort

NS_DICT = TDict(STR, TERM)   # prefix -> namespace
PF_DICT = TDict(TERM, STR)   # namespace -> prefix
PAIR = TTuple(STR, TERM, name="PrefixNs")

REL = "rdflib/plugins/stores/memory.py"


class C17StoreModel(RDFModel):
    name = "c17_store"

    def __init__(self):
        super().__init__()
        for cls in ("Memory", "SimpleMemory"):
            declare_class(cls, bases=("Store",), fields={
                f"_{cls}__namespace": NS_DICT,
                f"_{cls}__prefix": PF_DICT,
            })
        self.inline_sources["_coalesce"] = ("rdflib/util.py", "_coalesce")
        for cls in ("Memory", "SimpleMemory"):
            self.declare(cls)

    # ---- views -----------------------------------------------------------------
    @staticmethod
    def maps(st, cls, self_z):
        ns_ref = st.field(cls, f"_{cls}__namespace", self_z)
        pf_ref = st.field(cls, f"_{cls}__prefix", self_z)
        return st.content(NS_DICT, ns_ref), st.content(PF_DICT, pf_ref), ns_ref, pf_ref

    @classmethod
    def RI(cls_, st, cls, self_z):
        ns, pf, ns_ref, pf_ref = cls_.maps(st, cls, self_z)
        p = z3.Const("ri_p", z3.StringSort())
        n = z3.Const("ri_n", TermSort)
        ons, opf = option_sort(TermSort), option_sort(z3.StringSort())
        return z3.And(
            ns_ref != 0, pf_ref != 0,
            z3.ForAll([p, n], (ns[p] == ons.some(n)) == (pf[n] == opf.some(p))))

    def declare(self, cls):
        M = self
        self_ty = TObj(cls)
        ons, opf = option_sort(TermSort), option_sort(z3.StringSort())

        def pre(c):
            return M.RI(c.old, cls, c.self.z)

        def bind_post(c):
            ns0, pf0, _, _ = M.maps(c.old, cls, c.self.z)
            ns1, pf1, r1, r2 = M.maps(c.new, cls, c.self.z)
            prefix = c.path.inject(STR, c.args["prefix"])
            namespace = c.args["namespace"].z
            ov = c.path.inject(BOOL, c.args["override"])
            p = z3.Const("q_p", z3.StringSort())
            # override=True: (prefix, namespace) is bound afterwards, the bindings it displaces
            # are gone, every other binding is untouched.
            exp_over = z3.ForAll([p], ns1[p] == z3.If(
                p == prefix, ons.some(namespace),
                z3.If(ns0[p] == ons.some(namespace), ons.none, ns0[p])))
            # override=False: nothing already bound is displaced; the pair is added only when
            # neither side was bound.
            free = z3.And(ns0[prefix] == ons.none, pf0[namespace] == opf.none)
            exp_keep = z3.ForAll([p], ns1[p] == z3.If(z3.And(free, p == prefix), ons.some(namespace), ns0[p]))
            return z3.And(M.RI(c.new, cls, c.self.z), z3.If(ov, exp_over, exp_keep))

        self.add(Contract(
            "C17", REL, f"{cls}.bind",
            [Param("prefix", STR), Param("namespace", TERM), Param("override", BOOL, default=True)],
            self_ty=self_ty, pre=pre, post=bind_post,
            modifies=[NS_DICT, PF_DICT],
            note="two-way map invariant preserved; exact effect on the map"))

        def ns_post(c):
            ns0, pf0, _, _ = M.maps(c.old, cls, c.self.z)
            prefix = c.path.inject(STR, c.args["prefix"])
            return c.path.inject(TOpt(TERM), c.result) == ns0[prefix]

        self.add(Contract("C17", REL, f"{cls}.namespace", [Param("prefix", STR)], ret=TOpt(TERM),
                          self_ty=self_ty, pre=pre, post=ns_post, modifies=[]))

        def pf_post(c):
            ns0, pf0, _, _ = M.maps(c.old, cls, c.self.z)
            return c.path.inject(TOpt(STR), c.result) == pf0[c.args["namespace"].z]

        self.add(Contract("C17", REL, f"{cls}.prefix", [Param("namespace", TERM)], ret=TOpt(STR),
                          self_ty=self_ty, pre=pre, post=pf_post, modifies=[]))

        def nss_member(c, z):
            ns0, pf0, _, _ = M.maps(c.old, cls, c.self.z)
            return ns0[PAIR.proj(0, z)] == ons.some(PAIR.proj(1, z))

        self.add(Contract("C17", REL, f"{cls}.namespaces", [], self_ty=self_ty, pre=pre,
                          gen=GenSpec(PAIR, nss_member, distinct=True), modifies=[],
                          note="yields each (prefix, namespace) binding exactly once"))


def _describe(self, mdl, contract, ob):
    """Concretisation hints for the bounded layer: the pre-state map and the failing call."""
    from pyvc.core import StateView
    out = RDFModel.describe_model(self, mdl, contract, ob)
    try:
        cls = contract.cls
        st0 = StateView({}, {}, {}, {}, {}, z3.Int("alloc0"))
        ns0, pf0, _, _ = self.maps(st0, cls, z3.Int("self"))
        ons, opf = option_sort(TermSort), option_sort(z3.StringSort())
        uni = list(mdl.get_universe(TermSort) or [])
        arg_p = mdl.eval(z3.Const("arg_prefix", z3.StringSort()), True)
        arg_n = mdl.eval(z3.Const("arg_namespace", TermSort), True)
        arg_o = mdl.eval(z3.Const("arg_override", z3.BoolSort()), True)
        strs = [arg_p]
        for u in uni:
            e = mdl.eval(pf0[u], True)
            if z3.is_app(e) and e.decl().eq(opf.some.decl() if hasattr(opf.some, "decl") else opf.constructor(1)):
                if not any(x.eq(e.arg(0)) for x in strs):
                    strs.append(e.arg(0))
        tidx = {}
        def ti(t):
            k = str(t)
            if k not in tidx:
                tidx[k] = len(tidx)
            return tidx[k]
        pnames = ["", "p", "q", "r", "s"]
        pre = []
        ti(arg_n)
        for i, sv in enumerate(strs[:5]):
            e = mdl.eval(ns0[sv], True)
            if z3.is_app(e) and e.num_args() == 1:
                n = e.arg(0)
                back = mdl.eval(pf0[n], True)
                if z3.is_app(back) and back.num_args() == 1 and back.arg(0).eq(sv):
                    pre.append([pnames[i], ti(n)])
        out["pre"] = pre
        out["call"] = [pnames[0], ti(arg_n), bool(z3.is_true(arg_o))]
        out["shape"] = {"override": bool(z3.is_true(arg_o)),
                        "prefix_bound": any(p == pnames[0] for p, _ in pre),
                        "namespace_bound": any(n == ti(arg_n) for _, n in pre)}
    except Exception as e:  # noqa
        out["describe_error"] = f"{type(e).__name__}: {e}"
    return out


C17StoreModel.describe_model = _describe


def build():
    return C17StoreModel()
