"""Per-property configuration of the checks (what runs, what is claimed, what is not decided)."""

A_COMMON = [
    "A1: Python int is mathematical (true in CPython)",
    "A3: builtins/stdlib are axiomatised, not verified (dict/set/list/str methods used, sorted is stable, "
    "uuid4 freshness for BNode())",
    "A4: single thread; 'schedules' are interleavings of generator steps and calls within one thread",
    "A5: dynamic dispatch resolved by the receiver types declared in the contracts; getattr/plugin lookup outside the model",
    "composition argument of DESIGN.md 2.9 (induction over histories from per-method contracts) is argued, not mechanised",
]

PROPS = {
    "C17": {
        "modules": ["contracts.c17_store"],
        "claim_level": "proof",
        "design_ref": "6.17",
        "technique": "contract-based deductive verification: PyVC (ast -> VC generator over the real source) + z3/cvc5; "
                     "bounded stand-in on the real code for the NamespaceManager string code",
        "clauses_decided": [
            "store level (Memory, SimpleMemory): bind() preserves the two-way map prefix<->namespace for every "
            "flag combination and has exactly the stated effect; namespace()/prefix() agree with it; namespaces() "
            "lists each binding exactly once (proved, all inputs)",
        ],
        "clauses_not_decided": [
            "binds issued inside parsers/serializers beyond the call to bind()",
        ],
        "explanation": "Contracts (two-way-map representation invariant, exact effect of bind) on the real "
                       "Memory/SimpleMemory methods are discharged by z3/cvc5 for all inputs; NamespaceManager "
                       "string code is covered by contracts where PyVC reaches it and by an exhaustive small-scope "
                       "run of the same concrete contract otherwise (labelled bounded).",
        "assumptions": A_COMMON,
        "level_text": "Deductive proof of the store-level map contracts for all inputs (PyVC+z3); manager-level "
                      "qname/bind histories are bounded (exhaustive small scope) where not yet under proof.",
        "level_note": "Trusted: PyVC's encoding of the Python subset, z3/cvc5, axiomatised dict/str builtins; "
                      "typing invariants of declared fields; single thread.",
    },
}
