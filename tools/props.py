"""Per-property configuration of the checks (what runs, what is claimed, what is not decided)."""

A_COMMON = [
    "A1: Python int is mathematical (true in CPython)",
    "A3: builtins/stdlib are axiomatised, not verified (dict/set/list/str methods used, sorted is stable, "
    "uuid4 freshness for BNode())",
    "A4: single thread; 'schedules' are interleavings of generator steps and calls within one thread",
    "A5: dynamic dispatch resolved by the receiver types declared in the contracts; getattr/plugin lookup outside the model",
    "composition argument of DESIGN.md 2.9 (induction over histories from per-method contracts) is argued, not mechanised",
]

TECH = ("contract-based deductive verification: PyVC (ast -> VC generator over the real source, sidecar contracts) "
        "+ z3/cvc5; bounded stand-in on the real code where stated")

PROPS = {
    "C01": {
        "modules": ["contracts.c01_memory", "contracts.c01_simplememory", "contracts.c01_graph"],
        "claim_level": "other",
        "design_ref": "6.1",
        "technique": TECH,
        "clauses_decided": [
            "Memory.add: representation invariant (46 clauses: three indexes agree, per-context index is the transpose "
            "of the context info, union index <=> some real context, ownership of nested dicts) preserved; exact "
            "effect on the abstract view Q (proved)",
            "Memory.triples: for all 8 pattern shapes x context given/None the yielded triples are exactly the matching "
            "triples of the requested graph, no duplicates, attached context generator = the triple's graphs (proved: "
            "soundness per yield, completeness per argument shape, pairwise duplicate-freedom)",
            "Memory.triples under interference: heap havocked at every yield by an arbitrary sequence of public "
            "mutators: never raises, never iterates a live container across a yield, yields only triples that match "
            "and were in the graph at some moment since iteration began (proved)",
            "Memory.remove(pattern, context): Q' = Q minus the matching triples of the requested context (of every context "
            "when None) for all patterns and contexts incl. triples shared by several graphs and triples that carry the "
            "store's default context info; the union index follows by RI; known contexts unchanged; the 57-clause "
            "representation invariant and the Evolves relation (used by the interference proof) are re-established - "
            "proved with an outer invariant over the processed triples and an inner invariant over the processed context "
            "keys of the triple being taken apart (RI minus the two union-index clauses for that triple); "
            "Memory.remove_graph = that contract + forgetting the graph (proved)",
            "Memory.__len__, __contexts, __triple_has_context, add_graph (proved)",
            "SimpleMemory.add, remove, triples (8 shapes), __len__ (proved, remove/len by loop invariants)",
            "Graph.add, remove, triples (non-path), __len__, __iter__, __contains__, set, addN, +=, -=, +, -, *, ^ "
            "against the abstract Store contract, for all terms incl. falsy ones (proved)",
        ],
        "clauses_not_decided": [
            "Memory.remove consumes self.triples(...) lazily while its body deletes: the loop is verified as an iteration "
            "over the entry-state result of Memory.triples (argued from the snapshot discipline proved in the interference "
            "variant, not mechanised); the interleaving itself is covered by the bounded stand-in",
            "real threads; stores other than Memory and SimpleMemory",
        ],
        "explanation": "Every function between the property and the code has a contract; the concrete stores are "
                       "proved against their abstract views, Graph against the abstract Store contract; the "
                       "composition over histories is the induction of DESIGN.md 2.9.",
        "assumptions": A_COMMON,
        "level_text": "Deductive proof (all inputs, all 8 pattern shapes, falsy terms, all interleavings of an open "
                      "iterator with mutators) of the contracts listed under clauses_decided, now including Memory.remove / "
                      "remove_graph; the evidence level degrades to 'other' whenever anything is undecided.",
        "level_note": "Trusted: PyVC encoding of the Python subset, z3/cvc5, axiomatised builtins, the abstract "
                      "Store contract <-> concrete store refinement argument (DESIGN 6.1), eager reading of the lazy "
                      "self-iteration in Memory.remove, __ctx_to_str key model.",
    },
    "C02": {
        "modules": ["contracts.c02_dataset", "contracts.c01_memory"],
        "claim_level": "other",
        "design_ref": "6.2",
        "technique": TECH,
        "clauses_decided": [
            "ConjunctiveGraph._graph / get_context / get_graph / contexts: a context argument (None, name, Graph object, "
            "Dataset object) is normalised to a graph on this store without changing any quad (proved)",
            "ConjunctiveGraph.add / remove / remove_context, Dataset.graph / remove_graph: exactly the addressed graph "
            "changes; removing without a graph removes from every graph; remove_graph empties and forgets only that "
            "graph and the default graph stays known (proved)",
            "ConjunctiveGraph.triples / __contains__: a read restricted to graph g (by quad or context=, name or Graph "
            "object - including an EMPTY graph object, which is falsy in Python) returns exactly G(g); without a graph "
            "the union or the default graph according to default_union (proved: soundness, no duplicates, completeness "
            "for every argument shape)",
            "ConjunctiveGraph.quads / Dataset.quads / Dataset.graphs: soundness and duplicate-freedom on graph names (proved)",
            "the store-level clauses (triple shared by several graphs, default-context compression) are the Memory "
            "representation-invariant obligations of C01",
        ],
        "clauses_not_decided": [
            "completeness of Dataset.quads / Dataset.graphs and of some ConjunctiveGraph.triples argument shapes "
            "(solver budget): bounded stand-in only",
            "Dataset.parse, pickling, ReadOnlyGraphAggregate; graph objects living on another store (copy-on-use "
            "semantics of _graph is specified but such arguments are excluded by precondition from the read contracts)",
        ],
        "explanation": "Contracts over the abstract quad view G (name -> triples) and known-names set K on every "
                       "ConjunctiveGraph/Dataset method the property mentions; Graph-level and store-level callees by "
                       "their C01 contracts.",
        "assumptions": A_COMMON,
        "level_text": "Deductive proof of the per-method contracts over the quad view (all argument shapes incl. empty "
                      "graph objects and unknown names); a few completeness VCs exceed the solver budget and are "
                      "covered by the exhaustive small-scope run, hence category 'other'.",
        "level_note": "Trusted: abstract Store contract (proved for the concrete stores in C01 incl. Memory.remove / remove_graph), "
                      "stored-context-object model of Store.contexts, PyVC/z3/cvc5.",
    },
    "C04": {
        "modules": ["contracts.c04_primitives", "contracts.c04_expr", "contracts.c04_eval"],
        "claim_level": "other",
        "design_ref": "6.4",
        "technique": TECH,
        "clauses_decided": [
            "FrozenDict.compatible == 'agree on every common variable' (proved, loop invariant); evalutils._join yields "
            "exactly one merge(x, y) per pair of compatible occurrences (x in a, y in b) - soundness, completeness and "
            "no duplicates, so multiplicities are those of the SPARQL Join; evalutils._minus keeps x iff no y in b is "
            "compatible with x and shares a variable with it (proved: soundness, completeness)",
            "ConditionalOrExpression: TRUE iff some operand's EBV is TRUE (also when another operand errs), an error iff "
            "none is TRUE and some operand errs, FALSE otherwise; ConditionalAndExpression dually: FALSE iff some operand "
            "is FALSE, an error iff none is FALSE and some errs (proved, loop invariant over an arbitrary operand "
            "collection, EBV external with three outcomes)",
            "FrozenBindings.forget(before, except): keeps exactly the bindings whose variable was unbound before (is None "
            "- a falsy term is a binding), or is in initBindings, or is excepted (proved for an arbitrary variable)",
            "evalFilter keeps exactly the operand's solutions whose EBV under the filter's scope (forget, unless "
            "no_isolated_scope) is true, an error counting as false; evalExtend (BIND) extends each solution by var := value "
            "or passes it through unchanged when the expression is an error - no solution is dropped (proved: soundness "
            "per yield and completeness)",
            "evalUnion returns exactly the solutions of its two operands (set level), BOTH evaluated under the query context "
            "as it is at the call: verified under consumer interference - between two solutions handed on, the consumer "
            "(evalGraph resets ctx.graph on every solution it passes on) may change the context's active graph arbitrarily; "
            "a lazily evaluated second branch fails the soundness obligation with a genuine counter-model (proved: loop "
            "invariants over the result list; `yield from` / yielding loops are handled by the same contract)",
            "QueryContext.__setitem__: raises AlreadyBound iff the variable is bound to a different term (falsy terms "
            "included), otherwise records the binding; state unchanged when it raises (proved)",
        ],
        "clauses_not_decided": [
            "translation of query text to algebra (translateGroupGraphPattern, filter collection, scoping) and the "
            "top-down evaluators evalBGP / evalLazyJoin / evalLeftJoin / evalGraph (evalFilter / evalExtend / evalUnion are "
            "proved one level up, relative to evalPart of their operands): their "
            "equivalence with bottom-up evaluation is a relational property of recursive functions over the algebra "
            "tree - not brought under contract; covered by the bounded differential run against an independent "
            "bottom-up evaluator only",
            "the other operators (RelationalExpression, arithmetic, built-ins) and EBV itself: bounded only",
        ],
        "explanation": "The algebra primitives that carry multiset semantics and the scoping/error helpers are proved "
                       "against their SPARQL 1.1 definitions; the composition (translator + top-down evaluator) is "
                       "compared with a reference evaluator on an enumerated query space (bounded).",
        "assumptions": A_COMMON,
        "level_text": "Deductive proof of the join/minus/compatibility primitives, the || error rule and the scoping "
                      "helpers; whole-query equivalence with the algebra is bounded (differential run), hence 'other'.",
        "level_note": "Trusted: dict(chain(..)) / FrozenBindings(ctx, pairs) builtin axioms, EBV as an external function, "
                      "the Bindings chain abstracted as one map, PyVC/z3.",
    },
    "C08": {
        "modules": ["contracts.c08_aggregates", "contracts.c08_modifiers"],
        "claim_level": "other",
        "design_ref": "6.8",
        "technique": TECH,
        "clauses_decided": [
            "one fold step of each accumulator, for all rows and all running values: COUNT +1 exactly for rows whose "
            "expression is bound (and the value joins the DISTINCT set); MIN/MAX take the first value as is and pick(old, "
            "new) afterwards - also when the running extremum is a falsy term - and skip unbound/type-error rows; SUM adds "
            "numeric(e) and folds the datatype through type_promotion; AVG advances sum and counter together; for both a "
            "member that is not a numeric literal sets the error flag (the group's aggregate is then unbound) and changes "
            "nothing else (proved)",
            "DISTINCT (evalDistinct) returns every solution of its operand, each exactly once, and nothing else; projection "
            "(evalProject) returns exactly the rows row.project(PV) of the operand's solutions (proved; ghost set of "
            "yielded solutions)",
        ],
        "clauses_not_decided": [
            "ORDER BY (stable multi-key sort with DESC), LIMIT/OFFSET slicing, REDUCED, FrozenBindings.project itself, grouping "
            "(evalGroup/evalAggregateJoin), HAVING, the aggregate rewriting in algebra.translateAggregates, SAMPLE and "
            "GROUP_CONCAT, empty-group results: sequence-level properties over sorted()/islice - bounded stand-in "
            "against an independent reference only",
        ],
        "explanation": "Accumulators are folds; the step functions are straight-line code and proved. Everything at the "
                       "level of solution sequences is compared with a reference implementation on enumerated queries.",
        "assumptions": A_COMMON,
        "level_text": "Proof of the accumulator step functions; modifiers and grouping are bounded; 'other'.",
        "level_note": "Trusted: _eval as external function (value / NotBoundError / SPARQLTypeError), numeric tower as "
                      "integers (A1), type_promotion table uninterpreted, min/max(key=_val) as a choice function.",
    },
    "C10": {
        "modules": ["contracts.c10_modify"],
        "claim_level": "other",
        "design_ref": "6.10",
        "technique": TECH,
        "clauses_decided": [
            "DELETE/INSERT ... WHERE (evalModify, without USING): the WHERE clause is evaluated exactly once and before any "
            "write; every `graph -= instantiated delete template` happens while no insertion has happened yet, i.e. the "
            "deletions of ALL solutions precede every insertion (proved: ghost flags `inserted` / `evaluated`, loop "
            "invariants attached to the loops of the real source by what they write)",
            "addressing: _defaultGraph returns ctx.graph when it is a plain Graph and the dataset's default graph otherwise "
            "(never the union); _graphOrDefault maps DEFAULT to that graph and a name to get_context(name); INSERT DATA only "
            "performs `+=`, DELETE DATA only `-=`, each on the real default graph and on get_context(g) for the request's "
            "graph names and nowhere else; _graphAll maps DEFAULT to the real default graph only, NAMED to every other graph "
            "of the dataset, ALL to every graph, a name to that graph, and CLEAR empties exactly those graphs and "
            "adds nothing (so CLEAR DEFAULT leaves the named graphs alone); ADD / COPY / MOVE are no-ops when source and target are one graph, otherwise "
            "only the target receives triples and exactly {} / {target} / {target, source} are cleared (proved, ghost sets "
            "of written graph objects)",
        ],
        "clauses_not_decided": [
            "which triples the instantiated templates contain (_fillTemplate: unbound / illegal terms skipped, fresh blank "
            "nodes per solution), which graph a template of DELETE/INSERT addresses (WITH, GRAPH ?g), DELETE WHERE, DROP "
            "(store.remove_graph), the set effect of the operations on triples and the order of operations in a request: "
            "bounded stand-in only (reference implementation of the Update semantics on a dict model of the dataset)",
            "USING / USING NAMED / LOAD (external documents)",
        ],
        "explanation": "The ordering clause is a property of one function's control flow and is proved with ghost state; "
                       "the data-level clauses are compared with a reference implementation (bounded).",
        "assumptions": A_COMMON,
        "level_text": "Proof of the evaluate-once / deletions-before-insertions clause and of the addressing clauses (which "
                      "graphs INSERT DATA, DELETE DATA, CLEAR, ADD, COPY, MOVE write to; 'outside GRAPH' = the real default "
                      "graph) for all updates; what the templates contain and the set effect on triples are bounded (50 "
                      "operations + pairs x 4 datasets x 3 switch settings); 'other'.",
        "level_note": "Trusted: evalPart/_fillTemplate/get_context as effect-free external functions; set effect of "
                      "Graph += / -= from C01.",
    },
    "C11": {
        "modules": ["contracts.c11_paths"],
        "claim_level": "other",
        "design_ref": "6.11",
        "technique": TECH,
        "clauses_decided": [
            "InvPath.eval yields exactly the converse of the argument's relation and AlternativePath.eval exactly the union "
            "of the alternatives' relations, restricted to the ends that are not None (bound ends respected whatever the "
            "term's truthiness) - proved: soundness per yield and completeness per argument shape, against the abstract "
            "relation rel(p, s, o) with eval_path as the only callee",
            "NegatedPath.eval, sets of forward members !(p1|..|pn): yields exactly the pairs (s, o) linked by a triple whose "
            "OWN predicate is none of p1..pn, restricted to the ends that are not None - proved: soundness per yield and "
            "completeness per argument shape; the for/else loop over the members is verified with an invariant plus an exact "
            "break condition (a breaking iteration satisfies it, a completed one does not, the else-branch carries 'no member "
            "breaks' as a path condition), Graph.triples / Graph.__contains__ by their C01 contracts",
        ],
        "clauses_not_decided": [
            "SequencePath.eval (recursive closures over list slices), MulPath.eval (closure with a seen-set, termination on "
            "cycles, duplicate-freedom, zero-length matches) and NegatedPath.eval on sets WITH inverse members (^q; open "
            "finding C11-negated-set-inverse-members): bounded stand-in only (relational reference semantics, every "
            "operator, nesting depth 2, all bound/unbound combinations, falsy end points, parallel edges)",
            "translation of SPARQL path syntax (algebra.translatePath, parser): bounded only",
        ],
        "explanation": "The non-recursive operators are proved against the relational definition; closures and sequences "
                       "are compared with a reference implementation of the relational semantics.",
        "assumptions": A_COMMON,
        "level_text": "Proof for inverse and alternative paths and negated sets of forward members; the recursive "
                      "operators are bounded; 'other'.",
        "level_note": "Trusted: eval_path contract (Graph.triples for IRIs - C01 - and the other operators' eval), PyVC/z3.",
    },
    "C16": {
        "modules": ["contracts.c16_results"],
        "extra": [{"kind": "vt", "name": "json-round-trip-lemma", "module": "contracts.c16_results"}],
        "claim_level": "other",
        "design_ref": "6.16",
        "technique": TECH,
        "clauses_decided": [
            "SPARQL JSON, term level: termToJSON(t) is exactly the JSON object of t (type, value, datatype iff the literal has "
            "one, xml:lang iff it has a language; None stays None) and parseJsonTerm(d) is exactly the term d denotes "
            "(unknown type raises) - both proved against spec functions json_of / term_of; lemma (z3): term_of(json_of(t)) "
            "== t for every term, and json_of is injective",
        ],
        "clauses_not_decided": [
            "the row/variable structure of the JSON format (JSONResultSerializer.serialize, JSONResult._get_bindings), SPARQL "
            "XML (SAX writer + ElementTree reader), TSV (pyparsing grammar) and CSV: external libraries and string grammars; "
            "bounded stand-in only (29-term zoo x unbound patterns x empty rows x variable order)",
        ],
        "explanation": "Two straight-line functions carry the term mapping of the JSON format; they are proved equal to "
                       "spec functions whose composition is the identity (lemma).",
        "assumptions": A_COMMON,
        "level_text": "Proof of the JSON term mapping round trip for all terms; table structure and the other three formats "
                      "bounded; 'other'.",
        "level_note": "Trusted: Literal(lex, datatype, lang) re-creates the literal (normalisation idempotent - C09 bounded), "
                      "dict literal semantics (A3), PyVC/z3.",
    },
    "C14": {
        "modules": ["contracts.c14_diff"],
        "claim_level": "other",
        "design_ref": "6.14",
        "technique": TECH,
        "clauses_decided": [
            "graph_diff(g1, g2) returns (C1 & C2, C1 - C2, C2 - C1) for the canonical graphs C1, C2 of its inputs: 'both'+"
            "'first' = C1, 'both'+'second' = C2, 'first' and 'second' share no triple - proved on the real function from "
            "the C01 contracts of Graph.__mul__ / __sub__ (for whatever to_canonical_graph returns)",
        ],
        "clauses_not_decided": [
            "that to_canonical_graph / to_isomorphic / isomorphic decide isomorphism (colour refinement + search over "
            "individualisations: _TripleCanonicalizer._traces, _refine, Color.distinguish) - a search procedure whose "
            "correctness is a graph-theoretic theorem, outside what function contracts + SMT can carry; bounded stand-in "
            "against brute-force search over all blank-node bijections on 23 symmetric structures (<= 7 blank nodes), plus 10 "
            "regular structures of 8-12 blank nodes (Petersen, prism, cube, Wagner, K4,4, unions of cycles) against "
            "randomly relabelled copies of themselves and known non-isomorphic look-alikes",
            "skolemize/de_skolemize round trip (string/URL parsing): bounded only",
        ],
        "explanation": "Only the set-algebra part of the property is within reach of contracts; the canonicalisation "
                       "algorithm is compared with brute force on small symmetric graphs.",
        "assumptions": A_COMMON,
        "level_text": "Proof of the graph_diff partition laws relative to the canonical graphs; isomorphism decision itself "
                      "bounded (brute force on <= 7 blank nodes); 'other'.",
        "level_note": "Trusted: to_canonical_graph as an external function returning a fresh graph; C01 operator contracts.",
    },
    "C03": {
        "modules": ["contracts.c03_lists"],
        "extra": [{"kind": "vt", "name": "string-escapers", "module": "contracts.c05_escapes"}],
        "claim_level": "other",
        "design_ref": "6.3",
        "technique": TECH,
        "clauses_decided": [
            "termination on cyclic / malformed rdf:List structures and lossless list abbreviation, Turtle family: "
            "TurtleSerializer.isValidList and LongTurtleSerializer.isValidList terminate on every finite graph (variant: "
            "first stop index of the rdf:rest chain minus the iteration counter) and return True EXACTLY for a chain of "
            "blank-node cells, each with one rdf:first, one rdf:rest and no other property, inner cells referenced once, "
            "that reaches rdf:nil without revisiting a cell - the condition under which the ( ... ) form loses, renames or "
            "duplicates nothing; taken from the property, not from the code: the code before fix dd54950d (any chain whose "
            "cells have two properties) fails it (proved, ghost chain + witness map; four broken copies fail the proof)",
            "string escapers against the W3C STRING_LITERAL_QUOTE grammar, for ALL strings over Unicode scalar values: "
            "nt._quote_encode (N-Triples / N-Quads literal bodies) and the single-line branch of Literal._quote_encode "
            "(Turtle / N3 / TriG / SPARQL / n3()) write one pair of quotes around a body that is a sequence of grammar items "
            "(plain character, ECHAR, UCHAR) and that the grammar reads back as exactly the original string - per-character "
            "obligations generated from the real replace-chain (re-extracted from /repo on every run) and discharged by z3 "
            "over every code point; lifted to strings by the homomorphism lemma for one-character str.replace (assumed, A3) "
            "(proved; counterexample code points are replayed on the real function)",
        ],
        "clauses_not_decided": [
            "that parse(serialize(g)) is isomorphic to g with identical terms: the triple-quoted branch of "
            "Literal._quote_encode, IRI and XML/JSON escaping, qname computation, the recursive descent / SAX / JSON "
            "parsers (whether rdflib's own readers implement the grammar's reading) - bounded stand-in only, 35 graphs x 8 "
            "serializers x 2 option sets, 20 s termination alarm",
            "doList / p_squared / s_squared control flow, RDF/XML and JSON-LD list handling: bounded only",
        ],
        "explanation": "The one structural function that decides whether a list is abbreviated (and that used to loop "
                       "forever) is proved; the text-level round trip is a bounded differential run.",
        "assumptions": A_COMMON,
        "level_text": "Proof of isValidList (termination + exact, lossless acceptance condition) for Turtle/N3/long Turtle "
                      "and of the literal escapers (all strings); the round trip itself is bounded; 'other'.",
        "level_note": "Trusted: existence of the first stop index in a finite graph (pigeonhole), Graph.value / "
                      "predicate_objects as functions of the graph; rdflib.compare.isomorphic as oracle in the bounded run.",
    },
    "C05": {
        "modules": ["contracts.c12_labels"],
        "extra": [{"kind": "vt", "name": "string-escapers", "module": "contracts.c05_escapes"}],
        "claim_level": "other",
        "design_ref": "6.5",
        "technique": TECH,
        "clauses_decided": [
            "N-Triples / N-Quads, Turtle / TriG and JSON-LD documents: a blank node label repeated inside one document "
            "denotes one node and different labels different nodes (W3CNTriplesParser.nodeid, SinkParser.anonymousNode, "
            "jsonld Parser._bnode, TriXHandler.get_bnode against the label-map invariant - proved; shared with C12)",
            "N-Triples / N-Quads output, literal strings: " + "string escapers against the W3C STRING_LITERAL_QUOTE grammar, for ALL strings over Unicode scalar values: "
            "nt._quote_encode (N-Triples / N-Quads literal bodies) and the single-line branch of Literal._quote_encode "
            "(Turtle / N3 / TriG / SPARQL / n3()) write one pair of quotes around a body that is a sequence of grammar items "
            "(plain character, ECHAR, UCHAR) and that the grammar reads back as exactly the original string - per-character "
            "obligations generated from the real replace-chain (re-extracted from /repo on every run) and discharged by z3 "
            "over every code point; lifted to strings by the homomorphism lemma for one-character str.replace (assumed, A3) "
            "(proved; counterexample code points are replayed on the real function)",
        ],
        "clauses_not_decided": [
            "that every legal spelling (quoting styles, escapes, prefixes, relative IRIs, abbreviations, comments) parses to "
            "the same graph; the five ways of handing a document to parse(); the IRI / blank-node-label / language-tag parts "
            "of N-Triples / N-Quads output lines and that XML / JSON outputs are well-formed: recursive descent / regex / SAX "
            "/ JSON code over strings - bounded stand-in only (10 documents spelling one 16-triple graph x 5 input kinds, "
            "incl. IRIs mixing \\u and \\U escapes; falsy list members; label scope across TriG / N-Quads graph blocks; the "
            "C03 zoo against a strict line grammar; EVERY Unicode scalar value inside plain / language-tagged / typed "
            "literals through the nt / nt11 / nquads serializers and Literal.n3(), read back by an independent grammar reader)",
        ],
        "explanation": "The label-to-node mapping is a data-structure property within reach; the literal escapers are "
                       "one-character replace chains, i.e. string homomorphisms, whose grammar conformance and round trip "
                       "reduce to per-character obligations over the integers; everything else about concrete syntax is bounded.",
        "assumptions": A_COMMON,
        "level_text": "Proof of the blank-node label mapping of the readers and of the literal escapers of the N-Triples / "
                      "N-Quads writers (grammar conformance + reads back as the same string, all strings); all input-spelling "
                      "clauses bounded; 'other'.",
        "level_note": "Trusted: BNode() freshness; the strict line grammar in bounded/c05.py is a transcription of the RDF "
                      "1.1 N-Triples/N-Quads EBNF.",
    },
    "C06": {
        "modules": ["contracts.c06_nquads"],
        "claim_level": "other",
        "design_ref": "6.6",
        "technique": TECH,
        "clauses_decided": [
            "N-Quads serializer (NQuadsSerializer.serialize): the output consists of exactly one row per (triple, graph) pair "
            "of the dataset, each carrying the name of the graph the triple is in, plus the final newline - nothing is "
            "dropped, duplicated into another graph or written under another name (proved: nested loop invariants over "
            "the ghost output set; _nq_row / encode as functions of their arguments)",
            "store level: a triple added to graph g is in exactly G(g) - the C01/C02 contracts",
        ],
        "clauses_not_decided": [
            "the row text itself (_nq_row escaping), the N-Quads parser (parseline -> get_context(name).add) and the other "
            "five quad syntaxes (TriG, TriX, JSON-LD, HexTuples, RDF Patch): string grammars / SAX / JSON trees - bounded "
            "stand-in only: 11 datasets x 6 syntaxes round trip up to blank-node renaming; RDF Patch diff of every ordered "
            "pair of 8 ground datasets",
        ],
        "explanation": "The quad-to-row mapping of the N-Quads writer is a data-structure property and is proved; text "
                       "grammars are outside the family and are bounded.",
        "assumptions": A_COMMON,
        "level_text": "Proof that the N-Quads writer emits each triple once per graph it is in, under that graph's name; "
                      "everything textual and the other syntaxes are bounded; 'other'.",
        "level_note": "Trusted: Graph iteration yields the graph's triples (C01), Dataset.contexts() lists the graphs (C02), "
                      "_nq_row/encode uninterpreted.",
    },
    "C18": {
        "modules": ["contracts.c18_auditable"],
        "claim_level": "other",
        "design_ref": "6.18",
        "technique": TECH,
        "clauses_decided": [
            "AuditableStore.add: set effect on the wrapped store and preservation of the transaction invariant RI_tx "
            "(one log entry per quad; 'remove' entries = quads added, 'add' entries = quads removed since the "
            "transaction began; unlogged quads untouched) incl. re-adding a removed quad and no-op adds (proved)",
            "AuditableStore.rollback: from RI_tx, the loop over the undo log establishes G == S0 (content at "
            "transaction start) and empties the log, so a further rollback changes nothing (proved, loop invariant)",
            "AuditableStore.commit keeps the content and empties the log; AuditableStore.triples answers as the "
            "wrapped store (proved)",
        ],
        "clauses_not_decided": [
            "AuditableStore.remove (wildcard loops over context.triples / ConjunctiveGraph.quads with list "
            "cancel-or-append): invariant written, obligations exceed the solver budget -> bounded stand-in only "
            "(thorough tier attempts the proof)",
            "two-wrapper interleavings: bounded stand-in only; real threads not modelled (A4)",
        ],
        "explanation": "RI_tx relates the undo log, the wrapped store's quad view and the ghost snapshot S0; add and "
                       "rollback/commit are proved against it on the real code; remove is bounded.",
        "assumptions": A_COMMON,
        "level_text": "Deductive proof of add/rollback/commit/triples against the transaction invariant; remove and the "
                      "two-wrapper clause by exhaustive small scope (bounded), hence category 'other'.",
        "level_note": "Trusted: abstract Store contract of the wrapped store, Graph/ConjunctiveGraph contracts (C01/C02), "
                      "array-list model of Python lists (append/remove/iteration), locks as no-ops.",
    },
    "C19": {
        "modules": ["contracts.c19_collection", "contracts.c19_items"],
        "claim_level": "other",
        "design_ref": "6.19",
        "technique": TECH,
        "clauses_decided": [
            "Graph.value / Graph.objects (the read primitives Collection uses): proved against the graph view",
            "Collection._get_container(i): the i-th cell of a well-formed chain (rdf:nil at position len, None beyond), "
            "with termination (variant) - proved by loop invariant over the ghost cell sequence",
            "Collection.__getitem__: c[k] == items[k] for 0 <= k < len, for every member incl. falsy ones; IndexError "
            "iff k >= len (proved)",
            "Collection.__setitem__ (0 <= k < len): items' = items[k := v], chain stays well-formed (proved)",
            "Graph.items (the traversal behind __iter__ and __len__): terminates on every finite graph (variant), yields only "
            "rdf:first values of cells of the chain, raises ValueError only when the chain revisits a cell (proved)",
            "Collection._end: last cell, terminates on well-formed chains; Collection.append: items' = items + [x] "
            "with one fresh cell, chain stays well-formed, no orphan (proved)",
        ],
        "clauses_not_decided": [
            "that __len__/__iter__ (Graph.items) yield EVERY member, in order; index, __delitem__, __iadd__: bounded "
            "stand-in only (ordered-yield contracts not written)",
            "clear(): contract written (empty well-formed list, no orphaned cells, no other triple touched, terminates), 144 "
            "of 154 obligations discharge; preservation of the position ghost / frame clause and the variant time out in "
            "z3's sequence theory (60 s): NOT counted as proved, thorough tier only, bounded stand-in decides",
            "negative indices (c[-1]) and item assignment at index == len: known differences from list "
            "(known finding C19-setitem-at-len); reads on cyclic/broken chains: bounded (all chains <= 3 cells)",
        ],
        "explanation": "Ghost sequences cells/items and the well-formedness predicate WF tie the rdf:first/rdf:rest "
                       "triples to the Python list; each proved method preserves WF and has the list effect.",
        "assumptions": A_COMMON,
        "level_text": "Deductive proof (loop invariants over a ghost cell sequence) of the read path and of "
                      "append/setitem; the remaining mutators and the exact list-equivalence over histories by "
                      "exhaustive small scope (bounded), hence category 'other'.",
        "level_note": "Trusted: Graph-level contracts (proved in C01), freshness of BNode(), PyVC/z3/cvc5.",
    },
    "C20": {
        "modules": ["contracts.c20_queue"],
        "claim_level": "other",
        "design_ref": "6.20",
        "technique": TECH,
        "clauses_decided": [
            "decides only the edit-queue clause: SPARQLUpdateStore.add/remove queue exactly one write after the earlier "
            "ones (autocommit off) or send the queue at once (autocommit on); when they raise (no update endpoint, blank "
            "node) nothing is queued or sent; commit() sends all queued writes joined in call order in ONE request and "
            "empties the queue; rollback() discards exactly the unsent ones; len(), triples(), contexts() and query() "
            "commit first (one request, call order) unless dirty_reads or autocommit and otherwise leave queue and endpoint "
            "alone; add_graph / remove_graph go through the queue like any other write - a DROP is never sent ahead of "
            "queued writes (proved, with _update abstracted as a ghost append to `sent`; update()'s own queue discipline "
            "is assumed: its text rewriting is regular-expression code)",
        ],
        "clauses_not_decided": [
            "that the generated SPARQL query/update text means the intended pattern at a conforming endpoint (triples, "
            "triples_choices, __len__, contexts, _node_to_sparql, _inject_prefixes, _insert_named_graph), HTTP and result "
            "decoding: not decidable by function contracts; covered only by the bounded loop-back stand-in",
        ],
        "explanation": "The queue discipline is a data-structure property of one class and is proved; text semantics at "
                       "a remote endpoint is outside this family (DESIGN 6.20) and gets the in-process loop-back "
                       "stand-in (labelled bounded).",
        "assumptions": A_COMMON,
        "level_text": "Proof of the edit-queue clause only; everything about the meaning of generated SPARQL text is "
                      "bounded (in-process loop-back endpoint answering with rdflib's own engine), hence 'other'.",
        "level_note": "Trusted: _update/_query as external functions (ghost `sent`), '%'-formatting/join/n3 as "
                      "uninterpreted functions, PyVC/z3.",
    },
    "C07": {
        "modules": ["contracts.c07_terms"],
        "extra": [{"kind": "vt", "name": "term-law-lemmas", "module": "contracts.c07_terms"},
                  {"kind": "vt", "name": "string-escapers", "module": "contracts.c05_escapes"}],
        "claim_level": "other",
        "design_ref": "6.7",
        "technique": TECH,
        "clauses_decided": [
            "n3() text of a single-line literal: the quoted string written by Literal._quote_encode is a sequence of "
            "STRING_LITERAL_QUOTE items that the Turtle / SPARQL grammar reads back as exactly the literal's string, for all "
            "strings without a newline (per-character obligations from the real replace chain, z3 over every code point; "
            "homomorphism lemma assumed) - proved; shared with C05",
            "Identifier.__eq__/__ne__, Literal.__eq__, Literal.__hash__, Identifier.__lt__/__gt__ are proved equal to "
            "spec functions (same kind and text; literal: text, datatype, lower-cased language; kind ranking table read "
            "from the source, string order within a kind)",
            "lemmas over the spec functions (z3): == reflexive, symmetric, transitive; kinds never equal; literal never "
            "equals non-literal; == implies equal hash (IRIs/blank nodes and literals, language case-insensitive on both "
            "sides); < on IRIs/blank nodes/variables is a strict total order consistent with BNode < Variable < URIRef < Literal",
        ],
        "clauses_not_decided": [
            "Literal value-space ordering (Literal.__gt__/__lt__), pickling/copying, from_n3(n3()), n3() read by the "
            "Turtle and SPARQL parsers: bounded stand-in over a 35-term zoo only",
        ],
        "explanation": "The comparison methods are straight-line code and are proved against spec functions; the laws "
                       "are then z3 lemmas over those spec functions.",
        "assumptions": A_COMMON,
        "level_text": "Deductive proof of the equality/hash/kind-order laws for all terms; reconstruction clauses "
                      "(pickle, n3 round trips) and literal value ordering are bounded, hence 'other'.",
        "level_note": "Trusted: str hash/lower/^ as uninterpreted functions, kind tags for type(x), PyVC/z3.",
    },
    "C09": {
        "modules": ["contracts.c09_ranges"],
        "extra": [{"kind": "vt", "name": "well-formedness-dispatch-table", "module": "contracts.c09_ranges"}],
        "claim_level": "other",
        "design_ref": "6.9",
        "technique": TECH,
        "clauses_decided": [
            "every _well_formed_* range predicate accepts exactly the XSD value range of its datatype (int, short, byte, "
            "unsigned*, (non)positive/(non)negative integers; boolean lexical space) - proved, linear integer arithmetic",
            "the dispatch table _check_well_formed_types attaches the right predicate to each datatype (proved-finite on "
            "the table read from the source)",
        ],
        "clauses_not_decided": [
            "that int()/float()/Decimal()/isoformat()/the regex date-time parsers implement the XSD lexical mappings over "
            "whole value spaces (external functions, floating point): bounded corner sets only",
            "Literal.__new__ control flow (ill_typed wiring, normalisation) - bounded only so far",
        ],
        "explanation": "Range predicates are linear integer code and are proved; the converter axiom per datatype is "
                       "bounded on corner sets (DESIGN 6.9).",
        "assumptions": A_COMMON,
        "level_text": "Proof of the value-range predicates and the dispatch table; the Python-value/lexical-form "
                      "mappings themselves are bounded (corner-case sets), hence 'other'.",
        "level_note": "Trusted: CPython int semantics; converters not verified.",
    },
    "C13": {
        "modules": [],
        "extra": [{"kind": "venv", "name": "frame-checker", "script": "tools/frame_check.py", "args": ["--prop", "C13"]},
                  {"kind": "venv", "name": "frame-checker-query-tree", "script": "tools/frame_check.py", "args": ["--prop", "C15"]}],
        "claim_level": "other",
        "design_ref": "6.13",
        "technique": "contract-based: frame / effect checker (modifies clauses over the real call graph, tools/frame.py) "
                     "resting on the C01/C02 method contracts; bounded before/after stand-in on witness datasets",
        "clauses_decided": [
            "for each of 49 read-only entry points (every registered serializer class, evalQuery, rdflib.compare "
            "isomorphic/to_isomorphic/to_canonical_graph/graph_diff/similar, Graph iteration/slicing/value/items/cbd/"
            "skolemize, ConjunctiveGraph/Dataset triples/quads/__contains__/triples_choices/graphs, every path operator's "
            "eval): every call site of a mutator (add, addN, remove, set, +=, -=, parse, update, remove_graph, add_graph/"
            "graph, remove_context, rollback, commit, destroy) reachable in the package call graph has a receiver in "
            "region FRESH (allocated inside the call tree on a new store) or is accepted on the strength of a callee "
            "contract proved in C02 (listed under allowed_sites)",
        ],
        "clauses_not_decided": [
            "(the prepared-query tree is covered: the tree-mode frame obligations of C15 are part of this check) "
            "'the same read twice gives the same answer' beyond purity: determinism of hidden caches "
            "(NamespaceManager caches, Literal value caches) is assumed; covered by the bounded run only",
            "dynamic dispatch outside the class-hierarchy/method-name resolution (getattr, plugins other than the "
            "registered serializers), stores other than the in-memory ones (A5)",
        ],
        "explanation": "A modifies-clause checker over the real sources: regions INPUT/FRESH flow through assignments, "
                       "constructors, attributes and calls (flow-sensitive inside a function, context-sensitive in the "
                       "argument regions).",
        "assumptions": A_COMMON,
        "level_text": "Static proof of the frame obligations for every read-only entry point over the real call graph "
                      "(all dataset shapes at once), plus a bounded before/after run on witness datasets; category "
                      "'other' because call resolution is by class hierarchy and method name (A5).",
        "level_note": "Trusted: call-graph resolution (CHA by name within rdflib, plugin table), region transfer rules "
                      "of tools/frame.py, the C02 contracts behind the allowed sites.",
    },
    "C12": {
        "modules": ["contracts.c12_labels"],
        "extra": [{"kind": "venv", "name": "frame-checker", "script": "tools/frame_check.py", "args": ["--prop", "C12"]}],
        "claim_level": "other",
        "design_ref": "6.12",
        "technique": "contract-based: frame / effect checker with the add-only mutator set over every parser entry "
                     "point; bounded two-document stand-in for label scoping",
        "clauses_decided": [
            "add-only: from NTParser, NQuadsParser, TurtleParser, N3Parser, TrigParser, RDFXMLParser, TriXParser, "
            "JsonLDParser, HextuplesParser .parse and Graph/ConjunctiveGraph/Dataset.parse no remove / set / -= / "
            "remove_graph / remove_context / update / rollback / destroy reaches the sink graph, its dataset or anything "
            "on its store (frame obligations over the real call graph); with C01's add contract (Q' is a superset of Q) "
            "existing triples in any graph are never removed or altered",
            "label scoping, N-Triples/N-Quads (W3CNTriplesParser.nodeid), Turtle/N3/TriG (SinkParser.anonymousNode), TriX "
            "(TriXHandler.get_bnode) and JSON-LD (Parser._bnode): a label already in the parse's label map gives its node, "
            "a new label gives a node that did not exist before (BNode() freshness) and is recorded; the map stays "
            "injective - one label one node, different labels different nodes, never an existing node (proved)",
        ],
        "clauses_not_decided": [
            "label scoping for RDF/XML (inline in node_element_start) and HexTuples (known finding: labels kept verbatim), "
            "and the reset of the map per parse call for every syntax: bounded stand-in only (two documents / same "
            "document twice, every syntax)",
        ],
        "explanation": "Same effect checker as C13 with the removing/overwriting operations as the forbidden set.",
        "assumptions": A_COMMON,
        "level_text": "Static proof of the add-only frame obligations for every parser; label scoping bounded; 'other'.",
        "level_note": "Trusted: call-graph resolution by name (A5), region rules; SAX/pyparsing callbacks are followed "
                      "only as far as they are ordinary method calls.",
    },
    "C15": {
        "modules": ["contracts.c15_prepared", "contracts.c04_expr"],
        "extra": [{"kind": "venv", "name": "frame-checker", "script": "tools/frame_check.py", "args": ["--prop", "C15"]}],
        "claim_level": "other",
        "design_ref": "6.15",
        "technique": "contract-based: frame checker in tree mode (no write into the prepared query's algebra tree during "
                     "evaluation) + PyVC contract of Expr.eval; bounded stand-in for repeated evaluation and stores",
        "clauses_decided": [
            "decides only the prepared-query clause: no function reachable from evalQuery/evalPart writes to the "
            "Query/CompValue algebra tree (item/attribute assignment, append/extend/insert/remove/pop/clear/sort/reverse/"
            "update/setdefault/del on anything reachable from the query argument); the single write site, Expr.eval's "
            "self.ctx, is proved to be undone on every exit (normal and exceptional)",
        ],
        "clauses_not_decided": [
            "rewrite invariance (pattern permutation, operand swap, variable renaming, prefix spelling, initBindings vs "
            "VALUES): relational property of parser+translator+evaluator, not decidable by function contracts",
            "store independence: Memory/SimpleMemory refine the same Store contract (C01), AuditableStore.triples (C18); "
            "ReadOnlyGraphAggregate not under contract - bounded only",
        ],
        "explanation": "State leaks between evaluations of a prepared query can only go through the query object: the "
                       "frame checker proves it is not written.",
        "assumptions": A_COMMON,
        "level_text": "Static proof that evaluation does not write the prepared query (all queries at once); the "
                      "rewrite-invariance clauses are not decided; 'other'.",
        "level_note": "Trusted: call-graph resolution by name (A5); _evalfn callbacks modelled as arbitrary callees that "
                      "do not assign self.ctx.",
    },
    "C17": {
        "modules": ["contracts.c17_store"],
        "claim_level": "other",
        "design_ref": "6.17",
        "technique": "contract-based deductive verification: PyVC (ast -> VC generator over the real source) + z3/cvc5; "
                     "bounded stand-in on the real code for the NamespaceManager string code",
        "clauses_decided": [
            "store level (Memory, SimpleMemory): bind() preserves the two-way map prefix<->namespace for every "
            "flag combination and has exactly the stated effect; namespace()/prefix() agree with it; namespaces() "
            "lists each binding exactly once (proved, all inputs)",
        ],
        "clauses_not_decided": [
            "binds issued inside parsers/serializers beyond the call to bind()",
        ],
        "explanation": "Contracts (two-way-map representation invariant, exact effect of bind) on the real "
                       "Memory/SimpleMemory methods are discharged by z3/cvc5 for all inputs; NamespaceManager "
                       "string code is covered by contracts where PyVC reaches it and by an exhaustive small-scope "
                       "run of the same concrete contract otherwise (labelled bounded).",
        "assumptions": A_COMMON,
        "level_text": "Deductive proof of the store-level map contracts for all inputs (PyVC+z3); manager-level "
                      "qname/bind histories are bounded (exhaustive small scope) where not yet under proof.",
        "level_note": "Trusted: PyVC's encoding of the Python subset, z3/cvc5, axiomatised dict/str builtins; "
                      "typing invariants of declared fields; single thread.",
    },
}
