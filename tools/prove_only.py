#!/usr/bin/env python3-vt
"""Development helper: run the two-phase parallel prover on contract modules, print a summary.
usage: prove_only.py module [substring ...]"""
import json, os, sys, time
ROOT = os.path.dirname(os.path.dirname(os.path.abspath(__file__)))
sys.path.insert(0, ROOT)
from tools.check import run_proofs
t0 = time.time()
reps, meta = run_proofs([sys.argv[1]], int(os.environ.get("PYVC_TIMEOUT_MS", "10000")), 16, sys.argv[2:] or None)
for r in reps:
    obs = r.get("obligations", [])
    npr = sum(1 for o in obs if o["status"] == "proved")
    print(f"[{r['status']:9}] {r['function']:42} paths={r.get('paths_enumerated', 0):4} obligations={npr}/{len(obs)} cpu={r.get('seconds', 0):.1f}s {r.get('reason', '')[:300]}")
    bad = {}
    for o in obs:
        if o["status"] != "proved":
            bad.setdefault((o["status"], o["name"], o["where"]), 0)
            bad[(o["status"], o["name"], o["where"])] += 1
    for (st, nm, wh), n in list(bad.items())[:12]:
        print(f"      - {st} {nm} x{n} {wh}")
    for sm in r.get("suspicious", []):
        print("      !! SUSPICIOUS:", sm)
    for m in r.get("models", [])[:int(os.environ.get("SHOW_MODELS", "1"))]:
        print("      model:", json.dumps(m)[:int(os.environ.get("MODEL_CHARS", "500"))])
if os.environ.get("PROVE_ONLY_OUT"):
    json.dump([{"function": r["function"], "status": r["status"],
                "obligations": [{"name": o["name"], "status": o["status"]} for o in r.get("obligations", [])]} for r in reps],
              open(os.environ["PROVE_ONLY_OUT"], "w"))
print(f"wall {time.time() - t0:.1f}s")
