#!/usr/bin/env python3
"""Print the as-built tables of DESIGN.md section 10 from the evidence files, seeded/RESULTS.json and known_findings.json."""
import glob, json, os, subprocess
ROOT = os.path.dirname(os.path.dirname(os.path.abspath(__file__)))
print("| id | functions under contract (real source, proved unless marked) | obligations discharged / generated (quick) | bounded cases |")
print("|---|---|---|---|")
for f in sorted(glob.glob(os.path.join(ROOT, "evidence", "C*.json"))):
    e = json.load(open(f))
    c = e["coverage"]
    fns = []
    for x in c.get("functions_under_contract", []):
        nm = x["function"]
        if x.get("status") not in ("proved", None):
            nm += " (part undecided / known finding)" if x.get("status") == "failed" else f" ({x.get('status')})"
        fns.append(nm)
    for x in c.get("extra_engines", []):
        fns.append(f"[{x.get('name')}: {x.get('discharged', 0) + x.get('finite', 0)}/{x.get('obligations')}"
                   f"{' finite' if x.get('finite') else ''}]")
    print(f"| {e['property_id']} | {', '.join(fns) or '-'} | {c['discharged']} / {c['obligations']}"
          f"{' (' + str(c['undecided_count']) + ' undecided)' if c.get('undecided_count') else ''} | {c.get('evaluations', 0) - c['obligations']} |")
print()
res = json.load(open(os.path.join(ROOT, "seeded", "RESULTS.json")))
print("| seeded change | what it changes | caught by |")
print("|---|---|---|")
for k in sorted(res):
    r = res[k]
    meta = json.load(open(os.path.join(ROOT, "seeded", k, "meta.json")))
    if meta.get("obsolete"):
        print(f"| {k} | {meta['summary'][:150].replace('|', '/')} | obsolete: {meta['obsolete'][:160]} |")
        continue
    why = (r.get("first_reasons") or [""])[0].replace("violation: ", "").replace("|", "/")[:170]
    st = "DETECTED" if r.get("detected") else r.get("status", "MISSED")
    print(f"| {k} | {meta['summary'][:150].replace('|', '/')} | {st}: {why} |")
print()
kf = json.load(open(os.path.join(ROOT, "known_findings.json")))
print("| finding | property | status | what |")
print("|---|---|---|---|")
for f in kf:
    print(f"| {f['id']} | {f['property']} | {f['status']}{' ' + f.get('commit', '') if f.get('commit') else ''} | {(f.get('what') or f.get('line') or '')[:260].replace('|', '/')} |")
