#!/usr/bin/env python3
"""Run the frame/effect checker for a property's read-only (C13), add-only (C12) or no-tree-write (C15) entry
points.   usage: frame_check.py --prop C13 --tier quick --out FILE"""
import argparse, json, os, sys
ROOT = os.path.dirname(os.path.dirname(os.path.abspath(__file__)))
sys.path.insert(0, ROOT)
from tools import frame

# call sites accepted on the strength of a callee contract proved elsewhere (key -> justification)
ALLOW_READS = {
    "ConjunctiveGraph._graph:__iadd__:_graph":
        "C02 contract of ConjunctiveGraph._graph: for a Graph object on the same store the copy is a no-op on quads "
        "(graph objects of other stores are excluded by the read contracts' precondition)",
    "Dataset.contexts:graph:self":
        "C02 contract of Dataset.graph: registers the default graph name only; quads unchanged; the default graph "
        "always exists",
    "Dataset.graphs:graph:self": "same as Dataset.contexts",
    "Dataset.graph:add_graph:self.store": "reached only through the two sites above (default graph name)",
}

SERIALIZER_ENTRIES = None


def serializer_entries(ix):
    out = []
    for c in ix.classes:
        if "Serializer" in ix.mro(c) and c != "Serializer" and f"{c}.serialize" in ix.funcs:
            rel = ix.classes[c][0]
            if "plugins/serializers" in rel:
                out.append((f"{c}.serialize", "F", [], {}))
    return out


def entries_for(prop, ix):
    if prop == "C13":
        ents = []
        for q, selfr, a, k in serializer_entries(ix):
            ents.append({"entry": q, "qual": q, "self": "F", "args": [], "kw": {}, "fields": {"store": "I"},
                         "what": "Graph.serialize(format) -> " + q})
        for fn in ("evalQuery",):
            ents.append({"entry": "evaluate.evalQuery", "qual": "rdflib/plugins/sparql/evaluate.py:" + fn, "self": None,
                         "args": ["I", "N", "N", "N"], "kw": {}, "what": "Graph.query -> evalQuery (SELECT/ASK/CONSTRUCT/DESCRIBE)"})
        for fn in ("isomorphic", "to_isomorphic", "to_canonical_graph", "graph_diff", "similar"):
            ents.append({"entry": "compare." + fn, "qual": "rdflib/compare.py:" + fn, "self": None,
                         "args": ["I", "I"], "kw": {}, "what": "rdflib.compare." + fn})
        for q in ("Graph.isomorphic", "Graph.__iter__", "Graph.__getitem__", "Graph.subjects", "Graph.objects",
                  "Graph.predicates", "Graph.value", "Graph.items", "Graph.triples", "Graph.__contains__", "Graph.__len__",
                  "Graph.connected", "Graph.all_nodes", "Graph.transitive_objects", "Graph.transitive_subjects",
                  "Graph.cbd", "Graph.skolemize", "Graph.de_skolemize",
                  "ConjunctiveGraph.triples", "ConjunctiveGraph.__contains__", "ConjunctiveGraph.quads",
                  "ConjunctiveGraph.triples_choices", "ConjunctiveGraph.contexts", "ConjunctiveGraph.__len__",
                  "Dataset.quads", "Dataset.graphs", "Dataset.__iter__",
                  "MulPath.eval", "SequencePath.eval", "AlternativePath.eval", "InvPath.eval", "NegatedPath.eval"):
            if q in ix.funcs:
                nparams = len(ix.funcs[q][2].args.args) - 1
                a = ["I"] + ["N"] * max(0, nparams - 1) if q.endswith("Path.eval") else ["N"] * nparams
                if q == "Graph.isomorphic":
                    a = ["I"]
                ents.append({"entry": q, "qual": q, "self": "F" if q.endswith("Path.eval") else "I", "args": a, "kw": {},
                             "what": q})
        return ents, ALLOW_READS
    if prop == "C12":
        # add-only: from every parser entry point, no removing/overwriting operation may reach the sink (INPUT region)
        ents = []
        for q, argi in (("NTParser.parse", 1), ("NQuadsParser.parse", 1), ("TurtleParser.parse", 1), ("N3Parser.parse", 1),
                        ("TrigParser.parse", 1), ("RDFXMLParser.parse", 1), ("TriXParser.parse", 1),
                        ("JsonLDParser.parse", 1), ("HextuplesParser.parse", 1), ("Graph.parse", -1),
                        ("ConjunctiveGraph.parse", -1), ("Dataset.parse", -1)):
            if q not in ix.funcs:
                continue
            n = len(ix.funcs[q][2].args.args) - 1
            a = ["N"] * n
            if argi >= 0 and argi < n:
                a[argi] = "I"
            ents.append({"entry": q, "qual": q, "self": "I" if argi < 0 else "F", "args": a, "kw": {},
                         "what": q + " (sink graph/dataset = INPUT)",
                         "mutators": {"remove", "set", "__isub__", "remove_graph", "remove_context", "update", "rollback",
                                      "destroy"}})
        allow = {
            "AuditableStore.add:remove:self.reverseOps":
                "C18 contract of AuditableStore.add (proved): reverseOps is the undo LOG (a Python list), list.remove on it "
                "cancels a pending entry; the effect on the wrapped store is add only",
            "NQuadsParser.parse:remove_graph:ds": {
                "guard": "len(ds_default) == 0",
                "why": "guarded by len(ds_default) == 0 (checked syntactically on every run): by the Store.remove_graph "
                       "contract only an EMPTY graph is forgotten, no quad is removed"},
            "HextuplesParser.parse:remove_graph:ds": {
                "guard": "len(ds_default) == 0",
                "why": "guarded by len(ds_default) == 0 (checked syntactically on every run): only an empty graph is forgotten"},
        }
        return ents, allow
    if prop == "C15":
        ents = [{"entry": "evaluate.evalQuery[tree]", "qual": "rdflib/plugins/sparql/evaluate.py:evalQuery", "self": None,
                 "args": ["N", "I", "N", "N"], "kw": {}, "mode": "tree",
                 "what": "evalQuery(graph, query, ...): the prepared Query/algebra tree is the INPUT region"},
                {"entry": "evaluate.evalUpdate-free:evalPart[tree]", "qual": "rdflib/plugins/sparql/evaluate.py:evalPart",
                 "self": None, "args": ["N", "I"], "kw": {}, "mode": "tree", "what": "evalPart(ctx, part)"}]
        allow = {"Expr.eval:setattr:ctx:self": "PyVC contract of Expr.eval (contracts.c15_prepared): self.ctx is None again "
                                               "on every exit, normal or exceptional; nothing else of the node changes"}
        return ents, allow
    raise SystemExit("no frame entries for " + prop)


def guard_ok(ix, site, why):
    """an allowed site may require a syntactic guard: the call must sit inside `if <guard>:` in the real source"""
    if isinstance(why, str):
        return True
    import ast
    rel, line = site["where"].rsplit(":", 1)
    tree = ast.parse(open(os.path.join(frame.REPO, rel)).read())
    for node in ast.walk(tree):
        if isinstance(node, ast.If) and ast.unparse(node.test) == why["guard"]:
            for sub in node.body:
                if sub.lineno <= int(line) <= getattr(sub, "end_lineno", sub.lineno):
                    return True
    return False


def main():
    ap = argparse.ArgumentParser()
    ap.add_argument("--prop", required=True)
    ap.add_argument("--tier", default="quick")
    ap.add_argument("--out", required=True)
    a = ap.parse_args()
    ix = frame.Index()
    ents, allow = entries_for(a.prop, ix)
    res = {"obligations": 0, "discharged": 0, "finite": 0, "undecided": [], "violations": [], "samples": [],
           "entries": [], "allowed_sites": {}}
    seen = set()
    for ent in ents:
        an = frame.Analysis(ix, mode=ent.get("mode", "graph"), mutators=ent.get("mutators"))
        an.stack.append(("<entry>", "<entry>"))
        cls = ent["qual"].split(".")[0] if ":" not in ent["qual"] else None
        for fld, r in (ent.get("fields") or {}).items():
            for c in ix.mro(cls):
                an.fields[(c, fld)] = r
        if ent["qual"] not in ix.funcs:
            res["undecided"].append(f"entry {ent['qual']} not found")
            continue
        an.analyse(ent["qual"], ent["self"], list(ent["args"]), dict(ent["kw"]))
        nfail = 0
        for s in an.sites:
            if a.prop == "C12" and s["mutator"].startswith("setattr:"):
                continue          # attribute assignment on a wrapper object is not a removing operation (C12 forbidden set)
            if s["key"] in allow and guard_ok(ix, s, allow[s["key"]]):
                why = allow[s["key"]]
                res["allowed_sites"].setdefault(s["key"], why if isinstance(why, str) else why["why"])
                an.ok_sites += 1
                continue
            nfail += 1
            k = (ent["entry"], s["key"])
            if k in seen:
                continue
            seen.add(k)
            res["violations"].append({
                "key": f"{ent['entry']}::{s['function']}::{s['mutator']}::{s['receiver']}", "kind": "frame",
                "message": f"{ent['what']}: mutator {s['mutator']}() reaches receiver `{s['receiver']}` in region "
                           f"{'INPUT' if s['region'] == 'I' else 'UNKNOWN'} at {s['where']} (path: {s['path'][-300:]})",
                "site": s})
        res["obligations"] += an.ok_sites + nfail
        res["discharged"] += an.ok_sites
        res["entries"].append({"entry": ent["entry"], "functions_visited": len(an.visited_funcs),
                               "mutator_sites_discharged": an.ok_sites, "failing": nfail})
        if len(res["samples"]) < 3:
            res["samples"].append({"frame-entry": ent["what"], "functions": len(an.visited_funcs),
                                   "discharged": an.ok_sites, "failing": nfail})
    json.dump(res, open(a.out, "w"), indent=1)


if __name__ == "__main__":
    main()
