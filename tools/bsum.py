#!/usr/bin/env python3
"""development helper: run a bounded module and print a summary.  usage: bsum.py PROP [tier] (VERIF_REPO respected)"""
import json, os, subprocess, sys, tempfile
prop = sys.argv[1]; tier = sys.argv[2] if len(sys.argv) > 2 else "quick"
out = tempfile.NamedTemporaryFile(suffix=".json", delete=False, dir="/var/tmp").name
r = subprocess.run(["/venv/bin/python", os.path.join(os.path.dirname(__file__), "..", "bounded", "run.py"), prop, "--tier", tier, "--out", out],
                   capture_output=True, text=True, env=dict(os.environ, PYTHONPATH=os.path.join(os.path.dirname(__file__), "..")))
try:
    d = json.load(open(out))
except Exception:
    print(r.stdout[-2000:], r.stderr[-3000:]); sys.exit(3)
os.unlink(out)
for k, v in d["suites"].items():
    print(k, v["cases"], v["nontrivial"], v["seconds"], v["violation_classes"])
for v in d["violations"][:int(os.environ.get("N", "40"))]:
    print(v["class"], "|", v["message"][:int(os.environ.get("W", "400"))], "|", json.dumps(v.get("case"))[:150])
