#!/usr/bin/env python3-vt
"""./check <PROP> [--tier quick|thorough] [--replay FILE]

Decides one property: (1) contract proofs of the real functions (PyVC + z3/cvc5), (2) frame/effect
obligations where the property has them, (3) the bounded stand-in on the real code, then triages
failures against known_findings.json, replays counter-models on the real code, writes
evidence/<PROP>.json and exits 0 (held) / 1 (VIOLATION line printed) / 3 (checker failure).
"""
from __future__ import annotations

import argparse
import hashlib
import importlib
import json
import multiprocessing as mp
import os
import re
import subprocess
import sys
import time
import traceback

ROOT = os.path.dirname(os.path.dirname(os.path.abspath(__file__)))
sys.path.insert(0, ROOT)
os.environ.setdefault("VERIF_WORK", os.path.join(ROOT, "work"))

VENV_PY = "/venv/bin/python"
SCHEMA_LEVELS = ("exploration", "fault_enumeration", "model_checking", "proof", "translation_validation", "other")


def load_findings():
    fn = os.path.join(ROOT, "known_findings.json")
    if not os.path.exists(fn):
        return []
    return json.load(open(fn))


def _get_model(modname):
    model = _MODEL_CACHE.get(modname)
    if model is None:
        model = importlib.import_module(modname).build()
        _MODEL_CACHE[modname] = model
    return model


def _find_contract(model, cname):
    for cc in list(model.contracts.values()) + list(model.func_contracts.values()):
        if cc.name == cname:
            return cc
    raise KeyError(cname)


def _err(cname, modname, e):
    return {"function": cname, "module": modname, "status": "error",
            "reason": f"{type(e).__name__}: {e}\n{traceback.format_exc()[-2000:]}", "obligations": [],
            "paths": 0, "seconds": 0, "where": "", "sha": "", "models": [], "dropped": [], "assumed": []}


def _enum_task(task):
    """phase 1: enumerate the paths of one function (solving only generator-level obligations)"""
    modname, cname, timeout_ms = task[:3]
    forced = tuple(task[3]) if len(task) > 3 else ()
    try:
        from pyvc.prove import verify_function
        model = _get_model(modname)
        c = _find_contract(model, cname)
        rep = verify_function(model, c, timeout_ms, interference=getattr(c, "interference", None),
                              phase="enumerate", forced=forced)
        d = rep.to_json()
        d.update(module=modname, note=c.note, prop=c.prop, vectors=getattr(rep, "vectors", []))
        return d
    except Exception as e:  # noqa
        return _err(cname, modname, e)


def _solve_task(task):
    """phase 2: re-execute a chunk of decision vectors and discharge their obligations"""
    modname, cname, timeout_ms, vectors = task
    try:
        from pyvc.prove import verify_function
        model = _get_model(modname)
        c = _find_contract(model, cname)
        rep = verify_function(model, c, timeout_ms, interference=getattr(c, "interference", None),
                              phase="solve", vectors=vectors)
        d = rep.to_json()
        d.update(module=modname, note=c.note, prop=c.prop)
        return d
    except Exception as e:  # noqa
        return _err(cname, modname, e)


_MODEL_CACHE: dict = {}


def run_proofs(modules, timeout_ms, jobs, only=None):
    tasks = []
    meta = {}
    for modname in modules:
        model = _get_model(modname)
        cs = list(model.contracts.values()) + list(model.func_contracts.values())
        meta[modname] = {"assumptions": list(model.assumptions),
                         "trusted": [c.name + (": " + c.note if c.note else "") for c in cs if c.trusted],
                         "inlined": [c.name for c in cs if c.inline]}
        for c in cs:
            if c.trusted or c.inline:
                continue
            if only and not any(o in c.name for o in only):
                continue
            if getattr(c, "thorough_only", False) and timeout_ms < 60000:
                continue
            k = getattr(c, "enum_split", 0)
            if k and c.gen is None:
                # path enumeration of a large function is itself split into 2**k slices by forcing the first k
                # decisions (a path with fewer decisions belongs to the all-True slice)
                import itertools
                for bits in itertools.product((True, False), repeat=k):
                    tasks.append((modname, c.name, timeout_ms, bits))
            else:
                tasks.append((modname, c.name, timeout_ms))
    if not tasks:
        return [], meta
    with mp.Pool(jobs) as pool:
        enums = pool.map(_enum_task, tasks, chunksize=1)
        # phase 2: chunks of paths, largest functions first
        t2 = []
        for e in enums:
            vecs = e.pop("vectors", [])
            if e["status"] in ("error", "undecided") and not vecs:
                continue
            if e["status"] == "undecided" and "outside supported subset" in e.get("reason", ""):
                continue
            n = len(vecs)
            chunk = max(1, min(12, n // (2 * jobs) + 1))
            for i in range(0, n, chunk):
                t2.append((e["module"], e["function"], timeout_ms, vecs[i:i + chunk]))
        solved = pool.map(_solve_task, t2, chunksize=1) if t2 else []
    return merge_slices(enums + solved), meta


def merge_slices(reps):
    out = {}
    order = []
    rank = {"error": 4, "failed": 3, "undecided": 2, "proved": 1}
    for r in reps:
        key = (r.get("module"), r["function"])
        if key not in out:
            out[key] = dict(r)
            out[key]["paths_enumerated"] = r.get("paths", 0)
            order.append(key)
            continue
        m = out[key]
        m["seconds"] = m.get("seconds", 0) + r.get("seconds", 0)
        m["obligations"] = m.get("obligations", []) + r.get("obligations", [])
        m["models"] = m.get("models", []) + r.get("models", [])
        m["dropped"] = sorted(set(m.get("dropped", []) + r.get("dropped", [])))
        m["assumed"] = sorted(set(m.get("assumed", []) + r.get("assumed", [])))
        m["suspicious"] = sorted(set(m.get("suspicious", []) + r.get("suspicious", [])))
        if rank.get(r["status"], 0) > rank.get(m["status"], 0):
            m["status"], m["reason"] = r["status"], r.get("reason", "")
    res = []
    for key in order:
        m = out[key]
        if m["status"] == "proved" and not m.get("obligations"):
            m["status"], m["reason"] = "error", "no obligations generated"
        res.append(m)
    return res


BASELINE_MARGIN_S = 1.5
CONFIRM_BUDGET_MS = 45000     # confirmation pass: 30x the margin; > 30 s so that generator-level VCs get the full budget too


def run_bounded(prop, tier, out, budget=None):
    if not os.path.exists(os.path.join(ROOT, "bounded", prop.lower() + ".py")):
        return None
    cmd = [VENV_PY, os.path.join(ROOT, "bounded", "run.py"), prop, "--tier", tier, "--out", out]
    if budget:
        cmd += ["--budget", str(budget)]
    env = dict(os.environ, PYTHONPATH=ROOT)
    r = subprocess.run(cmd, capture_output=True, text=True, env=env)
    if r.returncode != 0 or not os.path.exists(out):
        return {"error": (r.stderr or r.stdout)[-2000:]}
    return json.load(open(out))


def run_extra(prop, tier, spec):
    """Extra engines (frame checker, finite-table proofs) exposed as python callables under python3-vt
    or scripts under /venv python.  spec: {'kind': 'venv'|'vt', 'module': ..., }"""
    if spec["kind"] == "venv":
        out = os.path.join(os.environ["VERIF_WORK"], f"{prop}_{spec['name']}.json")
        cmd = [VENV_PY, os.path.join(ROOT, spec["script"]), "--tier", tier, "--out", out] + spec.get("args", [])
        env = dict(os.environ, PYTHONPATH=ROOT)
        r = subprocess.run(cmd, capture_output=True, text=True, env=env)
        if r.returncode not in (0,) or not os.path.exists(out):
            return {"error": (r.stderr or r.stdout)[-2000:], "name": spec["name"]}
        d = json.load(open(out))
        d["name"] = spec["name"]
        return d
    mod = importlib.import_module(spec["module"])
    d = mod.run(tier)
    d["name"] = spec["name"]
    return d


def match_finding(findings, prop, kind, key, text):
    """A known finding matches by property, kind ('obligation'|'bounded'|'frame'), a key regex
    (function/obligation or suite/class) and an optional regex on the description/model."""
    for f in findings:
        if f.get("property") != prop or f.get("status") != "open":
            continue
        for m in f.get("match", []):
            if m.get("kind") != kind:
                continue
            if not re.search(m["key"], key):
                continue
            if m.get("text") and not re.search(m["text"], text, re.S):
                continue
            return f
    return None


def main():
    ap = argparse.ArgumentParser()
    ap.add_argument("prop")
    ap.add_argument("--tier", default=os.environ.get("VERIF_TIER", "quick"))
    ap.add_argument("--replay")
    ap.add_argument("--jobs", type=int, default=int(os.environ.get("VERIF_JOBS", "16")))
    ap.add_argument("--no-bounded", action="store_true")
    ap.add_argument("--write-baseline", action="store_true",
                    help="record which obligations are proved on the (unchanged) tree in baseline/<PROP>.json")
    a = ap.parse_args()
    prop = a.prop
    tier = a.tier if a.tier in ("quick", "thorough") else "quick"
    seed = int(os.environ.get("VERIF_SEED", "0"))
    os.makedirs(os.environ["VERIF_WORK"], exist_ok=True)
    os.makedirs(os.path.join(ROOT, "evidence"), exist_ok=True)
    os.makedirs(os.path.join(ROOT, "replays"), exist_ok=True)

    if a.replay:
        rec = json.load(open(a.replay))
        if rec.get("kind") == "bounded-case":
            env = dict(os.environ, PYTHONPATH=ROOT)
            r = subprocess.run([VENV_PY, os.path.join(ROOT, "bounded", "run.py"), prop, "--replay", a.replay],
                               env=env)
            sys.exit(r.returncode)
        print(json.dumps(rec, indent=1)[:4000])
        print("(this replay file records a failed proof obligation without a concrete failing input)")
        sys.exit(1)

    from tools.props import PROPS
    cfg = PROPS[prop]
    t0 = time.time()
    timeout_ms = 20000 if tier == "quick" else 120000
    os.environ["PYVC_TIMEOUT_MS"] = str(timeout_ms)
    findings = load_findings()
    bfile = os.path.join(ROOT, "baseline", f"{prop}.json")
    baseline = json.load(open(bfile)) if os.path.exists(bfile) else {}
    new_baseline = {}
    violations = []      # (text, replayfile)
    known_lines = []
    checker_errors = []

    # ---------------- bounded layer in the background (separate interpreter)
    bounded_out = os.path.join(os.environ["VERIF_WORK"], f"{prop}_bounded.json")
    if os.path.exists(bounded_out):
        os.unlink(bounded_out)
    bproc = None
    if not a.no_bounded and os.path.exists(os.path.join(ROOT, "bounded", prop.lower() + ".py")):
        cmd = [VENV_PY, os.path.join(ROOT, "bounded", "run.py"), prop, "--tier", tier, "--out", bounded_out]
        bproc = subprocess.Popen(cmd, env=dict(os.environ, PYTHONPATH=ROOT), stdout=subprocess.PIPE,
                                 stderr=subprocess.STDOUT, text=True)

    # ---------------- proofs
    reps, meta = run_proofs(cfg.get("modules", []), timeout_ms, a.jobs)
    # ---------------- confirmation pass for the baseline-regression rule
    # An obligation that is proved comfortably in the committed baseline but came back `candidate` may be a code change - or
    # z3 having an unlucky run (its quantifier instantiation is not deterministic across machines and loads).  Before it
    # is reported, the function is verified again with a 45 s budget per obligation (30x the margin); only obligations that are still not proved
    # then are reported.  On the unchanged tree this costs time only in the unlucky case; a real change pays it once.
    suspects = {}
    for r in reps:
        for o in r.get("obligations", []):
            if o["status"] == "candidate":
                b = baseline.get(r["function"], {}).get(_generic(o["name"]))
                if b is not None and b.get("other", 0) == 0 and b.get("proved", 0) > 0 and b.get("max_s", 1e9) <= BASELINE_MARGIN_S:
                    suspects.setdefault((r.get("module"), r["function"]), set()).add(o["name"])
    confirmations = {}
    if suspects:
        for (modname, fname), names in suspects.items():
            # fresh processes (z3's instantiation order depends on the state of the process it runs in) and up to three
            # solver seeds; an obligation counts as proved if any attempt proves every instance of it
            pending = set(names)
            for seed in (0, 7, 23):
                if not pending:
                    break
                outf = os.path.join(os.environ["VERIF_WORK"], f"confirm_{prop}_{os.getpid()}_{seed}.json")
                env = dict(os.environ, PYVC_ONLY_OBLIGATIONS=json.dumps(sorted(pending)), PYVC_TIMEOUT_MS=str(CONFIRM_BUDGET_MS),
                           PYVC_Z3_SEED=str(seed), PROVE_ONLY_OUT=outf, PYTHONPATH=ROOT)
                env.pop("PYVC_GEN_CAP_MS", None)
                subprocess.run([sys.executable, os.path.join(ROOT, "tools", "prove_only.py"), modname, fname],
                               env=env, capture_output=True, text=True, cwd=ROOT)
                try:
                    reps2 = json.load(open(outf))
                    os.unlink(outf)
                except Exception:  # noqa
                    reps2 = []
                for r2 in reps2:
                    if r2["function"] != fname:
                        continue
                    st2 = {}
                    for o2 in r2.get("obligations", []):
                        st2.setdefault(o2["name"], []).append(o2["status"])
                    for n in list(pending):
                        if st2.get(n) and all(x == "proved" for x in st2[n]):
                            confirmations[(fname, n)] = ["proved"]
                            pending.discard(n)
            for n in pending:
                confirmations[(fname, n)] = ["not-proved"]
            if os.environ.get("VERIF_DEBUG"):
                print("confirmation pass", fname, {n: confirmations[(fname, n)] for n in names}, file=sys.stderr)
        for r in reps:
            for o in r.get("obligations", []):
                k = (r["function"], o["name"])
                if o["status"] == "candidate" and k in confirmations:
                    again = confirmations[k]
                    if again and all(x == "proved" for x in again):
                        o["status"], o["backend"] = "proved", (o.get("backend") or "") + "+confirmed-with-thorough-budget"
                        o["reason"] = "quick-budget run was inconclusive; proved in the confirmation pass (45 s budget)"
            if r["status"] == "failed" and not any(o["status"] in ("failed", "candidate") for o in r.get("obligations", [])):
                r["status"] = "proved" if all(o["status"] == "proved" for o in r.get("obligations", [])) else "undecided"
    extras = []
    for spec in cfg.get("extra", []):
        try:
            extras.append(run_extra(prop, tier, spec))
        except Exception as e:  # noqa
            extras.append({"name": spec["name"], "error": f"{type(e).__name__}: {e}\n{traceback.format_exc()[-1500:]}"})

    # ---------------- triage proof results
    n_ob = n_proved = n_finite = 0
    undecided = []
    functions = []
    samples = []
    solver_s = {}
    for r in reps:
        functions.append({"function": r["function"], "where": r.get("where", ""), "sha": r.get("sha", ""),
                          "status": r["status"], "paths": r.get("paths", 0), "seconds": r.get("seconds", 0),
                          "obligations": len(r.get("obligations", [])), "module": r.get("module"),
                          "note": r.get("note", "")})
        if r["status"] == "error":
            checker_errors.append(f"{r['function']}: {r.get('reason', '')[:600]}")
            continue
        for o in r.get("obligations", []):
            n_ob += 1
            solver_s[o["backend"]] = solver_s.get(o["backend"], 0.0) + o.get("seconds", 0)
            if o["status"] == "proved":
                n_proved += 1
                if len(samples) < 6 and (n_ob % 37 == 1):
                    samples.append({"function": r["function"], "obligation": o["name"], "where": o["where"],
                                    "status": "proved", "backend": o["backend"]})
            elif o["status"] == "unknown":
                undecided.append(f"{r['function']}::{o['name']} ({o.get('reason', '')[:80]})")
        if r["status"] == "undecided" and not any(o["status"] == "unknown" for o in r.get("obligations", [])):
            undecided.append(f"{r['function']}: {r.get('reason', '')[:160]}")
        for o in r.get("obligations", []):
            d = new_baseline.setdefault(r["function"], {}).setdefault(_generic(o["name"]), {"proved": 0, "other": 0, "max_s": 0.0})
            d["proved" if o["status"] == "proved" else "other"] += 1
            d["max_s"] = round(max(d["max_s"], float(o.get("seconds", 0.0))), 3)
        failed = [o for o in r.get("obligations", []) if o["status"] in ("failed", "candidate")]
        for o in failed:
            key = f"{r['function']}::{o['name']}"
            mtxt = ""
            minfo = None
            for m in r.get("models", []):
                if m["obligation"] == o["name"] or o["name"].startswith(m["obligation"]):
                    minfo = m
                    mtxt = json.dumps(m.get("model", {}), sort_keys=True)
            kf = match_finding(findings, prop, "obligation", key, mtxt)
            if kf is not None:
                known_lines.append((kf["id"], f"KNOWN-FINDING: property={prop} {kf['what']} "
                                              f"[obligation {key}]"))
                continue
            # try to confirm the counter-model on the real code
            confirmed = None
            if minfo is not None and bproc is not None:
                mf = os.path.join(os.environ["VERIF_WORK"], f"{prop}_model_{len(violations)}.json")
                info = dict(minfo.get("model", {}))
                info["function"] = r["function"]
                info["obligation"] = o["name"]
                json.dump(info, open(mf, "w"), indent=1)
                of = mf + ".out"
                cmd = [VENV_PY, os.path.join(ROOT, "bounded", "run.py"), prop, "--from-model", mf, "--out", of]
                rr = subprocess.run(cmd, env=dict(os.environ, PYTHONPATH=ROOT), capture_output=True, text=True)
                if os.path.exists(of):
                    res = json.load(open(of))
                    if res.get("confirmed"):
                        confirmed = res["confirmed"][0]
            if confirmed is not None:
                kf2 = match_finding(findings, prop, "bounded", f"{confirmed['suite']}::{confirmed['class']}",
                                    confirmed["message"])
                if kf2 is not None:
                    known_lines.append((kf2["id"], f"KNOWN-FINDING: property={prop} {kf2['what']} "
                                                   f"[obligation {key}, replayed]"))
                    continue
                rf = os.path.join(ROOT, "replays", f"{prop}_{_slug(key)}.json")
                json.dump({"kind": "bounded-case", "property": prop, "obligation": key, "where": o["where"],
                           "suite": confirmed["suite"], "case": confirmed["case"], "message": confirmed["message"],
                           "solver_model": minfo.get("model") if minfo else None}, open(rf, "w"), indent=1,
                          default=str)
                violations.append((f"obligation {key} fails; counter-model replayed on the real code: "
                                   f"{confirmed['message'][:200]}", rf, ""))
            elif o["status"] == "failed":
                rf = os.path.join(ROOT, "replays", f"{prop}_{_slug(key)}.json")
                json.dump({"kind": "failed-obligation", "property": prop, "obligation": key, "where": o["where"],
                           "function": r["function"], "status": o["status"], "backend": o["backend"],
                           "solver_output": minfo.get("model") if minfo else "sat (no model recorded)",
                           "note": "the verifier's counter-model could not be turned into a failing input "
                                   "for the real code"}, open(rf, "w"), indent=1, default=str)
                violations.append((f"obligation {key} fails (verifier counter-model, not reproduced on the real code)",
                                   rf, " no-failing-input-found"))
            else:
                b = baseline.get(r["function"], {}).get(_generic(o["name"]))
                # only obligations that were proved COMFORTABLY on the unchanged tree (slowest instance <= BASELINE_MARGIN_S,
                # a small fraction of every solver budget) can regress: a proof that needed most of its budget may time
                # out on a loaded machine without any change to the code, and must stay "undecided" then
                if b is not None and b.get("other", 0) == 0 and b.get("proved", 0) > 0 \
                        and b.get("max_s", 1e9) <= BASELINE_MARGIN_S:
                    # the obligation is proved on every path of the unchanged tree (committed baseline) and is no
                    # longer refutable: the solver stops with a counter-model candidate that satisfies every
                    # instantiated clause - reported, without a concrete failing input
                    rf = os.path.join(ROOT, "replays", f"{prop}_{_slug(key)}.json")
                    json.dump({"kind": "failed-obligation", "property": prop, "obligation": key, "where": o["where"],
                               "function": r["function"], "status": o["status"], "backend": o["backend"],
                               "solver_reason": o.get("reason", ""),
                               "solver_output": minfo.get("model") if minfo else None,
                               "note": "proved on the unchanged tree (baseline/%s.json), not provable now; the solver's "
                                       "candidate counter-model could not be turned into a failing input" % prop},
                              open(rf, "w"), indent=1, default=str)
                    violations.append((f"obligation {key} was proved on the unchanged tree and is refuted-by-candidate "
                                       f"now ({o.get('reason', '')[:80]})", rf, " no-failing-input-found"))
                else:
                    undecided.append(f"{key}: E-matching saturated without refutation; candidate model not reproduced")

    # ---------------- extras (frame checker, finite tables, ...)
    extra_summ = []
    for ex in extras:
        if ex.get("error"):
            checker_errors.append(f"{ex['name']}: {ex['error'][:600]}")
            continue
        n_ob += ex.get("obligations", 0)
        n_proved += ex.get("discharged", 0)
        n_finite += ex.get("finite", 0)
        for u in ex.get("undecided", []):
            undecided.append(f"{ex['name']}: {u}")
        for s in ex.get("samples", [])[:3]:
            samples.append(s)
        for v in ex.get("violations", []):
            key = f"{ex['name']}::{v['key']}"
            kf = match_finding(findings, prop, v.get("kind", "frame"), key, v.get("message", ""))
            if kf is not None:
                known_lines.append((kf["id"], f"KNOWN-FINDING: property={prop} {kf['what']} [{key}]"))
                continue
            rf = os.path.join(ROOT, "replays", f"{prop}_{_slug(key)}.json")
            json.dump(dict(v, property=prop, kind_=v.get("kind", "frame"), kind=v.get("replay_kind", "failed-obligation")),
                      open(rf, "w"), indent=1, default=str)
            violations.append((f"{key}: {v.get('message', '')[:200]}", rf,
                               "" if v.get("replayed") else " no-failing-input-found"))
        extra_summ.append({k: ex[k] for k in ex if k not in ("violations", "samples")})

    # ---------------- bounded results
    bres = None
    if bproc is not None:
        try:
            bout, _ = bproc.communicate(timeout=3600)
        except subprocess.TimeoutExpired:
            bproc.kill()
            bout = "timeout"
        if os.path.exists(bounded_out):
            bres = json.load(open(bounded_out))
        else:
            checker_errors.append(f"bounded layer crashed: {bout[-800:]}")
    if bres is not None:
        reported_keys = set()
        for v in bres.get("violations", []):
            key = f"{v['suite']}::{v['class']}"
            kf = match_finding(findings, prop, "bounded", key, v["message"])
            if kf is not None:
                known_lines.append((kf["id"], f"KNOWN-FINDING: property={prop} {kf['what']} [bounded {key}]"))
                continue
            if key in reported_keys:
                continue       # one report (first unmatched witness) per class
            reported_keys.add(key)
            rf = os.path.join(ROOT, "replays", f"{prop}_bounded_{_slug(key)}.json")
            json.dump({"kind": "bounded-case", "property": prop, "suite": v["suite"], "case": v["case"],
                       "message": v["message"]}, open(rf, "w"), indent=1, default=str)
            violations.append((f"bounded stand-in {key}: {v['message'][:220]}", rf, ""))
        for s in bres.get("samples", [])[:3]:
            samples.append({"bounded_case": s})

    # ---------------- verdict + evidence
    wall = time.time() - t0
    seen = set()
    for fid, line in known_lines:
        if fid in seen:
            continue
        seen.add(fid)
        print(line)
    discharged = n_proved + n_finite
    all_discharged = (n_ob > 0 and discharged == n_ob and not undecided)
    claim = cfg.get("claim_level", "other")
    level = claim
    if claim == "proof" and not all_discharged:
        level = "other"
    if not samples:
        samples = [{"note": "no obligation sample recorded"}]
    assumptions = list(cfg.get("assumptions", []))
    for mname, m in meta.items():
        assumptions.extend(m["assumptions"])
        for t in m["trusted"]:
            assumptions.append(f"trusted contract (assumed, body not verified): {t}")
        if m["inlined"]:
            assumptions.append("helpers executed inline from their real source instead of by contract: "
                               + ", ".join(m["inlined"]))
    assumptions = list(dict.fromkeys(assumptions))
    cov = {
        "obligations": n_ob,
        "discharged": discharged,
        "proved_by_smt": n_proved,
        "proved_finite": n_finite,
        "undecided": undecided[:60],
        "undecided_count": len(undecided),
        "checker_cmd": f"./check {prop} --tier {tier}",
        "trusted_base": ["PyVC symbolic executor (this repository, /verif/pyvc) and its Python-subset encoding "
                         "(DESIGN.md 2.2)", "z3 5.1.0 (python API)", "cvc5 1.0.3 (CLI)",
                         "axiomatised builtins (DESIGN.md A3)"],
        "functions_under_contract": functions,
        "solver_seconds_by_backend": {k: round(v, 2) for k, v in solver_s.items()},
        "extra_engines": extra_summ,
        "bounded": ({"suites": bres.get("suites"), "label": "bounded stand-in: never counted as proved"}
                    if bres else None),
        "evaluations": (bres or {}).get("evaluations", 0) + n_ob,
        "distinct_nontrivial": max(2, (bres or {}).get("distinct_nontrivial", 0) + n_ob) if (n_ob or bres) else 0,
        "rule": "evaluations = proof obligations generated from the current source + bounded cases executed on the "
                "real code; every obligation is a distinct (function, path, clause) triple; a bounded case is "
                "non-trivial by the suite's own rule (see bounded.suites)",
        "samples": samples[:10],
        "clauses_decided": cfg.get("clauses_decided", []),
        "clauses_not_decided": cfg.get("clauses_not_decided", []),
        "known_findings_reported": sorted(seen),
        "explanation": cfg.get("explanation", "") + (
            "" if all_discharged else f" This run: {discharged}/{n_ob} obligations discharged, "
                                      f"{len(undecided)} undecided (never reported as violations)."),
        "exhaustive": False,
    }
    ev = {"property_id": prop, "tier": tier, "seed": seed, "level": level, "coverage": cov,
          "assumptions": assumptions, "wall_s": round(wall, 2), "violations": len(violations)}
    json.dump(ev, open(os.path.join(ROOT, "evidence", f"{prop}.json"), "w"), indent=1, default=str)

    if a.write_baseline:
        os.makedirs(os.path.join(ROOT, "baseline"), exist_ok=True)
        json.dump(new_baseline, open(bfile, "w"), indent=1, sort_keys=True)
    if checker_errors:
        for e in checker_errors:
            print("CHECKER-ERROR:", e)
        if not violations:
            sys.exit(3)
        # a violation confirmed elsewhere (e.g. by the bounded layer on the real code) is reported even though one
        # engine failed on this tree: an engine that cannot read changed code must not hide a concrete failing input
    if n_ob == 0 and not bres:
        print("CHECKER-ERROR: no obligations generated")
        sys.exit(3)
    print(f"{prop}: obligations={n_ob} discharged={discharged} undecided={len(undecided)} "
          f"bounded_cases={(bres or {}).get('evaluations', 0)} known_findings={len(seen)} wall={wall:.1f}s")
    if violations:
        for text, rf, suffix in violations:
            print(f"  violation: {text}")
            print(f"VIOLATION property={prop} replay={rf}{suffix}")
        sys.exit(1)
    sys.exit(0)


def _generic(name):
    """obligation name without line numbers and event indices (stable across harmless edits)"""
    return re.sub(r"\[\d+(,\d+)?\]", "[]", re.sub(r"@\d+", "@", name))


def _slug(s):
    s2 = re.sub(r"[^A-Za-z0-9_.-]+", "_", s)[:80]
    return s2 + "_" + hashlib.sha1(s.encode()).hexdigest()[:6]


if __name__ == "__main__":
    main()
