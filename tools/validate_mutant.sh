#!/bin/bash
# usage: validate_mutant.sh <mutant-dir> [--no-suite]
# Confirms in a fresh scratch worktree: demo passes on clean tree, patch applies, demo fails with patch,
# and (unless --no-suite) every stable baseline test still passes with the patch.  Removes the worktree.
set -u
M=$(realpath "$1"); NOSUITE=${2:-}
WT=/tmp/wt/val-$$-$(basename $(dirname $M))-$(basename $M)
git -C /repo worktree add -q --detach "$WT" HEAD || exit 2
cleanup(){ git -C /repo worktree remove --force "$WT" >/dev/null 2>&1; }
trap cleanup EXIT
cd "$WT"
PYTHONPATH=$WT timeout 300 /venv/bin/python "$M/demo.py" >/tmp/val-$$.clean.log 2>&1; C=$?
git apply "$M/patch.diff" || { echo "RESULT $M patch-does-not-apply"; exit 1; }
PYTHONPATH=$WT timeout 300 /venv/bin/python "$M/demo.py" >/tmp/val-$$.mut.log 2>&1; D=$?
echo "demo: clean exit=$C mutated exit=$D"
tail -3 /tmp/val-$$.mut.log
S=skipped
if [ "$NOSUITE" != "--no-suite" ]; then
  python3 /verif/tools/run_baseline.py "$WT" > /tmp/val-$$.suite.log 2>&1; S=$?
  head -12 /tmp/val-$$.suite.log
fi
rm -f /tmp/val-$$.*.log
if [ $C -eq 0 ] && [ $D -ne 0 ] && { [ "$S" = "0" ] || [ "$S" = "skipped" ]; }; then echo "RESULT $M OK suite=$S"; exit 0; fi
echo "RESULT $M REJECTED clean=$C mutated=$D suite=$S"; exit 1
