#!/usr/bin/env python3
"""Regenerate MANIFEST.json from tools/props.py (claimed) + tools/not_applicable.json."""
import json, os, sys
ROOT = os.path.dirname(os.path.dirname(os.path.abspath(__file__)))
sys.path.insert(0, ROOT)
from tools.props import PROPS
na = json.load(open(os.path.join(ROOT, "tools", "not_applicable.json")))
ids = [json.loads(l)["id"] for l in open(os.path.join(ROOT, "properties.jsonl"))]
checks = []
for pid in ids:
    if pid not in PROPS:
        continue
    c = PROPS[pid]
    checks.append({
        "property_id": pid,
        "quick_cmd": f"./check {pid} --tier quick",
        "thorough_cmd": f"./check {pid} --tier thorough",
        "evidence_file": f"evidence/{pid}.json",
        "replay_cmd_template": f"./check {pid} --replay {{path}}",
        "engine": "pyvc",
        "level_claimed": {"category": c.get("claim_level", "other"), "text": c["level_text"],
                          "design_ref": "DESIGN.md section " + c.get("design_ref", "6")},
        "level_note": c["level_note"],
        "technique": c["technique"],
    })
nal = [{"property_id": p, "reason": na[p]} for p in ids if p not in PROPS]
missing = [p for p in ids if p not in PROPS and p not in na]
assert not missing, missing
m = {
    "version": 1,
    "setup_cmd": "./setup.sh",
    "hooks": {"guard": "RDFLIB_VERIF", "enable": "none needed: the contracts are sidecar files under /verif and the "
              "checks read /repo's working tree directly (no instrumentation in /repo)",
              "baseline_off_cmd": "cd /repo && /venv/bin/python -m pytest -ra -q -p no:cacheprovider --timeout=900 "
                                  "--continue-on-collection-errors",
              "source_commits": [], "add_only": True},
    "engines": [
        {"name": "pyvc", "path": "pyvc/", "serves_properties": [c["property_id"] for c in checks],
         "kind_free_text": "contract-based deductive verifier for a Python subset: re-reads the real source with ast on "
                           "every run, symbolic execution path by path against sidecar contracts, obligations "
                           "discharged by z3 (API) and cvc5 (CLI)"},
        {"name": "bounded", "path": "bounded/", "serves_properties": [c["property_id"] for c in checks],
         "kind_free_text": "bounded stand-in and counter-model replay on the real rdflib under /venv/bin/python; "
                           "exhaustive small scope with stated bounds; never counted as proved"},
    ],
    "checks": checks,
    "not_applicable": nal,
    "notes": "See DESIGN.md. Exit codes: 0 held, 1 violation (VIOLATION line), 3 checker failure. Known findings: known_findings.json.",
}
json.dump(m, open(os.path.join(ROOT, "MANIFEST.json"), "w"), indent=1)
print("checks:", [c["property_id"] for c in checks], "not_applicable:", len(nal))
