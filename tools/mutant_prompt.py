#!/usr/bin/env python3
"""Print the prompt handed to an independent sub-agent that is asked to break one property.
The agent gets only the property text and its own scratch worktree (nothing from /verif)."""
import json, sys
pid = sys.argv[1]; n = sys.argv[2] if len(sys.argv) > 2 else "2"
for l in open('/verif/properties.jsonl'):
    p = json.loads(l)
    if p['id'] == pid: break
wt = f"/tmp/wt/{pid}"
print(f"""You are helping test a verification tool for the Python library rdflib (RDFLib/rdflib). Your job: produce {n} DIFFERENT realistic code changes ("seeded defects") to rdflib, each of which breaks the semantic property below while the library still imports and the existing test-suite still passes.

Work ONLY inside your own scratch git worktree of the repository: {wt}  (a git worktree of /repo at its current HEAD). Never touch /repo itself and never read or write anything under /verif. Do not use the network (there is none).

PROPERTY {p['id']}: {p['title']}
Statement: {p['statement']}
Quantified over: {p['quantifier']['text']}
Relevant files: {', '.join(p['anchors']['files'])}

Requirements for each change:
1. It is a small, plausible edit to library source under {wt}/rdflib (the kind of thing a refactoring, an "optimisation" or a careless bug-fix would introduce) — NOT an edit to tests, and not something ordinary use would expose at once. Prefer changes that need something specific to manifest: an unusual input (e.g. a falsy term such as Literal(0) or Literal(""), an empty graph, a blank-node-named graph), a multi-step sequence of operations, a particular interleaving of an open iterator with mutations, or two cooperating sites that each look fine alone.
2. The library still imports, and the existing tests still pass with the change. Run the relevant test modules first, then the whole suite ONCE per change from the worktree root:
     cd {wt} && PYTHONPATH={wt} /venv/bin/python -m pytest -q -p no:cacheprovider --timeout=900 -q 2>&1 | tail -30
   NOTE: on the UNCHANGED code 24 tests already fail in this sandbox (no network: test_service*, jsonld remote, infixowl, test_plugins, rdflib/__init__ doctest, ...) and the suite takes ~3.5 minutes; so run it WITHOUT -x and compare the set of FAILED test ids with a run on the unchanged code (a ready list of the baseline failures can be produced once with the same command on a clean tree). Do NOT use `git stash` (the stash is shared between all worktrees of /repo and other agents are working in parallel); use `git diff > file`, `git checkout -- .`, `git apply file` instead.
   (PYTHONPATH makes the worktree's rdflib the one imported; verify with PYTHONPATH={wt} /venv/bin/python -c "import rdflib; print(rdflib.__file__)"). A change that makes any previously passing test fail is not acceptable; pick another.
3. A demonstration: a small standalone python program demo.py (run as: cd {wt} && PYTHONPATH={wt} /venv/bin/python <path>/demo.py — the PYTHONPATH is essential, otherwise /repo's rdflib is imported; have demo.py print rdflib.__file__ ) that exits 0 on the unchanged code and exits non-zero (assertion failure printing what went wrong) with your change applied. The demo must test the PROPERTY as stated (observable API behaviour), not implementation details. Check both directions yourself (git stash / git stash pop, or git diff > patch; git checkout -- . ; run; git apply patch; run).
4. NOTE: the unchanged library may already violate the property for some inputs; your demo must pass on the unchanged code, so pick behaviour that is currently correct and that your change breaks.

Deliver, for change k = 1..{n}, a directory /tmp/mutants/{pid}/m<k>/ containing:
  patch.diff  (git diff of the change relative to HEAD, applicable with `git apply` at the repository root)
  demo.py
  meta.json   {{"property": "{pid}", "summary": "...what was changed...", "needs": "...what is needed for it to manifest...", "ran": ["commands you ran and their outcome"]}}
Leave the worktree clean (git checkout -- .) when you finish. Make the {n} changes genuinely different (different functions / different clauses of the property). In your final message give a 3-line summary per change.""")
