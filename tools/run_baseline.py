#!/usr/bin/env python3
"""Run the repository's baseline test command in DIR (default /repo) and compare with
/root/.vp/BASELINE.json: every stable_pass test must still pass.
usage: run_baseline.py [DIR] [-k extra pytest args]     exit 0 iff no stable test regressed."""
import json, os, subprocess, sys, tempfile, xml.etree.ElementTree as ET

d = sys.argv[1] if len(sys.argv) > 1 and not sys.argv[1].startswith("-") else "/repo"
extra = [a for a in sys.argv[2:]]
b = json.load(open("/root/.vp/BASELINE.json"))
out = tempfile.NamedTemporaryFile(suffix=".junit.xml", delete=False, dir="/var/tmp").name
env = dict(os.environ, PYTHONPATH=d)
env.pop("RDFLIB_VERIF", None)
cmd = ["/venv/bin/python", "-m", "pytest", "-ra", "-q", "-p", "no:cacheprovider", "--timeout=900",
       "--continue-on-collection-errors", f"--junitxml={out}"] + extra
r = subprocess.run(cmd, cwd=d, env=env, capture_output=True, text=True)
passed, failed = set(), set()
for tc in ET.parse(out).getroot().iter("testcase"):
    tid = (tc.get("classname") or "") + "::" + (tc.get("name") or "")
    if tc.find("failure") is not None or tc.find("error") is not None:
        failed.add(tid)
    elif tc.find("skipped") is None:
        passed.add(tid)
passed -= failed
os.unlink(out)
stable = set(b["stable_pass"])
if extra:
    stable = {s for s in stable if s in passed or s in failed}
missing = sorted(s for s in stable - passed if s in failed)
notrun = sorted(s for s in stable - passed if s not in failed)
print(f"ran in {d}: passed={len(passed)} failed={len(failed)} stable_pass={len(stable)} regressed={len(missing)} "
      f"stable-but-skipped/xfailed={len(notrun)} (hash-seed dependent parametrised ids, e.g. test_swap_n3 envelopeN)")
for m in missing[:40]:
    print("  REGRESSED:", m, "(failed)")
for m in notrun[:10]:
    print("  note: not run/skipped/xfailed this time:", m)
print(r.stdout.strip().splitlines()[-1] if r.stdout.strip() else r.stderr[-300:])
sys.exit(1 if missing else 0)
