#!/usr/bin/env python3
"""Apply each seeded change (seeded/<id>/patch.diff) to /repo, run the property's quick check, undo.
usage: run_seeded.py [id ...]      writes seeded/RESULTS.json"""
import json, os, subprocess, sys, time
ROOT = os.path.dirname(os.path.dirname(os.path.abspath(__file__)))
ids = sys.argv[1:] or sorted(d for d in os.listdir(os.path.join(ROOT, "seeded")) if os.path.isdir(os.path.join(ROOT, "seeded", d)))
resf = os.path.join(ROOT, "seeded", "RESULTS.json")
results = json.load(open(resf)) if os.path.exists(resf) else {}
assert subprocess.run(["git", "-C", "/repo", "status", "--porcelain", "--untracked-files=no"], capture_output=True, text=True).stdout.strip() == "", "/repo has local changes"
for i in ids:
    d = os.path.join(ROOT, "seeded", i)
    prop = json.load(open(os.path.join(d, "meta.json")))["property"]
    ap = subprocess.run(["git", "-C", "/repo", "apply", os.path.join(d, "patch.diff")], capture_output=True, text=True)
    if ap.returncode != 0:
        results[i] = {"property": prop, "status": "patch-does-not-apply", "detail": ap.stderr[-300:]}
        print(i, "patch does not apply")
        continue
    t0 = time.time()
    try:
        r = subprocess.run([os.path.join(ROOT, "check"), prop, "--tier", "quick"], capture_output=True, text=True, cwd=ROOT)
    finally:
        subprocess.run(["git", "-C", "/repo", "checkout", "--", "."], check=True)
    vio = [l for l in r.stdout.splitlines() if l.startswith("VIOLATION")]
    why = [l.strip() for l in r.stdout.splitlines() if l.strip().startswith("violation:")]
    results[i] = {"property": prop, "exit": r.returncode, "detected": r.returncode == 1 and bool(vio),
                  "violations": vio[:6], "first_reasons": why[:4], "seconds": round(time.time() - t0, 1),
                  "summary": (r.stdout.strip().splitlines() or [""])[-1][:200] if r.returncode != 1 else ""}
    print(i, "DETECTED" if results[i]["detected"] else f"MISSED (exit {r.returncode})", f"{time.time() - t0:.0f}s", (why or [""])[0][:160])
    json.dump(results, open(resf, "w"), indent=1)
json.dump(results, open(resf, "w"), indent=1)
