#!/usr/bin/env python3
"""Frame / effect checker (DESIGN 2.8): proves `modifies` clauses of read-only entry points over the
real call graph of /repo/rdflib.

Every object gets a region:
  I  reachable from the entry point's input graph/dataset (incl. anything built on its store)
  F  allocated inside the analysed call tree with a new store (Graph(), Dataset(), ConjunctiveGraph() without
     a store argument, IsomorphicGraph(), Memory()) or a fresh helper object (serializer, query context, set, ...)
  N  not a graph/store (numbers, strings, terms, local containers)
  U  unknown
Obligation per call site reachable from an entry point:  a mutator (add, addN, remove, set, +=, -=, parse,
update, remove_graph, add_graph/graph, remove_context, rollback, commit, destroy, ...) is only applied to a
receiver in region F (or N: a plain set/dict/list).  A site whose receiver is I or U fails its obligation.

The analysis is flow-insensitive per function, field-sensitive for `self.<attr>` of helper objects, context-
sensitive in the regions of the arguments, and resolves calls by class hierarchy and method name over the
package (dynamic getattr / plugin look-ups are resolved through the plugin table in rdflib/plugin.py).
"""
from __future__ import annotations

import ast
import json
import os
import re
import sys

REPO = os.environ.get("VERIF_REPO", "/repo")
PKG = os.path.join(REPO, "rdflib")

MUTATORS = {"add", "addN", "remove", "set", "parse", "update", "remove_graph", "add_graph", "graph", "remove_context",
            "rollback", "commit", "destroy", "__iadd__", "__isub__", "load", "close", "open"}
# methods named like mutators but defined on plain containers (receiver region N => fine)
GRAPH_CLASSES = {"Graph", "ConjunctiveGraph", "Dataset", "QuotedGraph", "ReadOnlyGraphAggregate", "IsomorphicGraph",
                 "BatchAddGraph"}
STORE_CLASSES = {"Store", "Memory", "SimpleMemory", "AuditableStore"}   # A5: in-memory stores (remote/BerkeleyDB stores excluded)
EXCLUDED_CLASSES = {"SPARQLStore", "SPARQLUpdateStore", "BerkeleyDB", "SPARQLConnector"}   # A5
FRESH_CTORS = GRAPH_CLASSES | STORE_CLASSES


class Index:
    def __init__(self):
        self.funcs = {}      # qualname -> (relpath, clsname|None, node)
        self.classes = {}    # clsname -> (relpath, node, [bases])
        self.by_method = {}  # method name -> [qualname]
        self.module_funcs = {}  # (relpath, name) -> qualname
        for root, _, files in os.walk(PKG):
            for f in files:
                if not f.endswith(".py"):
                    continue
                path = os.path.join(root, f)
                rel = os.path.relpath(path, REPO)
                try:
                    tree = ast.parse(open(path, encoding="utf-8").read())
                except SyntaxError:
                    continue
                self._index_body(rel, tree.body, None)

    def _index_body(self, rel, body, cls):
        for n in body:
            if isinstance(n, ast.ClassDef):
                bases = [ast.unparse(b).split(".")[-1] for b in n.bases]
                self.classes.setdefault(n.name, (rel, n, bases))
                self._index_body(rel, n.body, n.name)
            elif isinstance(n, (ast.FunctionDef, ast.AsyncFunctionDef)):
                q = f"{cls}.{n.name}" if cls else f"{rel}:{n.name}"
                self.funcs[q] = (rel, cls, n)      # last definition wins (overloads)
                if cls:
                    lst = self.by_method.setdefault(n.name, [])
                    if q not in lst:
                        lst.append(q)
                else:
                    self.module_funcs[(rel, n.name)] = q
            elif isinstance(n, (ast.If, ast.Try)):
                for sub in ast.iter_child_nodes(n):
                    if isinstance(sub, list):
                        continue
                self._index_body(rel, [x for x in ast.walk(n) if isinstance(x, (ast.ClassDef, ast.FunctionDef)) and x is not n][:0], cls)

    def mro(self, cls):
        out, todo = [], [cls]
        while todo:
            c = todo.pop(0)
            if c in out or c not in self.classes:
                continue
            out.append(c)
            todo.extend(self.classes[c][2])
        return out

    def subclasses(self, cls):
        return [c for c in self.classes if cls in self.mro(c)]

    def resolve_method(self, cls, name):
        for c in self.mro(cls):
            q = f"{c}.{name}"
            if q in self.funcs:
                return q
        return None


def join(a, b):
    if a == b:
        return a
    if "I" in (a, b):
        return "I"
    if "U" in (a, b):
        return "U"
    if a == "N":
        return b
    if b == "N":
        return a
    return "U"


TREE_MUTATORS = {"append", "extend", "insert", "remove", "pop", "clear", "sort", "reverse", "update", "setdefault",
                 "popitem", "add", "discard", "__setitem__", "__delitem__"}


class Analysis:
    def __init__(self, index: Index, allow=None, mode="graph", mutators=None):
        """mode 'graph': regions follow graphs/stores (C13, C12); mode 'tree': region I marks the prepared query's
        algebra tree (CompValue / lists / dicts reachable from it) and the mutators are container/attribute writes (C15)"""
        self.mode = mode
        self.mutators = mutators if mutators is not None else (MUTATORS if mode == "graph" else TREE_MUTATORS)
        self.ix = index
        self.memo = {}
        self.sites = []            # failing obligations
        self.ok_sites = 0          # discharged obligations
        self.fields = {}           # (class, attr) -> region
        self.field_types = {}      # (class, attr) -> class name of the object stored there
        self.stack = []
        self.visited_funcs = set()
        self.assumptions = set()
        self.allow = allow or {}
        self.plugin_serializers = self.read_plugins()

    def read_plugins(self):
        src = open(os.path.join(PKG, "plugin.py"), encoding="utf-8").read()
        out = {}
        for m in re.finditer(r'register\(\s*"([^"]+)",\s*(\w+),\s*"([^"]+)",\s*"(\w+)"', src):
            out.setdefault(m.group(2), {})[m.group(1)] = m.group(4)
        return out

    # ------------------------------------------------------------------ expressions
    def ev(self, e, env, cls):
        """region of an expression"""
        if e is None:
            return "N"
        if isinstance(e, ast.Name):
            return env.get(e.id, "N" if e.id in ("None", "True", "False") else env.get("*global*", "N"))
        if isinstance(e, ast.Constant):
            return "N"
        if isinstance(e, ast.Attribute) and self.mode == "tree":
            base = self.ev(e.value, env, cls)
            if isinstance(e.value, ast.Name) and e.value.id == "self" and cls and "self." + e.attr in env:
                return env["self." + e.attr]
            return base if base in ("I", "U") else "N"
        if isinstance(e, ast.Attribute):
            base = self.ev(e.value, env, cls)
            if isinstance(e.value, ast.Name) and e.value.id == "self" and cls:
                if "self." + e.attr in env:
                    return env["self." + e.attr]        # assigned earlier in this function (flow-sensitive)
                for c in self.ix.mro(cls):
                    if (c, e.attr) in self.fields:
                        return self.fields[(c, e.attr)]
            if e.attr in ("store", "default_context", "default_graph", "graph", "_default_context", "dataset",
                          "_Graph__store", "namespace_manager", "context", "ctx"):
                return base if base in ("I", "F") else ("U" if base == "U" else "N")
            return "N" if base in ("N", "F") else ("N" if e.attr in ("identifier", "base", "value", "datatype", "language") else base)
        if isinstance(e, ast.Call):
            return self.ev_call(e, env, cls)
        if isinstance(e, (ast.BoolOp,)):
            r = "N"
            for v in e.values:
                r = join(r, self.ev(v, env, cls))
            return r
        if isinstance(e, ast.IfExp):
            return join(self.ev(e.body, env, cls), self.ev(e.orelse, env, cls))
        if isinstance(e, ast.Subscript):
            return self.ev(e.value, env, cls) if self.ev(e.value, env, cls) in ("I", "U") else "N"
        if isinstance(e, (ast.Tuple, ast.List, ast.Set)):
            r = "N"
            for v in e.elts:
                r = join(r, self.ev(v, env, cls))
            return r
        if isinstance(e, ast.NamedExpr):
            r = self.ev(e.value, env, cls)
            env[e.target.id] = join(env.get(e.target.id, r), r)
            return r
        if isinstance(e, (ast.ListComp, ast.GeneratorExp, ast.SetComp)):
            env2 = dict(env)
            for g in e.generators:
                self.bind_target(g.target, self.elem_region(g.iter, env2, cls), env2)
            return self.ev(e.elt, env2, cls)
        if isinstance(e, ast.Starred):
            return self.ev(e.value, env, cls)
        for ch in ast.iter_child_nodes(e):
            if isinstance(ch, ast.expr):
                self.ev(ch, env, cls)
        return "N"

    def elem_region(self, it, env, cls):
        """region of the elements produced by iterating `it`"""
        if self.mode == "tree":
            r = self.ev(it, env, cls)
            if isinstance(it, ast.Call) and isinstance(it.func, ast.Name) and it.func.id in ("reversed", "list", "sorted", "enumerate", "zip"):
                r = "N"
                for a in it.args:
                    r = join(r, self.ev(a, env, cls))
            return r
        if isinstance(it, ast.Call) and isinstance(it.func, ast.Attribute) and it.func.attr in (
                "graphs", "contexts", "get_context", "get_graph"):
            return self.ev(it.func.value, env, cls)
        if isinstance(it, ast.Call) and isinstance(it.func, ast.Attribute) and it.func.attr in ("quads",):
            return self.ev(it.func.value, env, cls)  # (s,p,o,ctx): ctx is a graph of the receiver's store
        r = self.ev(it, env, cls)
        if isinstance(it, ast.Name):
            return r            # a variable holding a collection of graphs (region of its elements) or plain data (N)
        if isinstance(it, ast.Call) and isinstance(it.func, ast.Name) and it.func.id in ("list", "set", "sorted", "tuple", "reversed"):
            return r
        return "N"              # iterating a graph / a triples generator yields terms

    def ev_call(self, e, env, cls):
        f = e.func
        args = [self.ev(a, env, cls) for a in e.args]
        kw = {k.arg: self.ev(k.value, env, cls) for k in e.keywords if k.arg}
        name = f.attr if isinstance(f, ast.Attribute) else (f.id if isinstance(f, ast.Name) else None)
        # constructors
        if isinstance(f, ast.Name) and f.id in FRESH_CTORS or (isinstance(f, ast.Attribute) and f.attr in FRESH_CTORS):
            ctor = name
            store_r = kw.get("store", args[0] if args else None)
            if ctor in ("ReadOnlyGraphAggregate",):
                return join("F", args[0] if args else "N")
            if store_r in ("I", "U"):
                return store_r
            if ctor in GRAPH_CLASSES and store_r is None:
                return "F"
            if ctor in STORE_CLASSES:
                return "F" if not args or all(a in ("N", "F") for a in args) else join("F", args[0])
            return "F"
        if isinstance(f, ast.Call) and isinstance(f.func, ast.Name) and f.func.id == "type":
            # type(self)() - a new object of the same class (no store argument => fresh)
            return "F" if not args and not kw else join("F", *(args or ["N"]))
        recv = self.ev(f.value, env, cls) if isinstance(f, ast.Attribute) else None
        if self.mode != "tree" and isinstance(f, ast.Name) and f.id in self.ix.classes and f.id not in FRESH_CTORS:
            # an object built from graph-region arguments keeps them (QueryContext(graph), Collection(graph, ..),
            # serializer(store)): what is reached through its attributes is in the region of what it was given
            r = "N"
            for x in list(args) + list(kw.values()):
                if x in ("I", "U", "F"):
                    r = join(r, x)
            self.call_targets(e, f, recv, args, kw, env, cls)
            return r
        if isinstance(f, ast.Name) and f.id in ("list", "set", "sorted", "tuple", "iter", "reversed", "frozenset") and args:
            return args[0]      # containers of graphs keep the region of their elements
        if isinstance(f, ast.Attribute) and f.attr in ("contexts", "graphs") and recv is not None:
            self.call_targets(e, f, recv, args, kw, env, cls)
            return recv         # a collection of graphs of the receiver
        # mutator obligation
        if isinstance(f, ast.Attribute) and f.attr in self.mutators:
            self.obligation(e, f.attr, recv, ast.unparse(f.value), cls)
        if self.mode == "tree":
            callee_regions = self.call_targets(e, f, recv, args, kw, env, cls)
            if isinstance(f, ast.Attribute) and f.attr in ("get", "__getitem__", "items", "values", "keys", "copy") and recv in ("I", "U"):
                return recv if f.attr != "copy" else "N"
            r = "N"
            for x in callee_regions:
                r = join(r, x)
            return r
        # interprocedural step
        callee_regions = self.call_targets(e, f, recv, args, kw, env, cls)
        # result region
        if name in ("graph", "get_context", "get_graph", "_graph", "add_graph", "default_context", "skolemize",
                    "de_skolemize", "cbd", "to_isomorphic", "to_canonical_graph") and recv is not None:
            if name in ("skolemize", "de_skolemize", "cbd"):
                tgt = kw.get("new_graph", kw.get("target_graph", None))
                return tgt if tgt in ("I", "U", "F") else "F"
            if name in ("to_isomorphic", "to_canonical_graph"):
                return "F"
            return recv
        if callee_regions:
            r = "N"
            for x in callee_regions:
                r = join(r, x)
            return r
        if name in ("triples", "quads", "subjects", "objects", "predicates", "subject_objects", "value", "items",
                    "query", "serialize", "namespaces", "n3", "qname", "isomorphic", "__len__", "len", "str"):
            return "N"
        return "N"

    # ------------------------------------------------------------------ obligations
    def obligation(self, node, mname, recv, recv_txt, cls):
        where = f"{self.stack[-1][0]}:{node.lineno}"
        fn = self.stack[-1][1]
        key = f"{fn}:{mname}:{recv_txt}"
        if recv in ("F", "N"):
            self.ok_sites += 1
            return
        path = " -> ".join(x[1] for x in self.stack)
        self.sites.append({"where": where, "function": fn, "mutator": mname, "receiver": recv_txt, "region": recv,
                           "path": path, "key": key})

    # ------------------------------------------------------------------ calls
    def call_targets(self, e, f, recv, args, kw, env, cls):
        out = []
        targets = []
        if isinstance(f, ast.Name):
            q = self.ix.module_funcs.get((self.stack[-1][0], f.id))
            if q is None:
                cands = [v for (rel, nm), v in self.ix.module_funcs.items() if nm == f.id]
                if len(cands) == 1:
                    q = cands[0]
            if q:
                targets.append((q, None, args, kw))
            elif f.id in self.ix.classes and f.id not in FRESH_CTORS:
                init = self.ix.resolve_method(f.id, "__init__")
                if init:
                    targets.append((init, "F", args, kw))
                    self._record_ctor(f.id)
        elif isinstance(f, ast.Attribute):
            mname = f.attr
            if isinstance(f.value, ast.Name) and f.value.id == "self" and cls:
                # self.m(): the method in this class or any subclass override
                qs = set()
                q = self.ix.resolve_method(cls, mname)
                if q:
                    qs.add(q)
                for sub in self.ix.subclasses(cls):
                    q2 = f"{sub}.{mname}"
                    if q2 in self.ix.funcs and sub not in EXCLUDED_CLASSES:
                        qs.add(q2)
                for q in qs:
                    targets.append((q, env.get("self", "F"), args, kw))
            elif isinstance(f.value, ast.Call) and isinstance(f.value.func, ast.Name) and f.value.func.id == "super" and cls:
                for c in self.ix.mro(cls)[1:]:
                    q = f"{c}.{mname}"
                    if q in self.ix.funcs:
                        targets.append((q, env.get("self", "F"), args, kw))
                        break
            elif isinstance(f.value, ast.Name) and f.value.id in self.ix.classes:
                q = self.ix.resolve_method(f.value.id, mname)
                if q:
                    targets.append((q, args[0] if args else "N", args[1:], kw))
            elif self.static_type(f.value, env, cls) is not None:
                tcls = self.static_type(f.value, env, cls)
                q = self.ix.resolve_method(tcls, mname)
                if q:
                    targets.append((q, recv if recv in ("I", "U") else "F", args, kw))
            elif self.mode == "tree":
                tree_arg = any(a in ("I", "U") for a in list(args) + list(kw.values()))
                if tree_arg and recv not in ("I", "U") and mname not in TREE_MUTATORS:
                    # the tree is handed to a method of a helper object (bindings, context): by name in the engine
                    for q in self.ix.by_method.get(mname, []):
                        if "plugins/sparql" in self.ix.funcs[q][0]:
                            targets.append((q, "N", args, kw))
                if recv in ("I", "U") and mname not in TREE_MUTATORS:
                    for q in self.ix.by_method.get(mname, []):
                        c = q.split(".")[0]
                        if c in ("CompValue", "Expr", "Query", "Prologue", "Update") or "CompValue" in self.ix.mro(c):
                            targets.append((q, recv, args, kw))
            else:
                # obj.m(): by method name over graph/store/evaluator classes when the receiver is a graph region
                if recv in ("I", "U", "F") and mname not in self.mutators:
                    for q in self.ix.by_method.get(mname, []):
                        c = q.split(".")[0]
                        if c in GRAPH_CLASSES or c in STORE_CLASSES:
                            targets.append((q, recv, args, kw))
                elif mname in ("eval",) or (recv == "N" and mname in ("serialize", "evalQuery")):
                    pass

        for q, selfr, a, k in targets:
            r = self.analyse(q, selfr, a, k)
            if r is not None:
                out.append(r)
        return out

    def _record_ctor(self, cname):
        pass

    def static_type(self, e, env, cls):
        """class of a helper object when it is syntactically evident (x = ClassName(...), self.x = ClassName(...))"""
        if isinstance(e, ast.Name):
            t = env.get("type:" + e.id)
            return t if t and t not in GRAPH_CLASSES and t not in STORE_CLASSES else None
        if isinstance(e, ast.Attribute) and isinstance(e.value, ast.Name) and e.value.id == "self" and cls:
            for c in self.ix.mro(cls):
                t = self.field_types.get((c, e.attr))
                if t and t not in GRAPH_CLASSES and t not in STORE_CLASSES:
                    return t
        return None

    def analyse(self, q, self_region, args, kw):
        rel, cls, node = self.ix.funcs[q]
        params = [a.arg for a in node.args.posonlyargs + node.args.args]
        env = {}
        i0 = 0
        if cls and params and params[0] in ("self", "cls"):
            env[params[0]] = self_region if self_region is not None else "F"
            i0 = 1
        for i, p in enumerate(params[i0:]):
            env[p] = args[i] if i < len(args) else kw.get(p, "N")
        for a in node.args.kwonlyargs:
            env[a.arg] = kw.get(a.arg, "N")
        if node.args.kwarg:
            r = "N"
            for v in kw.values():
                r = join(r, v)
            env[node.args.kwarg.arg] = r
        key = (q, tuple(sorted((k, v) for k, v in env.items() if not k.startswith("type:"))))
        if key in self.memo:
            return self.memo[key]
        if len(self.stack) > 60:
            return "U"
        self.memo[key] = "N"    # recursion: optimistic start, iterate once more below
        self.visited_funcs.add(q)
        self.stack.append((rel, q))
        try:
            ret = "N"
            saved_ret = getattr(self, "_ret", "N")
            for _ in range(2):   # two passes: field regions / recursive results reach a fixpoint quickly
                ret = self.walk_body(node.body, dict(env), cls)
                self.memo[key] = ret
            self._ret = saved_ret
        finally:
            self.stack.pop()
        return ret

    def bind_target(self, t, r, env, strong=False):
        if isinstance(t, ast.Name):
            env[t.id] = r if strong else (join(env.get(t.id, r), r) if t.id in env else r)
        elif isinstance(t, (ast.Tuple, ast.List)):
            for x in t.elts:
                self.bind_target(x, r, env)
        elif isinstance(t, ast.Starred):
            self.bind_target(t.value, r, env)

    def walk_body(self, body, env, cls):
        """flow-sensitive abstract execution: strong updates in straight-line code, joins at merges"""
        self._ret = "N"
        out = self.exec_block(body, env, cls)
        env.clear()
        env.update(out)
        return self._ret

    def join_env(self, e1, e2):
        out = {}
        for k in set(e1) | set(e2):
            if k.startswith("type:"):
                if e1.get(k) == e2.get(k):
                    out[k] = e1[k]
                continue
            if k in e1 and k in e2:
                out[k] = join(e1[k], e2[k])
            else:
                out[k] = join(e1.get(k, "N"), e2.get(k, "N"))
        return out

    def exec_block(self, stmts, env, cls):
        for n in stmts:
            env = self.exec_stmt(n, env, cls)
        return env

    def exec_stmt(self, n, env, cls):
        if isinstance(n, (ast.FunctionDef, ast.AsyncFunctionDef, ast.ClassDef)):
            return env
        if isinstance(n, (ast.Assign, ast.AnnAssign)):
            if getattr(n, "value", None) is None:
                return env
            r = self.ev(n.value, env, cls)
            tgts = n.targets if isinstance(n, ast.Assign) else [n.target]
            ctor = None
            if isinstance(n.value, ast.Call):
                fn_ = n.value.func
                nm_ = fn_.id if isinstance(fn_, ast.Name) else (fn_.attr if isinstance(fn_, ast.Attribute) else None)
                if nm_ in self.ix.classes:
                    ctor = nm_
            for t in tgts:
                if isinstance(t, ast.Name):
                    env[t.id] = r
                    if ctor:
                        env["type:" + t.id] = ctor
                    else:
                        env.pop("type:" + t.id, None)
                elif isinstance(t, ast.Attribute) and isinstance(t.value, ast.Name) and t.value.id == "self" and cls \
                        and self.mode == "tree" and env.get("self") in ("I", "U"):
                    self.obligation(n, "setattr:" + t.attr, env.get("self"), "self", cls)
                elif isinstance(t, ast.Attribute) and isinstance(t.value, ast.Name) and t.value.id == "self" and cls:
                    k = (cls, t.attr)
                    self.fields[k] = join(self.fields.get(k, r), r)     # what other methods may see
                    env["self." + t.attr] = r                           # what this function sees from here on
                    if ctor:
                        self.field_types[k] = ctor
                elif isinstance(t, ast.Attribute):
                    br = self.ev(t.value, env, cls)
                    if self.mode == "tree":
                        if br in ("I", "U"):
                            self.obligation(n, "setattr:" + t.attr, br, ast.unparse(t.value), cls)
                    elif br in ("I",) and t.attr in ("default_context", "default_graph", "_default_context", "store"):
                        self.obligation(n, "setattr:" + t.attr, br, ast.unparse(t.value), cls)
                elif isinstance(t, ast.Subscript) and self.mode == "tree":
                    br = self.ev(t.value, env, cls)
                    if br in ("I", "U"):
                        self.obligation(n, "__setitem__", br, ast.unparse(t.value), cls)
                elif isinstance(t, (ast.Tuple, ast.List)):
                    for x in t.elts:
                        self.bind_target(x, r, env, strong=True)
            return env
        if isinstance(n, ast.AugAssign):
            tr = self.ev(n.target, env, cls)
            vr = self.ev(n.value, env, cls)
            if self.mode == "tree":
                if isinstance(n.target, (ast.Attribute, ast.Subscript)) and self.ev(n.target.value, env, cls) in ("I", "U"):
                    self.obligation(n, "augassign", "I", ast.unparse(n.target), cls)
            elif isinstance(n.op, (ast.Add, ast.Sub)) and tr in ("I", "U") and vr != "N":
                nm = "__iadd__" if isinstance(n.op, ast.Add) else "__isub__"
                if nm in self.mutators:
                    self.obligation(n, nm, tr, ast.unparse(n.target), cls)
            return env
        if isinstance(n, (ast.For, ast.AsyncFor)):
            self.ev(n.iter, env, cls)
            e0 = dict(env)
            for _ in range(2):
                e1 = dict(e0)
                self.bind_target(n.target, self.elem_region(n.iter, e1, cls), e1, strong=True)
                e1 = self.exec_block(n.body, e1, cls)
                e0 = self.join_env(e0, e1)
            return self.exec_block(n.orelse, e0, cls)
        if isinstance(n, ast.While):
            e0 = dict(env)
            for _ in range(2):
                self.ev(n.test, e0, cls)
                e1 = self.exec_block(n.body, dict(e0), cls)
                e0 = self.join_env(e0, e1)
            return self.exec_block(n.orelse, e0, cls)
        if isinstance(n, ast.If):
            self.ev(n.test, env, cls)
            e1 = self.exec_block(n.body, dict(env), cls)
            e2 = self.exec_block(n.orelse, dict(env), cls)
            return self.join_env(e1, e2)
        if isinstance(n, ast.With):
            for it in n.items:
                r = self.ev(it.context_expr, env, cls)
                if it.optional_vars is not None:
                    self.bind_target(it.optional_vars, r, env, strong=True)
            return self.exec_block(n.body, env, cls)
        if isinstance(n, ast.Try):
            e1 = self.exec_block(n.body, dict(env), cls)
            outs = [self.exec_block(n.orelse, dict(e1), cls)]
            for h in n.handlers:
                outs.append(self.exec_block(h.body, self.join_env(env, e1), cls))
            e = outs[0]
            for o in outs[1:]:
                e = self.join_env(e, o)
            return self.exec_block(n.finalbody, e, cls)
        if isinstance(n, ast.Delete) and self.mode == "tree":
            for t in n.targets:
                if isinstance(t, (ast.Subscript, ast.Attribute)) and self.ev(t.value, env, cls) in ("I", "U"):
                    self.obligation(n, "__delitem__", "I", ast.unparse(t.value), cls)
            return env
        if isinstance(n, ast.Return):
            if n.value is not None:
                self._ret = join(self._ret, self.ev(n.value, env, cls))
            return env
        if isinstance(n, ast.Expr):
            self.ev(n.value, env, cls)
            return env
        for ch in ast.iter_child_nodes(n):
            if isinstance(ch, ast.expr):
                self.ev(ch, env, cls)
        return env

    def graphish(self, target, env, cls):
        """is the += / -= target a graph (not a counter or a string)?  Region I/U is only given to graph-ish values;
        numbers and strings are N."""
        return True

    def iter_stmts(self, s):
        """all statements nested in s, excluding nested function/class bodies"""
        yield s
        for field in ("body", "orelse", "finalbody", "handlers"):
            for ch in getattr(s, field, []) or []:
                if isinstance(ch, ast.ExceptHandler):
                    for x in ch.body:
                        yield from self.iter_stmts(x)
                elif isinstance(ch, (ast.FunctionDef, ast.ClassDef, ast.AsyncFunctionDef)):
                    continue
                elif isinstance(ch, ast.stmt):
                    yield from self.iter_stmts(ch)


def run_entry(ix, qualname, self_region="I", arg_regions=(), kw_regions=None):
    an = Analysis(ix)
    an.stack.append(("<entry>", "<entry>"))
    an.analyse(qualname, self_region, list(arg_regions), dict(kw_regions or {}))
    return an


if __name__ == "__main__":
    ix = Index()
    q = sys.argv[1]
    an = run_entry(ix, q, "I", sys.argv[2:])
    print("functions visited:", len(an.visited_funcs), "discharged:", an.ok_sites, "failing:", len(an.sites))
    for s in an.sites:
        print(json.dumps(s))
