#!/usr/bin/env python3
"""Replace the three generated tables of DESIGN.md section 10 (10.2, 10.4, 10.5) by the current output of design_tables.py."""
import os, re, subprocess, sys
ROOT = os.path.dirname(os.path.dirname(os.path.abspath(__file__)))
out = subprocess.run([sys.executable, os.path.join(ROOT, "tools", "design_tables.py")], capture_output=True, text=True).stdout
blocks = [b for b in out.split("\n\n") if b.strip().startswith("|")]
heads = {b.splitlines()[0]: b.strip("\n") for b in blocks}
p = os.path.join(ROOT, "DESIGN.md")
s = open(p).read()
for h, b in heads.items():
    i = s.find(h)
    if i < 0:
        print("table not found:", h[:40]); continue
    j = i
    lines = s[i:].split("\n")
    n = 0
    for ln in lines:
        if not ln.startswith("|"):
            break
        n += len(ln) + 1
    s = s[:i] + b + "\n" + s[i + n:]
open(p, "w").write(s)
print("tables updated:", len(heads))
