#!/bin/bash
# Offline setup: nothing is fetched or built; verify the tools the checks need and byte-compile.
set -e
cd "$(dirname "$0")"
command -v python3-vt >/dev/null || { echo "python3-vt missing"; exit 1; }
[ -x /venv/bin/python ] || { echo "/venv/bin/python missing"; exit 1; }
python3-vt -c "import z3; assert z3.get_version_string().startswith('5.')" 2>/dev/null || python3-vt -c "import z3"
[ -x /usr/bin/cvc5 ] || echo "warning: cvc5 CLI missing (z3 only)"
/venv/bin/python -c "import rdflib" 
mkdir -p work evidence replays
python3-vt -m compileall -q pyvc contracts tools >/dev/null 2>&1 || true
echo "setup ok"
